"""U-trace: TreeBuilder::trace_handles / XmlTreeBuilder::trace_handles against the set of handles held in the
builder's fields, where that set is GENERATED from the struct definition on every run (C18)."""
import re
from unitgen import Raw, Prelude, Item, Rewrite, Generated
from rsx import ExtractError, mask, match_delim

NAME = 'u_trace'
PROPERTIES = ['C18']
CONTRACTS = 'u_trace.contracts'
RLIMIT = 20
H = 'html5ever/src/tree_builder/mod.rs'
X = 'xml5ever/src/tree_builder/mod.rs'

REWRITES = [
    Rewrite('R2-generics', r'pub struct TreeBuilder<Handle, Sink>', 'pub struct TreeBuilder'),
    Rewrite('R2-generics', r'pub struct XmlTreeBuilder<Handle, Sink>', 'pub struct XmlTreeBuilder'),
    Rewrite('R2-generics', r'pub\(crate\) enum FormatEntry<Handle>', 'pub enum FormatEntry'),
    Rewrite('R2-generics', r'FormatEntry<Handle>', 'FormatEntry'),
    # the tracer is a trait object with interior state: modelled as an exclusive reference to a model tracer
    Rewrite('R2-dyn', r'tracer: &dyn Tracer<Handle = Handle>', 'tracer: &mut Tracer'),
    # R7: iterating `&*cell.borrow()` / `cell.borrow().iter()` of a Vec; the ghost iterator is named for the invariant
    Rewrite('R7-iter', r'for e in &\*self\.open_elems\.borrow\(\) \{', 'for e in __it1: self.open_elems.borrow().iter() {'),
    Rewrite('R7-iter', r'for e in &\*self\.active_formatting\.borrow\(\) \{', 'for e in __it2: self.active_formatting.borrow().iter() {'),
    Rewrite('R7-iter', r'for e in self\.open_elems\.borrow\(\)\.iter\(\) \{', 'for e in __it1: self.open_elems.borrow().iter() {'),
    Rewrite('R-vis', r'(?m)^(\s+)(\w+): ', r'\1pub \2: ', only=('TreeBuilder', 'XmlTreeBuilder')),
]


def handles_of(struct_name, file):
    """Generate `spec fn handles_of_<struct>(tb) -> Set<u64>` from the struct definition: one clause per field whose
    type mentions Handle.  An unknown shape makes the unit undecided (exit 2)."""
    def fn(ub):
        s = ub.src(file)
        a, b = s.find_kw_item('struct', struct_name)
        body = s.masked[a:b]
        lb = body.index('{')
        fields = re.findall(r'(?m)^\s*(?:pub(?:\([^)]*\))?\s+)?(\w+)\s*:\s*([^,\n]+),', body[lb:])
        clauses = []
        for name, ty in fields:
            ty = ty.strip()
            if 'Handle' not in ty:
                continue
            if ty == 'Handle':
                clauses.append('h == tb.%s@' % name)
            elif ty == 'RefCell<Vec<Handle>>':
                clauses.append('(exists|i: int| 0 <= i < tb.%s.v@.len() && h == (#[trigger] tb.%s.v@[i])@)' % (name, name))
            elif ty == 'RefCell<Option<Handle>>':
                clauses.append('(tb.%s.v is Some && h == tb.%s.v->Some_0@)' % (name, name))
            elif ty == 'RefCell<Vec<FormatEntry<Handle>>>':
                clauses.append('(exists|i: int| 0 <= i < tb.%s.v@.len() && (#[trigger] tb.%s.v@[i]) is Element && h == tb.%s.v@[i]->Element_0@)' % (name, name, name))
            elif ty in ('Cell<Option<Handle>>',):
                clauses.append('(tb.%s.v is Some && h == tb.%s.v->Some_0@)' % (name, name))
            else:
                raise ExtractError('field %s.%s has a Handle-bearing type this generator does not know: %s' % (struct_name, name, ty))
        ub.count('S-handles_of', len(clauses))
        return ('/// GENERATED from the definition of %s in %s: the handles held in its fields\n'
                'pub open spec fn handles_of_%s(tb: &%s, h: u64) -> bool {\n    %s\n}' % (
                    struct_name, file, struct_name, struct_name, '\n    || '.join(clauses) or 'false'))
    return fn


PARTS = [
    Raw('use vstd::prelude::*;\nverus! {'),
    Prelude('trace.prelude.rs'),
    Item('html5ever/src/tree_builder/types.rs', 'enum', 'FormatEntry'),
    Item(H, 'struct', 'TreeBuilder'),
    Item(X, 'struct', 'XmlTreeBuilder'),
    Generated(handles_of('TreeBuilder', H)),
    Generated(handles_of('XmlTreeBuilder', X)),
    Item(H, 'fn', 'trace_handles', impl='TreeBuilder', wrap='impl TreeBuilder'),
    Item(X, 'fn', 'trace_handles', impl='XmlTreeBuilder', wrap='impl XmlTreeBuilder'),
    Raw('} // verus!\nfn main() {}'),
]
DROPS = ['type parameters Handle/Sink (model types)', 'the dyn Tracer object (model tracer with a ghost set of seen handles)', 'doc comments']
