"""U-dispatch: the tree-construction dispatcher TreeBuilder::is_foreign and the fragment-case tokenizer state
TreeBuilder::tokenizer_state_for_context_elem (html5ever/src/tree_builder/mod.rs), plus the two integration-point predicates
of tag_sets.rs they use.  Serves C02 (partially)."""
from unitgen import Raw, Prelude, Item, Rewrite, Atoms

NAME = 'u_dispatch'
PROPERTIES = ['C02']
CONTRACTS = 'u_dispatch.contracts'
RLIMIT = 30
H = 'html5ever/src/tree_builder/mod.rs'
TS = 'html5ever/src/tree_builder/tag_sets.rs'
TY = 'html5ever/src/tree_builder/types.rs'

REWRITES = [
    # R11: expanded names and atoms are held by value
    Rewrite('R11-byvalue', r'\*name\.ns\b', 'name.ns'),
    Rewrite('R11-byvalue', r'ns: &ns!\(html\)', 'ns: ns!(html)'),
    Rewrite('R11-byvalue', r'match \*name \{', 'match name {'),
    Rewrite('R11-byvalue', r'ref name,', 'name,'),
    Rewrite('R11-byvalue', r'!matches!\(\*name, ', '!matches!(name, '),
    Rewrite('R-vis', r'\bpub\(crate\)\s+', 'pub '),
    Rewrite('R15-msg', r'\.expect\("no context element"\)', '.unwrap()'),
    Rewrite('R2-generics', r'ProcessResult<Handle>', 'ProcessResult'),
]

PARTS = [
    Atoms(),
    Raw('macro_rules! expanded_name { ($ns:ident $local:tt) => { ExpandedName { ns: ns!($ns), local: local_name!($local) } }; }'),
    Raw('use vstd::prelude::*;\nverus! {'),
    Prelude('cells.prelude.rs'),
    Item(TY, 'enum', 'SplitStatus', attrs='#[derive(PartialEq, Eq, Clone, Copy)]'),
    Item(TY, 'enum', 'Token'),
    Prelude('dispatch.prelude.rs'),
    Item(TS, 'fn', 'mathml_text_integration_point'),
    Item(TS, 'fn', 'svg_html_integration_point'),
    Item(H, 'fn', 'is_foreign', impl='TreeBuilder', wrap='impl TreeBuilder'),
    Item(H, 'fn', 'tokenizer_state_for_context_elem', impl='TreeBuilder', wrap='impl TreeBuilder'),
    Raw('} // verus!\nfn main() {}'),
]
DROPS = ['the TreeBuilder struct and the sink (model types: element names and the annotation-xml answer are uninterpreted functions of the handle)',
         'adjusted_current_node (a ghost value)', 'doc comments']
