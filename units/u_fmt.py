"""U-fmt: the HTML tree builder's list of active formatting elements (html5ever/src/tree_builder/mod.rs):
create_formatting_element_for (the "Noah's Ark" clause) and clear_active_formatting_to_marker.  Serves C02 (partially)."""
import hashlib
import re
from unitgen import Raw, Prelude, Item, Rewrite, Generated
from rsx import ExtractError

NAME = 'u_fmt'
PROPERTIES = ['C02']
CONTRACTS = 'u_fmt.contracts'
RLIMIT = 30
H = 'html5ever/src/tree_builder/mod.rs'

# the iterator this loop header stands for: ActiveFormattingView::iter() = data.iter().enumerate().rev(), and
# ActiveFormattingIter::next() stops at the first Marker.  Rule R36 spells that out as a descending index loop; the text
# of both functions is compared with the text the rule was written for, so a change to the iterator makes the unit
# undecided instead of silently verifying against an outdated reading.
ITER_EXPECT = {
    'iter': "fn iter(&'a self) -> impl Iterator<Item = (usize, &'a Handle, &'a Tag)> + 'a { ActiveFormattingIter { iter: self.data.iter().enumerate().rev(), } }",
    'next': "fn next(&mut self) -> Option<(usize, &'a Handle, &'a Tag)> { match self.iter.next() { None | Some((_, &FormatEntry::Marker)) => None, Some((i, FormatEntry::Element(h, t))) => Some((i, h, t)), } }",
    'active_formatting_end_to_marker': "fn active_formatting_end_to_marker(&self) -> ActiveFormattingView<'_, Handle> { ActiveFormattingView { data: self.active_formatting.borrow(), } }",
}


def check_iterator(ub):
    s = ub.src(H)
    for name, impl in (('iter', 'ActiveFormattingView'), ('next', 'ActiveFormattingIter'), ('active_formatting_end_to_marker', 'TreeBuilder')):
        a, lb, b = s.find_fn(name, impl)
        text = re.sub(r'\s+', ' ', re.sub(r'//[^\n]*', '', s.text[a:b])).strip()
        if text != ITER_EXPECT[name]:
            raise ExtractError('rule R36: the text of %s::%s is not the one the loop rewrite was written for' % (impl, name))
    ub.count('R36-itertext', 3)
    return '// rule R36: ActiveFormattingView::iter / ActiveFormattingIter::next / active_formatting_end_to_marker have the expected text'


REWRITES = [
    Rewrite('R2-generics', r'pub\(crate\) enum FormatEntry<Handle>', 'pub enum FormatEntry'),
    Rewrite('R1-receiver', r'(fn \w+\(\s*)&self\b', r'\1&mut self'),
    # R36: `for (i, _, old_tag) in self.active_formatting_end_to_marker().iter() {` = from the end of the list down to (not
    #      including) the last marker; body unchanged
    Rewrite('R36-arkloop', r'for \(i, _, old_tag\) in self\.active_formatting_end_to_marker\(\)\.iter\(\) \{',
            'let __af = self.active_formatting.borrow(); let mut __i = __af.len(); while __i > 0 { __i -= 1; let (i, old_tag) = match &__af[__i] { FormatEntry::Marker => { break; }, FormatEntry::Element(_, t) => (__i, t) };',
            min_count=1),
    Rewrite('S-init', r'let mut first_match = None;', 'let mut first_match: Option<usize> = None;', min_count=1),
    Rewrite('R6-clone', r'tag\.attrs\.clone\(\)', 'attrs_clone(&tag.attrs)', min_count=1),
    Rewrite('R15-msg', r'\.expect\("matches with no index"\)', '.unwrap()'),
]

PARTS = [
    Raw('macro_rules! ns { (html) => { Namespace(1) }; }'),
    Raw('use vstd::prelude::*;\nverus! {'),
    Prelude('cells.prelude.rs'),
    Item('html5ever/src/tree_builder/types.rs', 'enum', 'FormatEntry'),
    Prelude('fmt.prelude.rs'),
    Generated(check_iterator, label='R36'),
    Item(H, 'fn', 'create_formatting_element_for', impl='TreeBuilder', wrap='impl TreeBuilder'),
    Item(H, 'fn', 'clear_active_formatting_to_marker', impl='TreeBuilder', wrap='impl TreeBuilder'),
    Raw('} // verus!\nfn main() {}'),
]
DROPS = ['the TreeBuilder struct (a model struct with the one field these functions touch)', 'Handle / Sink type parameters', 'doc comments']
