"""U-tbtok: TreeBuilder::process_token (html5ever/src/tree_builder/mod.rs), the tree builder's entry point for tokenizer
tokens: parse errors, the DOCTYPE token (initial mode or not; drop_doctype; quirks mode), line numbers, the ignore-LF flag,
conversion to the tree builder's token type.  Serves C08 (exact_errors changes no sink call but the wording; drop_doctype
changes only whether the doctype node is appended) and C09 (the line number is forwarded through set_current_line)."""
from unitgen import Raw, Prelude, Item, Rewrite

NAME = 'u_tbtok'
PROPERTIES = ['C08', 'C09']
CONTRACTS = 'u_tbtok.contracts'
RLIMIT = 30
H = 'html5ever/src/tree_builder/mod.rs'
TY = 'html5ever/src/tree_builder/types.rs'
IF = 'html5ever/src/tokenizer/interface.rs'

REWRITES = [
    Rewrite('R2-generics', r'pub struct TreeBuilder<Handle, Sink>', 'pub struct TreeBuilder'),
    Rewrite('R2-generics', r'FormatEntry<Handle>', 'FormatEntry'),
    Rewrite('R2-generics', r'TokenSinkResult<Handle>', 'tokenizer::TokenSinkResult', only=('TreeBuilder::process_token',)),
    Rewrite('R2-generics', r'pub enum TokenSinkResult<Handle>', 'pub enum TokenSinkResult'),
    Rewrite('R-vis', r'(?m)^(\s+)(\w+): ', r'\1pub \2: ', only=('TreeBuilder',)),
    Rewrite('R-vis', r'\bpub\(crate\)\s+', 'pub '),
    Rewrite('R1-receiver', r'(fn \w+\(\s*)&self\b', r'\1&mut self', only=('TreeBuilder::process_token', 'TreeBuilder::set_quirks_mode')),
    # R13: Option<StrTendril>::unwrap_or_default() is unwrap_or(StrTendril::new()) (Tendril's Default is new()); applied if present
    Rewrite('R13-unwrap_or_default', r'\.unwrap_or_default\(\)', '.unwrap_or(StrTendril::new())'),
    Rewrite('R15-msg', r'\bCow::from\(', 'Cow::msg()', balanced=True),
    Rewrite('R15-msg', r"Cow<'static, str>", 'Cow'),
]

DERIVE = '#[derive(PartialEq, Eq, Copy, Clone, Structural)]'
PARTS = [
    Raw('use vstd::prelude::*;\nuse vstd::string::*;\nverus! {'),
    Prelude('cells.prelude.rs'),
    Prelude('tbtok.prelude.rs'),
    Item(TY, 'enum', 'InsertionMode', attrs=DERIVE),
    Item(TY, 'enum', 'SplitStatus', attrs=DERIVE),
    Item(TY, 'enum', 'Token'),
    Raw('pub mod tokenizer { use super::*;'),
    Item(IF, 'struct', 'Doctype'),
    Item(IF, 'enum', 'Token', qname='tokenizer::Token'),
    Item(IF, 'enum', 'TokenSinkResult'),
    Raw('pub use self::Token::*;\n}\npub use tokenizer::Doctype;'),
    Item(H, 'struct', 'TreeBuilder'),
    Prelude('tbtok.spec.rs'),
    Item(H, 'fn', 'set_quirks_mode', impl='TreeBuilder', wrap='impl TreeBuilder'),
    Item(H, 'fn', 'process_token', impl='TreeBuilder', wrap='impl TreeBuilder'),
    Raw('} // verus!\nfn main() {}'),
]
DROPS = ['Handle / Sink type parameters and the TokenSink trait impl (process_token is checked as an inherent method)',
         'error-message wording (rule R15)', 'doc comments']
