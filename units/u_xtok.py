"""U-xtok: the XML tokenizer's input handling (xml5ever/src/tokenizer/mod.rs) against its normalised pending
stream.  Serves C15: every read path (slow, fast, look-ahead, re-consume, un-consume) delivers the same
normalised characters, the fast-path states treat a run like the same characters one by one, every
pop_except_from call site passes a set containing CR and NUL, and a U+FEFF is dropped only at the very start."""
from unitgen import Raw, Prelude, Item, Rewrite

NAME = 'u_xtok'
PROPERTIES = ['C15']
CONTRACTS = 'u_xtok.contracts'
SHARED_CONTRACTS = ['u_xcr.contracts', 'u_bq.contracts', 'u_small.contracts']
RLIMIT = 20
M = 'xml5ever/src/tokenizer/mod.rs'
ST = 'xml5ever/src/tokenizer/states.rs'
IF = 'xml5ever/src/tokenizer/interface.rs'
CR = 'xml5ever/src/tokenizer/char_ref/mod.rs'
BQ = 'markup5ever/util/buffer_queue.rs'

DERIVE = '#[derive(PartialEq, Eq, Copy, Clone, Structural)]'

REWRITES = [
    # ---- R2: strip the Sink type parameter
    Rewrite('R2-generics', r'<<Sink as TokenSink>::Handle>', '<Handle>'),
    Rewrite('R2-generics', r'<Sink::Handle>', '<Handle>'),
    Rewrite('R2-generics', r'XmlTokenizer<Sink>', 'XmlTokenizer'),
    Rewrite('R2-generics', r'<Sink: TokenSink>', ''),
    # ---- R1: interior mutability made explicit
    Rewrite('R1-receiver', r'(fn \w+(?:<[^>]*>)?\(\s*)&self\b', r'\1&mut self', skip=('CharRefTokenizer::name_buf',)),
    Rewrite('R1-receiver', r'\binput: &BufferQueue\b', 'input: &mut BufferQueue'),
    Rewrite('R1-receiver', r'\btokenizer: &XmlTokenizer\b', 'tokenizer: &mut XmlTokenizer'),
    Rewrite('R1-receiver', r'let input = BufferQueue::default\(\);', 'let mut input = BufferQueue::default();'),
    Rewrite('R1-receiver', r'\(self, &input\)', '(self, &mut input)'),
    Rewrite('R1-receiver', r'self\.run\(&input\)', 'self.run(&mut input)'),
    # ---- R28: Box<T> is transparent ownership
    Rewrite('R28-box', r'Option<Box<CharRefTokenizer>>', 'Option<CharRefTokenizer>'),
    Rewrite('R28-box', r'Some\(Box::new\(CharRefTokenizer::new\(addnl_allowed\)\)\)', 'Some(CharRefTokenizer::new(addnl_allowed))'),
    # ---- R15: error-message wording is dropped (format!/Cow); which errors are raised is kept
    Rewrite('R15-msgarg', r'Cow::from\(format!\("Invalid character reference &\{\}", self\.name_buf\(\)\)\)',
            '{ let _nb = self.name_buf(); Cow::msg() }', min_count=1),
    Rewrite('R15-msg', r'\bCow::from\(', 'Cow::msg()', balanced=True),
    Rewrite('R15-msg', r'\bCow::Owned\(', 'Cow::msg()', balanced=True),
    Rewrite('R15-msg', r'\bBorrowed\(', 'Cow::msg()', balanced=True),
    Rewrite('R15-msg', r'\bformat!\(', '()', balanced=True),
    Rewrite('R15-msg', r"Cow<'static, str>", 'Cow'),
    Rewrite('R15-msg', r'\bpanic!\(', 'panic!("unreachable")', balanced=True),
    # ---- R16: mem::replace(x, StrTendril::new()) on the tendril shim
    Rewrite('R16-take', r'(?<![\w:])replace\(\s*&mut \*self\.', 'replace_tendril(&mut *self.'),
    Rewrite('R16-take', r'(?<![\w:])replace\(\s*&mut self\.', 'replace_tendril(&mut *self.'),
    # R17: RefMut<'_, T> returned by doctype_id is an exclusive borrow
    Rewrite('R17-refmut', r"RefMut<'_, Option<StrTendril>>", '&mut Option<StrTendril>'),
    # ---- R13: a datatype constructor used as a function value is eta-expanded; and_then written out
    Rewrite('R13-eta', r'\.map\(FromSet\)', '.map(|c| FromSet(c))'),
    Rewrite('R13-and_then', r'input\s*\.next\(\)\s*\.and_then\(\|c\| self\.get_preprocessed_char\(c, input\)\)',
            'match input.next() { Some(c) => self.get_preprocessed_char(c, input), None => None }', min_count=1),
    # ---- R27: the bodies of the match arms of the four fast-path states are wrapped in a block (all are of type ())
    #      so that a proof step can follow them
    Rewrite('R27-armblock', r'(FromSet\(c\)|NotFromSet\((?:ref )?b\)) => ([^,\n]+),\n', r'\1 => { \2; },\n', min_count=8),
    Rewrite('R-vis', r'\bpub\(super\)\s+', 'pub '),
    # ---- R19: the generated PHF map of named entities is a model function with an ASSUMED contract over the
    #      uninterpreted entity table; byte-range slicing of the name buffer goes through the tendril model (R8)
    Rewrite('R19-entities', r'data::NAMED_ENTITIES\.get\(&self\.name_buf\(\)\[\.\.\]\)', 'named_entities_get(self.name_buf().as_str())', min_count=1),
    Rewrite('R11-byvalue', r'Some\(&m\) =>', 'Some(m) =>'),
    Rewrite('R8-slice', r'self\.name_buf\(\)\[name_len - 1\.\.\]', 'self.name_buf().slice_from(name_len - 1)'),
    Rewrite('R8-slice', r'&self\.name_buf\(\)\[name_len\.\.\]', 'self.name_buf().slice_from(name_len)'),
    Rewrite('R8-slice', r'self\.name_buf\(\)\[name_len\.\.\]', 'self.name_buf().slice_from(name_len)'),
    # ---- R34: Verus 0.2026.09.13 loses track of a `&mut` parameter that is passed on inside a GUARDED match arm; the guard
    #      of `Some(';') if G => E,` is moved into the arm (the only arm that follows is `_ => ()` and E has type ())
    Rewrite('R34-guard-into-arm', r"Some\(';'\) if self\.name_buf\(\)\.len\(\) > 1 => self\.emit_name_error\(tokenizer\),(\s*)_ => \(\),",
            r"Some(';') => { if self.name_buf().len() > 1 { self.emit_name_error(tokenizer) } },\1_ => (),", only=('CharRefTokenizer::finish_named',), min_count=1),
    # ---- R29: a RefMut held across a loop is re-borrowed at its single use instead (RefCell borrow scopes are not modelled;
    #      no other borrow of the cell happens inside the loop)
    Rewrite('R29-refmut-scope', r'let mut temp_buf = self\.temp_buf\.borrow_mut\(\);\s*while let Some\(data\) = input\.next\(\) \{\s*temp_buf\.push_char\(data\);',
            'while let Some(data) = input.next() { self.temp_buf.borrow_mut().push_char(data);', min_count=1),
]


def tk(name, **kw):
    return Item(M, 'fn', name, impl='XmlTokenizer', wrap='impl XmlTokenizer', **kw)


MACROS = [
    Raw('#![feature(allocator_api)]\nmacro_rules! trace { ($($t:tt)*) => {} }\nmacro_rules! debug { ($($t:tt)*) => {} }\n'
        'macro_rules! ns { () => { () } }'),
    Item('markup5ever/lib.rs', 'macro', 'small_char_set',
         rewrites=(Rewrite('R2-generics', r'\$ crate ::SmallCharSet', 'SmallCharSet'),)),
    Item('xml5ever/src/macros.rs', 'macro', 'time', rewrites=(Rewrite('R3-instant', r'::std::time::Instant', 'Instant'),)),
    Item(M, 'macro', 'shorthand'),
    Item(M, 'macro', 'sh_trace'),
    Item(M, 'macro', 'go'),
    Item(M, 'macro', 'get_char'),
    Item(M, 'macro', 'eat'),
]

TYPES = [
    Item(ST, 'enum', 'DoctypeKind', attrs=DERIVE),
    Item(ST, 'enum', 'AttrValueKind', attrs=DERIVE),
    Item(ST, 'enum', 'XmlState', attrs=DERIVE),
    Raw('pub use AttrValueKind::*;\npub use DoctypeKind::*;'),
    Item(IF, 'struct', 'Doctype'),
    Item(IF, 'enum', 'TagKind', attrs=DERIVE),
    Raw('pub use TagKind::{EmptyTag, EndTag, ShortTag, StartTag};'),
    Item(IF, 'struct', 'Tag'),
    Item(IF, 'struct', 'Pi'),
    Item(IF, 'enum', 'Token'),
    Item(M, 'enum', 'ProcessResult'),
    Item('markup5ever/interface/mod.rs', 'enum', 'TokenizerResult'),
    Item(M, 'struct', 'XmlTokenizerOpts'),
    Item(M, 'struct', 'XmlTokenizer',
         rewrites=(Rewrite('R2-generics', r'pub struct XmlTokenizer<Sink>', 'pub struct XmlTokenizer'),
                   Rewrite('R3-profile', r'state_profile: RefCell<BTreeMap<XmlState, u64>>', 'state_profile: RefCell<ProfileMap>'))),
    Raw('pub mod data { use super::*;'),
    Item('web_atoms/lib.rs', 'static', 'C1_REPLACEMENTS',
         rewrites=(Rewrite('R20-static', r'pub static C1_REPLACEMENTS', 'pub const C1_REPLACEMENTS'),)),
    Raw('}'),
    Item(CR, 'struct', 'CharRef'),
    Item(CR, 'enum', 'Status', attrs=DERIVE),
    Item(CR, 'enum', 'State', qname='char_ref::State',
         rewrites=(Rewrite('R-rename', r'\benum State\b', 'pub enum CrState'),), attrs=DERIVE),
    Item(CR, 'struct', 'CharRefTokenizer', rewrites=(Rewrite('R-rename', r'\bstate: State\b', 'state: CrState'),
                                                    Rewrite('R-vis', r'(?m)^(\s+)(\w+): ', r'\1pub \2: '))),
    Raw('pub mod char_ref { pub use super::Status::*; }\npub use CrState::*;\npub use Status::*;'),
]

CR_RENAME = ()
# the character-reference sub-tokenizer: used here through its contracts, verified by unit u_xcr
CRFNS = ('new', 'get_result', 'name_buf', 'name_buf_mut', 'finish_none', 'finish_one', 'step', 'do_begin', 'do_octothorpe',
         'do_numeric', 'do_numeric_semicolon', 'unconsume_numeric', 'finish_numeric', 'do_named', 'emit_name_error',
         'unconsume_name', 'finish_named', 'do_bogus_name', 'end_of_file')


def cr(name, **kw):
    return Item(CR, 'fn', name, impl='CharRefTokenizer', wrap='impl CharRefTokenizer', rewrites=CR_RENAME, **kw)


BQFN = ('is_empty', 'pop_front', 'push_front', 'push_back', 'peek', 'pop_except_from', 'next', 'eat')

PARTS = MACROS + [
    Raw('use vstd::prelude::*;\nuse vstd::string::*;\nuse std::collections::VecDeque;\nuse std::char::from_u32;\nverus! {'),
    Prelude('small.prelude.rs'),
    Prelude('std.prelude.rs'),
    Prelude('cells.prelude.rs'),
    Prelude('tendril.prelude.rs'),
    Prelude('atoms.prelude.rs'),
    Prelude('bqspec.prelude.rs'),
] + TYPES + [
    Item(BQ, 'enum', 'SetResult'),
    Raw('pub use SetResult::{FromSet, NotFromSet};'),
    Item(BQ, 'struct', 'BufferQueue'),
    Prelude('enttab.prelude.rs'),
    Prelude('xcr.abs.rs'),
    Prelude('xtok.abs.rs'),
] + [Item(BQ, 'fn', n, impl='BufferQueue', wrap='impl BufferQueue', mode='assume', unit_rewrites=False,
          rewrites=(Rewrite('R1-receiver', r'\(&self\b', '(&mut self', only=('BufferQueue::pop_front', 'BufferQueue::push_front', 'BufferQueue::push_back', 'BufferQueue::pop_except_from', 'BufferQueue::eat', 'BufferQueue::next')),))
     for n in BQFN] + [
    Item(M, 'fn', 'option_push'),
    tk('feed'), tk('process_token'),
    tk('get_preprocessed_char'), tk('bad_eof_error'), tk('pop_except_from'), tk('eat'),
    tk('run', attrs='#[verifier::exec_allows_no_decreases_clause]'),
    tk('get_char'), tk('bad_char_error'), tk('discard_tag'), tk('create_tag'), tk('create_pi'), tk('emit_char'),
    tk('emit_short_tag'), tk('emit_empty_tag'), tk('set_empty_tag'), tk('emit_start_tag'),
    tk('emit_current_tag', mode='assume'), tk('emit_chars'), tk('emit_pi'), tk('consume_char_ref'), tk('emit_eof'), tk('emit_error'),
    tk('emit_current_comment'), tk('emit_current_doctype'), tk('doctype_id', mode='assume'), tk('clear_doctype_id'),
    tk('peek'), tk('discard_char'), tk('unconsume'), tk('discard_raw_char'),
    tk('step'), tk('step_char_ref_tokenizer', mode='assume'), tk('process_char_ref'),
    tk('finish_attribute', mode='assume'), tk('create_attribute'),
] + [cr(n, mode='assume') for n in CRFNS] + [
    Raw('} // verus!\nfn main() {}'),
]

DROPS = [
    'the Sink type parameter and trait dispatch (rule R2): the sink is a model type whose process_token appends to a ghost token log',
    'log macro debug! (rule R9)',
    'error-message wording: format!/Cow arguments of emit_error (rule R15)',
    'doc comments and #[derive]/#[inline]/#[allow] attributes of the extracted items',
]
