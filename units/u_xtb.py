"""U-xtb: the XML tree-construction rules (xml5ever/src/tree_builder/mod.rs): `step` (all three phases), its helpers and the
driving loop `process_to_completion`, panic-free under an invariant that is PROVED inductive (C04).  Built on U-xns's file (its
verified functions are assumed here; their contracts carry the frame `same_tree`)."""
import dataclasses, re
from unitgen import Raw, Prelude, Item, Rewrite, Atoms
import u_xns

NAME = 'u_xtb'
PROPERTIES = ['C04']
CONTRACTS = 'u_xtb.contracts'
SHARED_CONTRACTS = ['u_xns.contracts', 'u_qname.contracts']
RLIMIT = 40
TB = u_xns.TB
TY = 'xml5ever/src/tree_builder/types.rs'
IF = u_xns.IF

READONLY = ('XmlTreeBuilder::current_node', 'XmlTreeBuilder::current_node_in', 'XmlTreeBuilder::tag_in_open_elems', 'XmlTreeBuilder::no_open_elems')
REWRITES = [dataclasses.replace(rw, skip=tuple(rw.skip or ()) + READONLY) if rw.rule == 'R1-receiver' and rw.skip else rw for rw in u_xns.REWRITES] + [
    Rewrite('R2-generics', r'XmlProcessResult<Handle>', 'XmlProcessResult'),
    Rewrite('R2-generics', r'XmlProcessResult<<Self as TokenSink>::Handle>', 'XmlProcessResult'),
    Rewrite('R2-generics', r'ProcessResult<<Self as TokenSink>::Handle>', 'ProcessResult<Handle>'),
    Rewrite('R2-generics', r'fn current_node<Handle>\(open_elems: &\[Handle\]\)', 'fn current_node(open_elems: &Vec<Handle>)'),
    Rewrite('R2-generics', r'NodeOrText<Handle>', 'NodeOrText'),
    # R38: Ref::map(cell.borrow(), |x| e) is e on the borrowed value
    Rewrite('R38-refmap', r"Ref<'_, Handle>", '&Handle'),
    Rewrite('R38-refmap', r'Ref::map\(self\.open_elems\.borrow\(\), \|elems\| \{\s*elems\.last\(\)\.expect\("no current element"\)\s*\}\)',
            '{ let elems = self.open_elems.borrow(); elems.last().expect("no current element") }', only=('XmlTreeBuilder::current_node',), min_count=1),
    # R37: `.iter().any(closure)` over the stack of open elements through a model function (xtb.prelude.rs)
    Rewrite('R37-any', r'self\.open_elems\s*\.borrow\(\)\s*\.iter\(\)\s*\.any\(\|a\| self\.sink\.elem_name\(a\)\.expanded\(\) == tag\.name\.expanded\(\)\)',
            'elems_any_named(&self.open_elems.borrow(), &self.sink, tag.name.expanded())', only=('XmlTreeBuilder::tag_in_open_elems',), min_count=1),
    Rewrite('R1-receiver', r'create_element\(\s*&self\.sink,', 'create_element(&self.sink,'),
    Rewrite('R6-deref', r'None => Tendril::new\(\),', 'None => StrTendril::new(),', only=('XmlTreeBuilder::append_doctype_to_doc',), min_count=1),
    Rewrite('R15-msg', r'\bwarn!\([^;]*\);', ''),
    Rewrite('R2-generics', r'pub fn new\(sink: Sink, opts: XmlTreeBuilderOpts\) -> XmlTreeBuilder<Handle, Sink>', 'pub fn new(sink: TreeSink, opts: XmlTreeBuilderOpts) -> XmlTreeBuilder', only=('XmlTreeBuilder::new',), min_count=1),
    Rewrite('R32-vecmacro', r'RefCell::new\(vec!\[\]\)', 'RefCell::new(Vec::new())', only=('XmlTreeBuilder::new',), min_count=1),
    Rewrite('R15-msg', r'self\.debug_step\(mode, &token\);', '', only=('XmlTreeBuilder::step',), min_count=1),
]


def tb(name, **kw):
    return Item(TB, 'fn', name, impl='XmlTreeBuilder', wrap='impl XmlTreeBuilder', **kw)


def _assume(p):
    if isinstance(p, Item) and p.kind == 'fn' and p.mode == 'verify':
        return dataclasses.replace(p, mode='assume')
    return p


FNS = ['current_node', 'insert_appropriately', 'insert_tag', 'append_tag', 'append_tag_to_doc', 'add_to_open_elems', 'append_comment_to_doc',
       'append_comment_to_tag', 'append_doctype_to_doc', 'append_pi_to_doc', 'append_pi_to_tag', 'append_text', 'tag_in_open_elems', 'pop_until',
       'current_node_in', 'close_tag', 'no_open_elems', 'pop', 'stop_parsing', 'step', 'process_to_completion']
PARTS = [_assume(p) for p in u_xns.PARTS[:-1]] + [
    Item(IF, 'struct', 'Pi'),
    Item(TY, 'enum', 'Token'),
    Item(TY, 'enum', 'XmlProcessResult'),
    Prelude('xtb.prelude.rs'),
    Item(TB, 'fn', 'current_node', qname='current_node'),
    Item(TB, 'fn', 'new', impl='XmlTreeBuilder', wrap='impl XmlTreeBuilder', qname='XmlTreeBuilder::new'),
] + [tb(n, optional=(n in ('current_node_in', 'no_open_elems', 'tag_in_open_elems', 'append_tag_to_doc', 'add_to_open_elems'))) for n in FNS] + [
    Raw('} // verus!\nfn main() {}'),
]
DROPS = ['XmlTreeBuilder::new, process_token (token conversion), end (a drain loop) and the TokenSink / tracing plumbing are not extracted',
         'debug!/warn! logging and debug_step are erased', 'the sink is a stateless model: its effects are not specified in this unit']
