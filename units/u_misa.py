"""U-misa: TreeBuilder::handle_misnested_a_tags (html5ever/src/tree_builder/mod.rs) against the standard's clause of the <a> start-tag
rule, with the adoption agency algorithm through the contract U-aaa proves (C02 partial, C04).  Same generated file as U-inbody's
base with this one function verified instead of assumed."""
import dataclasses
from unitgen import Raw, Item
import u_inbody
import u_table

NAME = 'u_misa'
PROPERTIES = ['C02', 'C04']
CONTRACTS = 'u_misa.contracts'
SHARED_CONTRACTS = [c for c in u_inbody.SHARED_CONTRACTS if c != 'u_misa.contracts']
RLIMIT = 60
REWRITES = [rw for rw in u_table.REWRITES if not (rw.only and all(o.startswith('TreeBuilder::step__') for o in rw.only))]


def _flip(p):
    if isinstance(p, Item) and p.kind == 'fn' and p.name == 'handle_misnested_a_tags':
        return dataclasses.replace(p, mode='verify')
    return p


PARTS = [_flip(p) for p in u_inbody.BASE] + [Raw('} // verus!\nfn main() {}')]
DROPS = u_inbody.DROPS
