"""U-hser: html5ever/src/serialize/mod.rs (C07: escaping, raw-text decision, inner == outer)."""
from unitgen import Raw, Prelude, Item, Rewrite, Atoms

NAME = 'u_hser'
PROPERTIES = ['C07']
CONTRACTS = 'u_hser.contracts'
RLIMIT = 30
F = 'html5ever/src/serialize/mod.rs'

REWRITES = [
    Rewrite('R2-generics', r'impl<Wr: Write> ', 'impl '),
    Rewrite('R2-generics', r'HtmlSerializer<Wr: Write>', 'HtmlSerializer'),
    Rewrite('R2-generics', r'pub writer: Wr,', 'pub writer: Writer,'),
    Rewrite('R2-generics', r'\(writer: Wr, ', '(writer: Writer, '),
    Rewrite('R3-io', r'io::Result<\(\)>', 'IoResult'),
    # R5: the generic attribute iterator is a slice of (name, value) pairs (every slice iterator is such an iterator)
    Rewrite('R5-attriter', r"fn start_elem<'a, AttrIter>\(&mut self, name: QualName, attrs: AttrIter\) -> IoResult\s*where\s*AttrIter: Iterator<Item = AttrRef<'a>>,",
            "fn start_elem<'a>(&mut self, name: QualName, attrs: &Vec<AttrRef<'a>>) -> IoResult", min_count=1),
    Rewrite('R5-attriter', r'for \(name, value\) in attrs \{', 'for __a in __it1: attrs.iter() { let (name, value) = (__a.0, __a.1);', min_count=2),
    # R8: range indexing of byte slices
    Rewrite('R8-slice', r'&slice\[\.\.result\]', 'slice_subrange(slice, 0, result)'),
    Rewrite('R8-slice', r'&bytes\[search_start\.\.\]', 'slice_subrange(bytes, search_start, bytes.len())'),
    Rewrite('R8-slice', r'&bytes\[search_start\.\.next_special\]', 'slice_subrange(bytes, search_start, next_special)'),
    Rewrite('R8-slice', r'&bytes\[next_special\.\.next_special \+ 1\]', 'slice_subrange(bytes, next_special, next_special + 1)'),
    # R9: a `ref` binding that is only used by the dropped log macro
    Rewrite('R9-logbinding', r'ref ns => \{', '_ => {'),
    Rewrite('R23-default', r'Default::default\(\)', 'ElemInfo::default()'),
    # R24: Option<&u8> comparison written out (slice::get + PartialEq on Option<&u8>)
    Rewrite('R24-getcmp', r'bytes\.get\(next_special \+ 1\) == Some\(&0xA0\)', '(next_special + 1 < bytes.len() && bytes[next_special + 1] == 0xA0)'),
    # R25: str::len through a model function (vstd's specification of str::len does not give the byte length)
    Rewrite('R25-strlen', r'\btext\.len\(\)', 'str_len(text)'),
    # R12: bind the scrutinee of a match with a guarded arm to a local first (Verus panic otherwise)
    Rewrite('R12-scrutinee', r'let replacement = match bytes\[next_special\] \{', 'let __m1 = bytes[next_special]; let replacement = match __m1 {', min_count=1),
]


def hs(name, **kw):
    return Item(F, 'fn', name, impl='HtmlSerializer', wrap='impl HtmlSerializer', **kw)


PARTS = [
    Raw('macro_rules! warn { ($($t:tt)*) => {} }'),
    Atoms(),
    Raw('use vstd::prelude::*;\nuse vstd::string::*;\nuse vstd::slice::*;\nverus! {'),
    Prelude('hser.prelude.rs'),
    Item('markup5ever/serialize.rs', 'enum', 'TraversalScope'),
    Item(F, 'struct', 'SerializeOpts'),
    Item(F, 'struct', 'ElemInfo', rewrites=(Rewrite('R-vis', r'\bstruct ElemInfo', 'pub struct ElemInfo'), Rewrite('R-vis', r'(?m)^(\s+)(html_name|ignore_children):', r'\1pub \2:'))),
    Item(F, 'struct', 'HtmlSerializer', rewrites=(Rewrite('R-vis', r'(?m)^(\s+)(opts|stack):', r'\1pub \2:'),)),
    Item(F, 'fn', 'tagname'),
    hs('new'), hs('parent'), hs('write_escaped'), hs('start_elem'),
    hs('end_elem'), hs('write_text'), hs('write_comment'), hs('write_doctype'), hs('write_processing_instruction'),
    Raw('} // verus!\nfn main() {}'),
]
DROPS = ['the Write type parameter (the writer is a model with a ghost byte log)', 'the Serializer trait (start_elem is checked as an inherent method over a slice of attributes)',
         'log macro warn!', 'doc comments and derives']
