"""U-modes: small insertion modes of the HTML tree builder, each the whole `InsertionMode::X => match token { .. }` block of
TreeBuilder::step (rules.rs) extracted verbatim as a fragment and checked case by case against the standard: initial, text,
after body, in frameset, after frameset, after after body, after after frameset.  Serves C02 (partially) and C04.

Built on U-tmpl's file."""
import dataclasses

import u_tmpl
import u_stack
from unitgen import Raw, Prelude, Item, Rewrite, Fragment

NAME = 'u_modes'
PROPERTIES = ['C02', 'C04']
CONTRACTS = 'u_modes.contracts'
SHARED_CONTRACTS = ['u_tmpl.contracts', 'u_fcontent.contracts', 'u_stack.contracts', 'u_aaa.contracts']
RLIMIT = 60
H = u_stack.H
R = u_tmpl.R
MODES = [('Initial', 'initial'), ('Text', 'text'), ('AfterBody', 'after_body'), ('InFrameset', 'in_frameset'), ('AfterFrameset', 'after_frameset'),
         ('AfterAfterBody', 'after_after_body'), ('AfterAfterFrameset', 'after_after_frameset')]

REWRITES = u_tmpl.REWRITES + [
    Rewrite('S-fragment-close', r'\}\s*\Z', '} }', only=tuple('TreeBuilder::step__' + n for _, n in MODES)),
    Rewrite('R1-receiver', r'(fn \w+(?:<[^>]*>)?\(\s*)&self\b', r'\1&mut self', only=('TreeBuilder::append_comment_to_doc', 'TreeBuilder::append_comment_to_html', 'TreeBuilder::set_quirks_mode')),
    Rewrite('R15-msg', r'unreachable!\(', 'unreachable!("x")', balanced=True),
]


def tb(name, **kw):
    return Item(H, 'fn', name, impl='TreeBuilder', wrap='impl TreeBuilder', **kw)


def _assume(p):
    if isinstance(p, Item) and p.kind == 'fn' and p.mode == 'verify':
        return dataclasses.replace(p, mode='assume')
    if isinstance(p, Fragment):
        return None
    return p


BASE = [q for q in (_assume(p) for p in u_tmpl.PARTS[:-1]) if q is not None]
PARTS = BASE + [
    Prelude('modes.spec.rs'),
    tb('append_comment_to_doc'), tb('append_comment_to_html'), tb('set_quirks_mode'),
] + [Fragment(R, 'step', 'TreeBuilder', r'InsertionMode::%s => match token \{' % m,
              'fn step__%s(&mut self, token: Token) -> ProcessResult { match token' % n, 'step__%s' % n, wrap='impl TreeBuilder')
     for m, n in MODES] + [
    Raw('} // verus!\nfn main() {}'),
]
DROPS = u_tmpl.DROPS
