"""U-modes: small insertion modes of the HTML tree builder, each the whole `InsertionMode::X => match token { .. }` block of
TreeBuilder::step (rules.rs) extracted verbatim as a fragment and checked case by case against the standard: initial, text,
after body, in frameset, after frameset, after after body, after after frameset.  Serves C02 (partially) and C04.

Built on U-tmpl's file."""
import dataclasses
import re

import u_tmpl
import u_stack
from unitgen import Raw, Prelude, Item, Rewrite, Fragment

NAME = 'u_modes'
PROPERTIES = ['C02', 'C04']
CONTRACTS = 'u_modes.contracts'
SHARED_CONTRACTS = ['u_tmpl.contracts', 'u_fcontent.contracts', 'u_stack.contracts', 'u_aaa.contracts', 'u_misa.contracts']
RLIMIT = 60
H = u_stack.H
R = u_tmpl.R
# blocks of the form `InsertionMode::X => { let anything_else = |token| {..}; match token {..} }`
BLOCK_MODES = [('BeforeHtml', 'before_html'), ('BeforeHead', 'before_head'), ('InHeadNoscript', 'in_head_noscript'), ('AfterHead', 'after_head')]
MODES = [('InColumnGroup', 'in_column_group'), ('Initial', 'initial'), ('Text', 'text'), ('AfterBody', 'after_body'), ('InFrameset', 'in_frameset'), ('AfterFrameset', 'after_frameset'),
         ('AfterAfterBody', 'after_after_body'), ('AfterAfterFrameset', 'after_after_frameset')]

REWRITES = u_tmpl.REWRITES + [
    Rewrite('S-fragment-close', r'\}\s*\Z', '} }', only=tuple('TreeBuilder::step__' + n for _, n in MODES)),
    Rewrite('R1-receiver', r'(fn \w+(?:<[^>]*>)?\(\s*)&self\b', r'\1&mut self', only=('TreeBuilder::append_comment_to_doc', 'TreeBuilder::append_comment_to_html', 'TreeBuilder::set_quirks_mode')),
    Rewrite('R15-msg', r'unreachable!\(', 'unreachable!("x")', balanced=True),
    # R41: a local closure that mutates the tree builder through `self` (`let anything_else = |token: Token| { BODY };`, called as
    #      `anything_else(token)` in tail position of match arms, at most once on every path) is inlined at its call sites through
    #      a local macro with the same body: Verus does not accept closures that capture `&mut self`
    Rewrite('R41-inline-closure', r'let anything_else = \|token: Token\| \{(.*?)\n(\s*)\};',
            r'macro_rules! anything_else { ($t:expr) => {{ let token: Token = $t;\1\n\2}} }', flags=re.S, only=tuple('TreeBuilder::step__' + n for _, n in BLOCK_MODES), min_count=4),
    Rewrite('R41-inline-closure', r'\banything_else\(token\)', 'anything_else!(token)', only=tuple('TreeBuilder::step__' + n for _, n in BLOCK_MODES), min_count=8),
    Rewrite('R1-receiver', r'(fn \w+(?:<[^>]*>)?\(\s*)&self\b', r'\1&mut self', only=('TreeBuilder::create_root',)),
    Rewrite('R1-receiver', r'create_element\(\s*&self\.sink,', 'create_element(&mut self.sink,', only=('TreeBuilder::create_root',), min_count=1),
]


def tb(name, **kw):
    return Item(H, 'fn', name, impl='TreeBuilder', wrap='impl TreeBuilder', **kw)


def _assume(p):
    if isinstance(p, Item) and p.kind == 'fn' and p.mode == 'verify':
        return dataclasses.replace(p, mode='assume')
    if isinstance(p, Fragment):
        return None
    return p


BASE = [q for q in (_assume(p) for p in u_tmpl.PARTS[:-1]) if q is not None]
PARTS = BASE + [
    Prelude('modes.spec.rs'),
    tb('append_comment_to_doc'), tb('append_comment_to_html'), tb('set_quirks_mode'), tb('create_root'),
] + [Fragment(R, 'step', 'TreeBuilder', r'InsertionMode::%s => \{' % m, 'fn step__%s(&mut self, token: Token) -> ProcessResult' % n, 'step__%s' % n, wrap='impl TreeBuilder')
     for m, n in BLOCK_MODES] + [Fragment(R, 'step', 'TreeBuilder', r'InsertionMode::%s => match token \{' % m,
              'fn step__%s(&mut self, token: Token) -> ProcessResult { match token' % n, 'step__%s' % n, wrap='impl TreeBuilder')
     for m, n in MODES] + [
    Raw('} // verus!\nfn main() {}'),
]
DROPS = u_tmpl.DROPS
