"""U-xcr: the XML character-reference sub-tokenizer (xml5ever/src/tokenizer/char_ref/mod.rs, all 19 functions) and
its glue in the tokenizer (XmlTokenizer::step_char_ref_tokenizer).  Serves C15: a step suspends exactly when no input
is pending and then changes nothing, text that turns out not to be a reference is given back exactly as read (nothing
lost, nothing doubled), and the host's pending-CR / re-consume flags stay off so that raw look-ahead and normalising
reads agree.

The generated file is the one of U-xtok with the modes exchanged: here the character-reference functions are verified
and the tokenizer's own functions are used through their contracts (which U-xtok proves)."""
import dataclasses

import u_xtok
from unitgen import Item

NAME = 'u_xcr'
PROPERTIES = ['C15']
CONTRACTS = 'u_xcr.contracts'
SHARED_CONTRACTS = ['u_xtok.contracts', 'u_bq.contracts', 'u_small.contracts']
RLIMIT = 30
REWRITES = u_xtok.REWRITES

VERIFY_HERE = ('XmlTokenizer::step_char_ref_tokenizer',)


def _flip(p):
    if not isinstance(p, Item) or p.kind != 'fn':
        return p
    if p.impl == 'CharRefTokenizer' or p.q() in VERIFY_HERE:
        return dataclasses.replace(p, mode='verify', canary=True)
    if p.mode == 'verify':
        return dataclasses.replace(p, mode='assume', split=0)
    return p


PARTS = [_flip(p) for p in u_xtok.PARTS]
DROPS = u_xtok.DROPS
