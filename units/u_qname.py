"""U-qname: xml5ever/src/tokenizer/qname.rs, the whole file (C16: a name is split into prefix and local part exactly when
it has the form NCName ':' NCName - one colon, neither first nor last)."""
from unitgen import Raw, Prelude, Item, Rewrite

NAME = 'u_qname'
PROPERTIES = ['C16']
CONTRACTS = 'u_qname.contracts'
RLIMIT = 20
F = 'xml5ever/src/tokenizer/qname.rs'

REWRITES = [
    # the lifetime-elided impl header / return type are written with the explicit lifetime of the struct
    Rewrite('R-vis', r'(?m)^(\s+)(state|slice|valid_index|curr_ind):', r'\1pub \2:', only=('QualNameTokenizer',)),
]


def q(name, **kw):
    return Item(F, 'fn', name, impl='QualNameTokenizer', wrap="impl<'a> QualNameTokenizer<'a>",
                rewrites=(Rewrite('R2-lifetime', r"QualNameTokenizer<'_>", "QualNameTokenizer<'a>"), Rewrite('R2-lifetime', r'tag: &\[u8\]', "tag: &'a [u8]")), **kw)


PARTS = [
    Raw('use vstd::prelude::*;\nuse vstd::slice::*;\nverus! {\n// ASSUMPTION: 64-bit target\nglobal size_of usize == 8;'),
    Item(F, 'enum', 'QualNameState', attrs='#[derive(PartialEq, Eq, Clone, Copy, Structural)]',
         rewrites=(Rewrite('R-vis', r'^enum QualNameState', 'pub enum QualNameState'),)),
    Item(F, 'struct', 'QualNameTokenizer'),
    Prelude('qname.prelude.rs'),
    q('new'), q('run'), q('incr'), q('step'), q('do_before_name'), q('do_in_name'), q('do_after_colon'),
    Raw('} // verus!\nfn main() {}'),
]
DROPS = ['doc comments']
