"""U-xser: xml5ever/src/serialize/mod.rs (C17: reversible escaping; every prefix used by an element or its attributes
is declared on output; closing an element leaves the enclosing declarations alone)."""
from unitgen import Raw, Prelude, Item, Rewrite, Atoms

NAME = 'u_xser'
PROPERTIES = ['C17']
CONTRACTS = 'u_xser.contracts'
RLIMIT = 30
F = 'xml5ever/src/serialize/mod.rs'
TB = 'xml5ever/src/tree_builder/mod.rs'

REWRITES = [
    Rewrite('R2-generics', r'impl<Wr: Write> Serializer for XmlSerializer<Wr>', 'impl XmlSerializer'),
    Rewrite('R2-generics', r'impl<Wr: Write> ', 'impl '),
    Rewrite('R2-generics', r'XmlSerializer<Wr>', 'XmlSerializer'),
    Rewrite('R2-generics', r'writer: Wr,', 'writer: Writer,'),
    Rewrite('R2-generics', r'\(writer: Wr\)', '(writer: Writer)'),
    Rewrite('R2-generics', r'<W: Write>\(writer: &mut W, ', '(writer: &mut Writer, '),
    Rewrite('R3-io', r'io::Result<\(\)>', 'IoResult'),
    # R5: the generic attribute iterator is a slice of (name, value) pairs (every slice iterator is such an iterator)
    Rewrite('R5-attriter', r"fn start_elem<'a, AttrIter>\(&mut self, name: QualName, attrs: AttrIter\) -> IoResult\s*where\s*AttrIter: Iterator<Item = AttrRef<'a>>,",
            "fn start_elem<'a>(&mut self, name: QualName, attrs: &Vec<AttrRef<'a>>) -> IoResult", min_count=1),
    Rewrite('R5-attriter', r"let attrs: Vec<AttrRef<'a>> = attrs\.collect\(\);", '', min_count=1),
    Rewrite('R5-attriter', r'for \(attr_name, _\) in attrs\.iter\(\) \{', 'for __b in __it4: attrs.iter() { let attr_name = __b.0;', min_count=1),
    Rewrite('R5-attriter', r'for \(name, value\) in attrs \{', 'for __a in __it3: attrs.iter() { let (name, value) = (__a.0, __a.1);', min_count=1),
    # R7: str::chars() through a model function
    Rewrite('R7-chars', r'for c in text\.chars\(\) \{', 'let __cs = str_chars(text); for __c in __it1: __cs.iter() { let c = *__c;', min_count=1),
    # R15: Display of a single char
    Rewrite('R15-fmt', r'writer\.write_fmt\(format_args!\("\{c\}"\)\)', 'writer.write_char(c)', min_count=1),
    # R31: `for X in V.iter().rev() { B }` written as a descending index loop
    Rewrite('R31-rev', r'for stack in self\.namespace_stack\.0\.iter\(\)\.rev\(\) \{',
            'let mut __i = self.namespace_stack.0.len(); while __i > 0 { __i -= 1; let stack = &self.namespace_stack.0[__i];', min_count=1),
    # R3: BTreeMap model
    Rewrite('R3-btree', r'BTreeMap<Option<Prefix>, Option<Namespace>>', 'NsScope'),
    Rewrite('R3-btree', r'BTreeMap::new\(\)', 'NsScope::new()'),
    Rewrite('R3-btree', r'for \(prefix, url_opt\) in current_namespace\.get_scope_iter\(\) \{',
            'for __e in __it2: current_namespace.scope.entries.iter() { let (prefix, url_opt) = (&__e.0, &__e.1);', min_count=1),
    Rewrite('R4-atoms', r'name\.prefix\.as_ref\(\)\.cloned\(\)', 'name.prefix'),
    Rewrite('R4-atoms', r'Namespace::from\(&\*name\.ns\)', 'Namespace::from_ns(&name.ns)'),
    Rewrite('R-vis', r'\bpub\(crate\)\s+', 'pub '),
    Rewrite('R-vis', r'struct NamespaceMapStack\(Vec<NamespaceMap>\);', 'pub struct NamespaceMapStack(pub Vec<NamespaceMap>);'),
]


def xs(name, **kw):
    return Item(F, 'fn', name, impl='XmlSerializer', wrap='impl XmlSerializer', **kw)


def nm(name, **kw):
    return Item(TB, 'fn', name, impl='NamespaceMap', wrap='impl NamespaceMap', **kw)


PARTS = [
    Atoms(),
    Raw('use vstd::prelude::*;\nuse vstd::string::*;\nuse vstd::slice::*;\nverus! {'),
    Prelude('xser.prelude.rs'),
    Prelude('nsscope.prelude.rs'),
    Item(TB, 'struct', 'NamespaceMap', rewrites=(Rewrite('R-vis', r'(?m)^(\s+)scope:', r'\1pub scope:'),)),
    nm('empty'), nm('get'), nm('insert'),
    Item(F, 'struct', 'NamespaceMapStack'),
    Item(F, 'fn', 'new', impl='NamespaceMapStack', wrap='impl NamespaceMapStack', qname='NamespaceMapStack::new'),
    Item(F, 'fn', 'push', impl='NamespaceMapStack', wrap='impl NamespaceMapStack'),
    Item(F, 'fn', 'pop', impl='NamespaceMapStack', wrap='impl NamespaceMapStack'),
    Item(F, 'struct', 'XmlSerializer', rewrites=(Rewrite('R-vis', r'(?m)^(\s+)(writer|namespace_stack):', r'\1pub \2:'),)),
    Item(F, 'fn', 'write_to_buf_escaped'),
    Item(F, 'fn', 'write_qual_name'),
    xs('new'), xs('qual_name'), xs('find_uri'), xs('find_or_insert_ns'),
    xs('start_elem'), xs('end_elem'), xs('write_comment'), xs('write_doctype'), xs('write_text'), xs('write_processing_instruction'),
    Raw('} // verus!\nfn main() {}'),
]
DROPS = ['NamespaceMap::get_scope_iter (returns BTreeMap::iter(); its call site iterates the entries of the map model in key order)', 'the Write type parameter (the writer is a model with a ghost byte log)', 'the Serializer trait (methods checked as inherent methods)',
         'doc comments, #[inline] and derives']
