"""U-small: html5ever/src/util/str.rs::lower_ascii_letter, markup5ever SmallCharSet (C13 leaf, C01 leaf)."""
from unitgen import Raw, Prelude, Item, Rewrite

NAME = 'u_small'
PROPERTIES = ['C13', 'C01']
CONTRACTS = 'u_small.contracts'
RLIMIT = 20

REWRITES = [
    # R7: `for b in E.bytes() {`  ==>  `for __b in __it: E.as_bytes().iter() { let b = *__b;`
    Rewrite('R7-bytes', r'for (\w+) in (\w+)\.bytes\(\) \{', r'for __b in __it: \2.as_bytes().iter() { let \1 = *__b;'),
    Rewrite('R-vis', r'\bpub\(crate\) fn\b', 'pub fn'),
]

PARTS = [
    Raw('use vstd::prelude::*;\nuse vstd::string::*;\nverus! {'),
    Prelude('small.prelude.rs'),
    Item('html5ever/src/util/str.rs', 'fn', 'lower_ascii_letter'),
    Item('markup5ever/util/smallcharset.rs', 'fn', 'contains', impl='SmallCharSet', wrap='impl SmallCharSet'),
    Item('markup5ever/util/smallcharset.rs', 'fn', 'nonmember_prefix_len', impl='SmallCharSet', wrap='impl SmallCharSet'),
    Raw('} // verus!\nfn main() {}'),
]

DROPS = ['doc comments and #[inline]/#[derive] attributes of the extracted items']
