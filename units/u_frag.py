"""U-frag: TreeBuilder::new and TreeBuilder::new_for_fragment (html5ever/src/tree_builder/mod.rs): the set-up of the parser state for
a document and for the HTML fragment parsing algorithm (steps 5-8, 10, 11), and the induction base of the tree builder's invariants
(C02 partial, C04).  Same generated file as U-inbody's base with these two functions added."""
import dataclasses
from unitgen import Raw, Item, Rewrite, Prelude
import u_inbody
import u_table
import u_stack

NAME = 'u_frag'
PROPERTIES = ['C02', 'C04']
CONTRACTS = 'u_frag.contracts'
SHARED_CONTRACTS = u_inbody.SHARED_CONTRACTS
RLIMIT = 60
H = u_stack.H
REWRITES = [rw for rw in u_table.REWRITES if not (rw.only and all(o.startswith('TreeBuilder::step__') for o in rw.only))] + [
    Rewrite('R2-generics', r'-> TreeBuilder<Handle, Sink>', '-> TreeBuilder', only=('TreeBuilder::new', 'TreeBuilder::new_for_fragment'), min_count=2),
    Rewrite('R2-generics', r'sink: Sink,', 'sink: Sink,', only=('TreeBuilder::new', 'TreeBuilder::new_for_fragment')),
    # R23: `Default::default()` of a Cell / RefCell field written out with the field's default value
    Rewrite('R23-default', r'(template_modes|pending_table_text|open_elems|active_formatting): Default::default\(\)', r'\1: RefCell::new(Vec::new())', only=('TreeBuilder::new', 'TreeBuilder::new_for_fragment'), min_count=7),
    Rewrite('R23-default', r'(head_elem|form_elem|context_elem): Default::default\(\)', r'\1: RefCell::new(None)', only=('TreeBuilder::new', 'TreeBuilder::new_for_fragment'), min_count=4),
    Rewrite('R23-default', r'(ignore_lf|foster_parenting): Default::default\(\)', r'\1: Cell::new(false)', only=('TreeBuilder::new', 'TreeBuilder::new_for_fragment'), min_count=4),
    Rewrite('R32-vecmacro', r'RefCell::new\(vec!\[InsertionMode::InTemplate\]\)', 'RefCell::new(vec_one(InsertionMode::InTemplate))', only=('TreeBuilder::new_for_fragment',), min_count=1),
    Rewrite('R32-vecmacro', r'tb\.create_root\(vec!\[\]\);', 'tb.create_root(Vec::new());', only=('TreeBuilder::new_for_fragment',)),
    Rewrite('S-mut', r'let tb = TreeBuilder \{', 'let mut tb = TreeBuilder {', only=('TreeBuilder::new_for_fragment',), min_count=1),
]


def tb(name, **kw):
    return Item(H, 'fn', name, impl='TreeBuilder', wrap='impl TreeBuilder', **kw)


PARTS = list(u_inbody.BASE) + [
    Prelude('frag.spec.rs'),
    tb('new'), tb('new_for_fragment'),
    Raw('} // verus!\nfn main() {}'),
]
DROPS = u_inbody.DROPS
