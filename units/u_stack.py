"""U-stack: the stack-of-open-elements algorithms of the HTML tree builder (html5ever/src/tree_builder/mod.rs) against their
WHATWG definitions: "has an element in scope", "generate implied end tags", "pop until", closing a p element, "reset the
insertion mode appropriately", "reconstruct the active formatting elements".  Serves C02 (partially) and the no-panic part of
C04 for these functions (the preconditions under which pop / current_node / the template-mode lookup cannot panic)."""
from unitgen import Raw, Prelude, Item, Rewrite, Atoms, Generated, ExtractError
from u_fmt import check_iterator

NAME = 'u_stack'
PROPERTIES = ['C02', 'C04']
CONTRACTS = 'u_stack.contracts'
SHARED_CONTRACTS = ['u_aaa.contracts']
RLIMIT = 30
H = 'html5ever/src/tree_builder/mod.rs'
TY = 'html5ever/src/tree_builder/types.rs'
IF = 'html5ever/src/tokenizer/interface.rs'

MUTATING = ('insert_element', 'push', 'pop', 'remove_from_stack', 'generate_implied_end_tags', 'generate_implied_end_except', 'pop_until_current',
            'pop_until', 'pop_until_named', 'expect_to_close', 'close_p_element', 'close_p_element_in_button_scope',
            'reconstruct_active_formatting_elements', 'process_end_tag_in_body', 'adoption_agency', 'insert_at', 'insert_appropriately')
READING = ('html_elem_named', 'elem_in', 'current_node', 'current_node_in', 'current_node_named', 'in_scope', 'in_scope_named',
           'in_html_elem_named', 'reset_insertion_mode', 'is_marker_or_open', 'html_elem', 'body_elem',
           'appropriate_place_for_insertion', 'position_in_active_formatting')

REWRITES = [
    # R26 (as in U-tagsets): the tag-set predicates of tag_sets.rs are read as spec functions, the repository's macro and
    # match text unchanged (module `ts`); `ts_X` in the contracts is `ts::X`, opaque except in the lemmas about set contents
    Rewrite('R26-specfn', r'pub\(crate\) fn \$name\(p: crate::ExpandedName\) -> bool \{', 'verus! { pub open spec fn $name(p: ExpandedName) -> bool {'),
    Rewrite('R26-specfn', r'(?<!pub\(crate\) )fn \$name\(p: crate::ExpandedName\) -> bool \{', 'verus! { pub open spec fn $name(p: ExpandedName) -> bool {'),
    Rewrite('R26-specfn', r'declare_tag_set_body!\(p = \$\(\$toks\)\+\)\s*\}', 'declare_tag_set_body!(p = $($toks)+) } }'),
    Rewrite('R2-generics', r'pub struct TreeBuilder<Handle, Sink>', 'pub struct TreeBuilder'),
    Rewrite('R2-generics', r'pub\(crate\) enum FormatEntry<Handle>', 'pub enum FormatEntry'),
    Rewrite('R2-generics', r'FormatEntry<Handle>', 'FormatEntry'),
    Rewrite('R2-generics', r'pub\(crate\) enum InsertionPoint<Handle>', 'pub enum InsertionPoint'),
    Rewrite('R2-generics', r'InsertionPoint<Handle>', 'InsertionPoint'),
    Rewrite('R2-generics', r'enum Bookmark<Handle>', 'pub enum Bookmark'),
    Rewrite('R2-generics', r'NodeOrText<Handle>', 'NodeOrText'),
    Rewrite('R2-generics', r'pub\(crate\) enum ProcessResult<Handle>', 'pub enum ProcessResult'),
    Rewrite('R2-generics', r'ProcessResult<Handle>', 'ProcessResult'),
    Rewrite('R-vis', r'(?m)^(\s+)(\w+): ', r'\1pub \2: ', only=('TreeBuilder',)),
    Rewrite('R-vis', r'\bpub\(crate\)\s+', 'pub '),
    # R1: interior mutability made explicit - only the functions that write through a RefCell take `&mut self`
    Rewrite('R1-receiver', r'(fn \w+(?:<[^>]*>)?\(\s*)&self\b', r'\1&mut self', only=tuple('TreeBuilder::' + n for n in MUTATING)),
    # R11: expanded names and atoms are held by value
    Rewrite('R11-byvalue', r'\*p\.ns\b', 'p.ns'),
    Rewrite('R11-byvalue', r'\*p\.local\b', 'p.local'),
    Rewrite('R11-byvalue', r'ns: &ns!\(html\)', 'ns: ns!(html)'),
    Rewrite('R11-byvalue', r'match \*name \{', 'match name {'),
    # R15: error-message wording dropped
    Rewrite('R15-msg', r'\bCow::from\(', 'Cow::msg()', balanced=True),
    Rewrite('R15-msg', r'\bBorrowed\(', 'Cow::msg()', balanced=True),
    Rewrite('R15-msg', r'\.expect\("[^"]*"\)', '.unwrap()'),
    Rewrite('R15-msg', r'\bpanic!\(', 'panic!("unreachable")', balanced=True),
    # R36: a `for` over `.iter().rev()` / `.iter().enumerate().rev()` of a Vec is spelled out as a descending index loop
    Rewrite('R36-revloop', r'for node in self\.open_elems\.borrow\(\)\.iter\(\)\.rev\(\) \{',
            'let __oe = self.open_elems.borrow(); let mut __i = __oe.len(); while __i > 0 { __i -= 1; let node = &__oe[__i];', min_count=1),
    Rewrite('R36-revloop', r'for \(i, mut node\) in open_elems\.iter\(\)\.enumerate\(\)\.rev\(\) \{',
            'let mut __i = open_elems.len(); while __i > 0 { __i -= 1; let i = __i; let mut node = &open_elems[__i];', min_count=1),
    Rewrite('R36-revloop', r'for \(i, elem\) in self\.open_elems\.borrow\(\)\.iter\(\)\.enumerate\(\)\.rev\(\) \{',
            'let __oe = self.open_elems.borrow(); let mut __i = __oe.len(); while __i > 0 { __i -= 1; let i = __i; let elem = &__oe[__i];', min_count=1),
    # ... and the peekable reverse iterator of appropriate_place_for_insertion: next() is the entry at the descending index,
    #     peek() the entry below it
    Rewrite('R36-peekloop', r'let mut iter = open_elems\.iter\(\)\.rev\(\)\.peekable\(\);\s*while let Some\(elem\) = iter\.next\(\) \{',
            'let mut __i = open_elems.len(); while __i > 0 { __i -= 1; let elem = &open_elems[__i];', min_count=1),
    Rewrite('R36-peekloop', r'\(\*iter\.peek\(\)\.unwrap\(\)\)\.clone\(\)', 'open_elems[__i - 1].clone()', min_count=1),
    # ... the adoption agency algorithm's look-ups
    Rewrite('R36-fmtentry', r'self\s*\.active_formatting_end_to_marker\(\)\s*\.iter\(\)\s*\.find\(\|&\(_, _, tag\)\| tag\.name == subject\)\s*\.map\(\|\(i, h, t\)\| \(i, h\.clone\(\), t\.clone\(\)\)\)',
            'fmt_entry_named(&self.active_formatting.borrow(), &subject)', min_count=1),
    Rewrite('R37-findfrom', r'self\s*\.open_elems\s*\.borrow\(\)\s*\.iter\(\)\s*\.enumerate\(\)\s*\.skip\(fmt_elem_stack_index\)\s*\.find\(\|&\(_, open_element\)\| self\.elem_in\(open_element, special_tag\)\)\s*\.map\(\|\(i, h\)\| \(i, h\.clone\(\)\)\)',
            'vec_find_from(&self.open_elems.borrow(), fmt_elem_stack_index, |open_element| self.elem_in(open_element, special_tag))', min_count=1),
    Rewrite('R37-position', r'self\s*\.open_elems\s*\.borrow\(\)\s*\.iter\(\)\s*\.position\(', 'vec_position(&self.open_elems.borrow(), ', min_count=1),
    Rewrite('R37-position', r'self\.active_formatting\s*\.borrow\(\)\s*\.iter\(\)\s*\.position\(', 'vec_position(&self.active_formatting.borrow(), ', min_count=1),
    # R13: Option::map with a closure that mutates `self` is written as a match (one site)
    Rewrite('R13-mapmut', r'self\.position_in_active_formatting\(&node\)\s*\.map\(\|position\| self\.active_formatting\.borrow_mut\(\)\.remove\(position\)\);',
            'match self.position_in_active_formatting(&node) { Some(position) => { self.active_formatting.borrow_mut().remove(position); }, None => {} }', min_count=1),
    Rewrite('S-iterlabel', r'for _ in 0\.\.(\d+) \{', r'for _i in 0..\1 {', min_count=1),
    Rewrite('R32-vecmacro', r'\bvec!\[\]', 'Vec::new()'),
    Rewrite('R1-receiver', r'create_element_with_flags\(\s*&self\.sink,', 'create_element_with_flags(&mut self.sink,', min_count=2),
    # R13: Option::unwrap_or_else with a closure written out
    Rewrite('R13-unwrap_or_else', r'override_target\.unwrap_or_else\(\|\| self\.current_node\(\)\.clone\(\)\)',
            'match override_target { Some(__t) => __t, None => self.current_node().clone() }', min_count=1),
    # R37: iterator adaptor chains with a closure go through model functions with ASSUMED contracts (stack.prelude.rs)
    Rewrite('R37-any', r'self\s*\.open_elems\s*\.borrow\(\)\s*\.iter\(\)\s*(?:\.rev\(\)\s*)?\.any\(', 'vec_any(&self.open_elems.borrow(), ', min_count=2),
    Rewrite('R37-rposition', r'self\s*\.open_elems\s*\.borrow\(\)\s*\.iter\(\)\s*\.rposition\(', 'vec_rposition(&self.open_elems.borrow(), ', min_count=1),
    # R38: Ref::map(cell.borrow(), |x| e) is e on the borrowed value (RefCell borrow scopes are not modelled)
    Rewrite('R38-refmap', r"Ref<'_, Handle>", '&Handle'),
    Rewrite('R38-refmap', r'Ref::map\(self\.open_elems\.borrow\(\), \|elems\| \{\s*elems\.last\(\)\.unwrap\(\)\s*\}\)', '{ let elems = self.open_elems.borrow(); elems.last().unwrap() }', min_count=1),
    Rewrite('R38-refmap', r'Ref::map\(self\.open_elems\.borrow\(\), \|elems\| &elems\[(\d)\]\)', r'{ let elems = self.open_elems.borrow(); &elems[\1] }', min_count=2),
    # R40: an arm with an or-pattern and a guard is split into one guarded arm per alternative (the patterns bind nothing,
    #      the guard is pure): Verus does not accept both on one arm
    Rewrite('R40-orguard', r'local_name!\("td"\) \| local_name!\("th"\) if !last => (\{\s*return InsertionMode::InCell;\s*\}),',
            r'local_name!("td") if !last => { return InsertionMode::InCell; }, local_name!("th") if !last => \1,'),
    Rewrite('R6-clone', r'\b(\w+)\.attrs\.clone\(\)', r'attrs_clone(&\1.attrs)'),
    # R16: std::mem::take on an attribute vector through a glue function (the value moves out, an empty vector stays)
    Rewrite('R16-take', r'(?:std::)?mem::take\(&mut (\w+)\.attrs\)', r'attrs_take(&mut \1.attrs)'),
    # the local tag set `implied` = cursory_implied_end minus "p" is a model function (stack.spec.rs); declare_tag_set!
    # expansions are checked by U-tagsets
    Rewrite('R39-localset', r'declare_tag_set!\(implied = [^;]*\);', '', min_count=1),
    Rewrite('R39-localset', r'declare_tag_set!\(foster_target = [^;]*\);', '', min_count=1),
    Rewrite('R39-localset', r'use self::tag_sets::\*;', ''),
]


def local_set_check(file, fn_regex, set_name, mod_name, expect, uses=(), reveals=(), nth_after=3000):
    """rule R39 (checked form): a function-local `declare_tag_set!(NAME = ..)` is deleted from the exec body and stands
    behind a model function with a hand-written contract.  This generator copies the macro call's own text into a module
    `MOD` (read as a spec function through the repository's macro, rule R26) and emits a lemma - proved, not assumed -
    that the hand-written contract expression `expect` equals it for every name: a change of the local list in /repo makes
    the lemma fail.  Returns (module part, lemma part)."""
    import re as _re

    def find(ub):
        src = ub.src(file)
        m = _re.search(fn_regex, src.text)
        if not m:
            raise ExtractError('local tag set: anchor %s not found' % fn_regex)
        mm = _re.search(r'declare_tag_set!\(%s =[^;]*\);' % set_name, src.text[m.end():m.end() + nth_after])
        if not mm:
            raise ExtractError('local tag set %s not found after %s' % (set_name, fn_regex))
        return mm.group(0)

    def gen_mod(ub):
        call = find(ub)
        ub.count('R39-localset-checked', 1)
        return ('// GENERATED (rule R39, checked form): the local tag set `%s`, the macro call copied verbatim from %s\n'
                'pub mod %s {\nuse super::{ExpandedName, LocalName, Namespace};\nuse vstd::prelude::*;\nuse super::ts::*;\n%s%s\n}' % (set_name, file, mod_name, ''.join('use super::%s::*;\n' % u for u in uses), call))

    def gen_lemma(ub):
        return ('/// GENERATED (rule R39, checked form): the contract of the model function `%s` is what the repository\'s macro call says\n'
                'pub proof fn lemma_%s()\n    ensures forall|p: ExpandedName| #[trigger] %s::%s(p) == (%s),\n{\n%s}'
                % (set_name, mod_name, mod_name, set_name, expect, ''.join('    reveal(%s);\n' % r for r in reveals)))
    return Generated(gen_mod, label='R39'), Generated(gen_lemma, label='R39')


def with_local_sets(parts, checks):
    """module parts go right after `mod ts` (outside verus!), lemma parts before the closing Raw"""
    k = [i for i, q in enumerate(parts) if isinstance(q, Raw) and q.text.startswith('} // mod ts')][0]
    mods = [c[0] for c in checks]
    lemmas = [c[1] for c in checks]
    body = parts[:k + 1] + mods + parts[k + 1:]
    if isinstance(body[-1], Raw) and body[-1].text.startswith('} // verus!'):
        return body[:-1] + lemmas + body[-1:]
    return body + lemmas



NO_ISOLATION = ('in_scope', 'generate_implied_end_tags', 'pop_until_current', 'appropriate_place_for_insertion')


def tb(name, **kw):
    # facts about the function arguments established at entry are used inside the loops (no loop isolation)
    attrs = '#[verifier::loop_isolation(false)]' if name in NO_ISOLATION else None
    return Item(H, 'fn', name, impl='TreeBuilder', wrap='impl TreeBuilder', attrs=attrs, **kw)


DERIVE = '#[derive(PartialEq, Eq, Copy, Clone, Structural)]'
TS = 'html5ever/src/tree_builder/tag_sets.rs'
RW_TS = (Rewrite('R26-specfn', r'pub\(crate\) fn (empty_set|default_scope|mathml_text_integration_point|svg_html_integration_point)\(', r'pub open spec fn \1('),
         Rewrite('R26-specfn', r'empty_set\(_: ExpandedName\)', 'empty_set(p: ExpandedName)'))
TS_SETS = ['html_default_scope', 'list_item_scope', 'button_scope', 'table_scope', 'table_body_context', 'table_row_context',
           'td_th', 'cursory_implied_end', 'thorough_implied_end', 'heading_tag', 'special_tag']
PARTS = [
    Atoms(),
    Raw('macro_rules! expanded_name { ($ns:ident $local:tt) => { ExpandedName { ns: ns!($ns), local: local_name!($local) } }; }'),
    Item(TS, 'macro', 'declare_tag_set_impl'),
    Item(TS, 'macro', 'declare_tag_set_body'),
    Item(TS, 'macro', 'declare_tag_set'),
    Raw('pub mod ts {\nuse super::*;\nuse vstd::prelude::*;\nverus! {'),
    Item(TS, 'fn', 'empty_set', mode='plain', rewrites=RW_TS, unit_rewrites=False),
    Item(TS, 'fn', 'default_scope', mode='plain', rewrites=RW_TS, unit_rewrites=False),
    Item(TS, 'fn', 'mathml_text_integration_point', mode='plain', rewrites=RW_TS, unit_rewrites=False),
    Item(TS, 'fn', 'svg_html_integration_point', mode='plain', rewrites=RW_TS, unit_rewrites=False),
    Raw('} // verus!'),
] + [Item(TS, 'macrocall', 'declare_tag_set:' + s_, qname='declare_tag_set!(' + s_ + ')') for s_ in TS_SETS] + [
    Raw('} // mod ts'),
    Raw('use vstd::prelude::*;\nverus! {'),
    Prelude('cells.prelude.rs'),
    Prelude('stack.prelude.rs'),
    Item(IF, 'enum', 'TagKind', attrs=DERIVE),
    Raw('pub use TagKind::{EndTag, StartTag};'),
    Item(IF, 'struct', 'Tag'),
    Item(TY, 'enum', 'InsertionMode', attrs=DERIVE),
    Item(TY, 'enum', 'SplitStatus', attrs=DERIVE),
    Item(TY, 'enum', 'FormatEntry'),
    Item(TY, 'enum', 'InsertionPoint'),
    Item(TY, 'enum', 'Token'),
    Item(TY, 'enum', 'ProcessResult'),
    Item(H, 'enum', 'Bookmark'),
    Item(H, 'struct', 'TreeBuilder'),
    Prelude('stack.spec.rs'),
    Prelude('aaa.spec.rs'),
    Generated(check_iterator, label='R36'),
] + [tb(n) for n in ('html_elem_named', 'elem_in', 'current_node', 'current_node_in', 'current_node_named', 'in_scope',
                     'in_scope_named', 'in_html_elem_named', 'push', 'pop', 'generate_implied_end_tags',
                     'generate_implied_end_except', 'pop_until', 'pop_until_named', 'pop_until_current', 'expect_to_close',
                     'close_p_element', 'close_p_element_in_button_scope', 'reset_insertion_mode', 'is_marker_or_open',
                     'remove_from_stack', 'reconstruct_active_formatting_elements', 'html_elem', 'body_elem',
                     'process_end_tag_in_body', 'appropriate_place_for_insertion', 'position_in_active_formatting', 'insert_at',
                     'insert_appropriately')] + [
    # proved in unit u_aaa (same generated file, modes exchanged)
    tb('adoption_agency', mode='assume'),
    # proved in unit u_fcontent
    tb('insert_element', mode='assume'),
    Raw('} // verus!\nfn main() {}'),
]
LOCAL_SETS = [
    local_set_check(H, r'fn close_p_element\(', 'implied', 'tsl_implied',
                    'p != (ExpandedName { ns: ns!(html), local: local_name!("p") }) && ts_cursory_implied_end(p)', reveals=('ts_cursory_implied_end',)),
    local_set_check(H, r'fn appropriate_place_for_insertion\(', 'foster_target', 'tsl_foster_target',
                    'p.ns == ns!(html) && (p.local == local_name!("table") || p.local == local_name!("tbody") || p.local == local_name!("tfoot")'
                    ' || p.local == local_name!("thead") || p.local == local_name!("tr"))'),
]
PARTS = with_local_sets(PARTS, LOCAL_SETS)

DROPS = ['Handle / Sink type parameters (model types: element names are an uninterpreted function of the handle, same_node is handle identity)',
         'error-message wording (rule R15)', 'doc comments']
