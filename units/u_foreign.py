"""U-foreign: the foreign-content tables of html5ever/src/tree_builder/mod.rs against the standard's tables
(adjust SVG tag names / SVG attributes / MathML attributes / foreign attributes) and the fragment-case tokenizer
state (C02, leaf functions)."""
import re
from unitgen import Raw, Prelude, Item, Rewrite, Atoms, Generated
from rsx import ExtractError, match_delim

NAME = 'u_foreign'
PROPERTIES = ['C02']
CONTRACTS = 'u_foreign.contracts'
RLIMIT = 30
F = 'html5ever/src/tree_builder/mod.rs'

# ---- the standard's tables (§13.2.6.5 "adjust SVG attributes", "adjust MathML attributes", "adjust foreign attributes",
# and the SVG element-name table of "any other start tag" in foreign content).  Only the properly-cased names are
# written here; the lookup key is computed as the ASCII-lowercase of the name.
SVG_TAGS = '''altGlyph altGlyphDef altGlyphItem animateColor animateMotion animateTransform clipPath feBlend feColorMatrix
feComponentTransfer feComposite feConvolveMatrix feDiffuseLighting feDisplacementMap feDistantLight feDropShadow feFlood feFuncA
feFuncB feFuncG feFuncR feGaussianBlur feImage feMerge feMergeNode feMorphology feOffset fePointLight feSpecularLighting
feSpotLight feTile feTurbulence foreignObject glyphRef linearGradient radialGradient textPath'''.split()
SVG_ATTRS = '''attributeName attributeType baseFrequency baseProfile calcMode clipPathUnits diffuseConstant edgeMode filterUnits
glyphRef gradientTransform gradientUnits kernelMatrix kernelUnitLength keyPoints keySplines keyTimes lengthAdjust
limitingConeAngle markerHeight markerUnits markerWidth maskContentUnits maskUnits numOctaves pathLength patternContentUnits
patternTransform patternUnits pointsAtX pointsAtY pointsAtZ preserveAlpha preserveAspectRatio primitiveUnits refX refY
repeatCount repeatDur requiredExtensions requiredFeatures specularConstant specularExponent spreadMethod startOffset
stdDeviation stitchTiles surfaceScale systemLanguage tableValues targetX targetY textLength viewBox viewTarget
xChannelSelector yChannelSelector zoomAndPan'''.split()
MATHML_ATTRS = ['definitionURL']
# (attribute name as tokenized, prefix, namespace, local name)
FOREIGN_ATTRS = [('xlink:actuate', 'xlink', 'xlink', 'actuate'), ('xlink:arcrole', 'xlink', 'xlink', 'arcrole'), ('xlink:href', 'xlink', 'xlink', 'href'),
                 ('xlink:role', 'xlink', 'xlink', 'role'), ('xlink:show', 'xlink', 'xlink', 'show'), ('xlink:title', 'xlink', 'xlink', 'title'),
                 ('xlink:type', 'xlink', 'xlink', 'type'), ('xml:lang', 'xml', 'xml', 'lang'), ('xml:space', 'xml', 'xml', 'space'),
                 ('xmlns', '', 'xmlns', 'xmlns'), ('xmlns:xlink', 'xmlns', 'xmlns', 'xlink')]

REWRITES = [
    Rewrite('R11-byvalue', r'ns: &ns!\(html\)', 'ns: ns!(html)'),
    Rewrite('R11-byvalue', r'match \*name \{', 'match name {'),
]


def table_fns(ub):
    """R26: the four lookup tables are checked as spec functions whose bodies are the repository's own `match` text."""
    s = ub.src(F)
    out = []
    # 1. adjust_svg_tag_name: `match *name { P => *name = E, ... _ => (), }`
    a, lb, b = s.find_fn('adjust_svg_tag_name', 'TreeBuilder')
    txt = s.text[a:b]
    m = re.search(r'match \*name \{', txt)
    if not m:
        raise ExtractError('adjust_svg_tag_name: `match *name {` not found')
    i = m.end() - 1
    j = match_delim(txt, i)
    body = txt[i + 1:j]
    body2, n1 = re.subn(r'=>\s*\*name\s*=\s*', '=> ', body)
    body2, n2 = re.subn(r'_\s*=>\s*\(\)', '_ => name', body2)
    if n2 != 1:
        raise ExtractError('adjust_svg_tag_name: unexpected default arm')
    out.append('/// from adjust_svg_tag_name (%d arms): `P => *name = E` read as `P => E`, `_ => ()` as `_ => name`\n'
               'pub open spec fn svg_tag_name_map(name: LocalName) -> LocalName { match name {%s} }' % (n1, body2))
    ub.count('R26-specfn', 1)
    # 2-4. closures `|k| match k { ... }` passed to adjust_attributes
    for fn, spec in (('adjust_svg_attributes', 'svg_attr_map'), ('adjust_mathml_attributes', 'mathml_attr_map'),
                     ('adjust_foreign_attributes', 'foreign_attr_map')):
        a, lb, b = s.find_fn(fn, 'TreeBuilder')
        txt = s.text[a:b]
        m = re.search(r'self\.adjust_attributes\(tag, \|k\| match k \{', txt)
        if not m:
            raise ExtractError(fn + ': closure `|k| match k {` not found')
        i = m.end() - 1
        j = match_delim(txt, i)
        out.append('/// from %s: the closure passed to adjust_attributes\n'
                   'pub open spec fn %s(k: LocalName) -> Option<QualName> { match k {%s} }' % (fn, spec, txt[i + 1:j]))
        ub.count('R26-specfn', 1)
    return '\n'.join(out)


def known_keys(table):
    import os
    path = os.path.join(os.path.dirname(os.path.dirname(os.path.abspath(__file__))), 'known_findings.txt')
    keys = []
    if os.path.exists(path):
        for line in open(path):
            m = re.match(r'known:\s+property=C02\s+obligation=u_foreign/%s\s+names=(\S+)\s+::' % table, line.strip())
            if m:
                keys += m.group(1).split(',')
    return keys


def oracle(ub):
    def chain(pairs, default):
        t = ''
        for k, v in pairs:
            t += 'if k == local_name!("%s") { %s } else ' % (k, v)
        return t + '{ %s }' % default
    o = ['// GENERATED from the tables of the standard listed in units/u_foreign.py (key = ASCII lowercase of the name)']
    o.append('pub open spec fn w_svg_tag(k: LocalName) -> LocalName { %s }' % chain([(n.lower(), 'local_name!("%s")' % n) for n in SVG_TAGS], 'k'))
    o.append('pub open spec fn w_svg_attr(k: LocalName) -> Option<QualName> { %s }' % chain(
        [(n.lower(), 'Some(QualName { prefix: None, ns: ns!(), local: local_name!("%s") })' % n) for n in SVG_ATTRS], 'None'))
    o.append('pub open spec fn w_mathml_attr(k: LocalName) -> Option<QualName> { %s }' % chain(
        [(n.lower(), 'Some(QualName { prefix: None, ns: ns!(), local: local_name!("%s") })' % n) for n in MATHML_ATTRS], 'None'))
    o.append('pub open spec fn w_foreign_attr(k: LocalName) -> Option<QualName> { %s }' % chain(
        [(n, 'Some(QualName { prefix: %s, ns: ns!(%s), local: local_name!("%s") })' % (
            ('Some(namespace_prefix!("%s"))' % p) if p else 'None', ns, l)) for n, p, ns, l in FOREIGN_ATTRS], 'None'))
    o.append('pub proof fn check_svg_tag_names() ensures forall|k: LocalName| svg_tag_name_map(k) == w_svg_tag(k) {}')
    o.append('pub proof fn check_svg_attributes() ensures forall|k: LocalName| svg_attr_map(k) == w_svg_attr(k) {}')
    o.append('pub proof fn check_mathml_attributes() ensures forall|k: LocalName| mathml_attr_map(k) == w_mathml_attr(k) {}')
    kd = ' || '.join('k == local_name!("%s")' % k for k in known_keys('foreign_attr')) or 'false'
    o.append('// GENERATED from known_findings.txt\npub open spec fn known_dev_foreign_attr(k: LocalName) -> bool { %s }' % kd)
    o.append('pub proof fn check_foreign_attributes() ensures forall|k: LocalName| !known_dev_foreign_attr(k) ==> foreign_attr_map(k) == w_foreign_attr(k) {}')
    return '\n'.join(o)


PARTS = [
    Atoms(),
    Item(F, 'macro', 'qualname'),
    Raw('use vstd::prelude::*;\nverus! {'),
    Prelude('foreign.prelude.rs'),
    Generated(table_fns, 'tables from ' + F),
    Generated(oracle, 'oracle'),
    Raw('} // verus!\nfn main() {}'),
]
DROPS = ['adjust_attributes (the loop applying a table to every attribute) and the `*name = ..` assignment of adjust_svg_tag_name: the tables are read as functions (rule R26)']
