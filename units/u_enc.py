"""U-enc: html5ever/src/encoding.rs (C19: the label extracted from a meta element's content attribute is the one the
WHATWG algorithm prescribes)."""
from unitgen import Raw, Prelude, Item, Rewrite

NAME = 'u_enc'
PROPERTIES = ['C19']
CONTRACTS = 'u_enc.contracts'
RLIMIT = 150
F = 'html5ever/src/encoding.rs'

REWRITES = [
    Rewrite('R-vis', r'\bpub\(crate\)\s+', 'pub '),
    # R33: length of a string literal folded (the generator checks the literal)
    Rewrite('R33-litlen', r'"charset"\.len\(\)', '7usize', min_count=2),
    # R8 / R13: slice::get, range indexing and iterator adapters through model functions with ASSUMED std contracts
    Rewrite('R8-slice', r'input\.as_bytes\(\)\.get\(position\.\.position \+ 7usize\)', 'slice_get_range(input.as_bytes(), position, position + 7usize)', min_count=1),
    Rewrite('R8-slice', r'input\.as_bytes\(\)\.get\(position\)', 'slice_get(input.as_bytes(), position)', min_count=2),
    Rewrite('R13-adapter', r'input\.as_bytes\(\)\[position\.\.\]\s*\.iter\(\)\s*\.take_while\(\|byte\| byte\.is_ascii_whitespace\(\)\)\s*\.count\(\)',
            'count_while_ws(slice_from(input.as_bytes(), position))', min_count=2),
    Rewrite('R13-adapter', r'input\.as_bytes\(\)\[position \+ 1\.\.\]\s*\.iter\(\)\s*\.position\(\|byte\| byte == quote\)',
            'position_eq(slice_from(input.as_bytes(), position + 1), quote)', min_count=1),
    Rewrite('R13-adapter', r"input\.as_bytes\(\)\[position\.\.\]\s*\.iter\(\)\s*\.position\(\|byte\| byte\.is_ascii_whitespace\(\) \|\| \*byte == b';'\)",
            'position_ws_or_semi(slice_from(input.as_bytes(), position))', min_count=1),
    # R12: the operand of `?` is bound to a local first
    Rewrite('R12-scrutinee', r'let length = position_eq\(slice_from\(input\.as_bytes\(\), position \+ 1\), quote\)\s*\?;',
            'let __p = position_eq(slice_from(input.as_bytes(), position + 1), quote); let length = __p?;', min_count=1),
    Rewrite('R6-bytescmp', r'candidate\.eq_ignore_ascii_case\(b"charset"\)', 'eq_ignore_ascii_case(candidate, b"charset")', min_count=1),
    Rewrite('S-init', r'let mut position = 0;', 'let mut position: usize = 0;', min_count=1),
]

PARTS = [
    Raw('use vstd::prelude::*;\nuse vstd::slice::*;\nverus! {\n// ASSUMPTION: 64-bit target\nglobal size_of usize == 8;'),
    Prelude('enc.prelude.rs'),
    Item(F, 'fn', 'extract_a_character_encoding_from_a_meta_element'),
    Raw('} // verus!\nfn main() {}'),
]
DROPS = ['doc comments']
