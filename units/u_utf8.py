"""U-utf8: tendril's incremental lossy UTF-8 decoder (tendril/src/utf8_decode.rs, Utf8LossyDecoder in stream.rs)
against a byte-level maximal-subpart specification (C10)."""
from unitgen import Raw, Prelude, Item, Rewrite

NAME = 'u_utf8'
PROPERTIES = ['C10']
CONTRACTS = 'u_utf8.contracts'
RLIMIT = 30
D = 'tendril/src/utf8_decode.rs'
S = 'tendril/src/stream.rs'

def iu(name, **kw):
    return Item(D, 'fn', name, impl='IncompleteUtf8', wrap='impl IncompleteUtf8', **kw)


REWRITES = [
    Rewrite('R10-derives', r'#\[derive\(Debug, Copy, Clone\)\]', '#[derive(Clone, Copy)]'),
    Rewrite('R-vis', r'\bpub\(crate\)\s+', 'pub '),
    Rewrite('R-vis', r'^enum Utf8CompletionResult', 'pub enum Utf8CompletionResult'),
    Rewrite('R2-lifetime', r'REPLACEMENT_CHARACTER: &str', "REPLACEMENT_CHARACTER: &'static str"),
    # R8/R13: std functions through model functions with ASSUMED contracts
    Rewrite('R13-std', r'\bstr::from_utf8\(', 'from_utf8(', min_count=2),
    Rewrite('R13-std', r'\bstr::from_utf8_unchecked\(', 'from_utf8_unchecked(', min_count=4),
    Rewrite('R13-std', r'\bcmp::min\(', 'min_usize(', min_count=5),
    Rewrite('R8-slice', r'&after_valid\[\.\.invalid_sequence_length\]', 'slice_subrange(after_valid, 0, invalid_sequence_length)', min_count=1),
    Rewrite('R8-slice', r'buffer\[\.\.len\]\.copy_from_slice\(bytes\);', 'array_copy_in(&mut buffer, 0, bytes);', min_count=2),
    Rewrite('R8-slice', r'&self\.buffer\[\.\.len\]', 'slice_subrange(self.buffer.as_slice(), 0, len)', min_count=3),
    # a mutable tail slice that is only measured and filled: its start and length are named instead
    Rewrite('R8-slicemut', r'let unwritten = &mut self\.buffer\[initial_buffer_len\.\.\];', 'let __uw_start = initial_buffer_len; let __uw_len = array_len(&self.buffer) - initial_buffer_len;', min_count=1),
    Rewrite('R8-slicemut', r'unwritten\.len\(\)', '__uw_len', min_count=2),
    Rewrite('R8-slicemut', r'unwritten\[\.\.copied_from_input\]\.copy_from_slice\(&input\[\.\.copied_from_input\]\);',
            'array_copy_in(&mut self.buffer, __uw_start, slice_subrange(input, 0, copied_from_input));', min_count=3),
    Rewrite('R8-slice', r'&self\.buffer\[\.\.initial_buffer_len \+ copied_from_input\]', 'slice_subrange(self.buffer.as_slice(), 0, initial_buffer_len + copied_from_input)', min_count=4),
    Rewrite('R8-slice', r'&input\[consumed\.\.\]', 'slice_subrange(input, consumed, input.len())', min_count=5),
    # ---------------- stream.rs: Utf8LossyDecoder ----------------
    Rewrite('R2-generics', r'pub struct Utf8LossyDecoder<Sink, A = NonAtomic>\s*where\s*Sink: TendrilSink<fmt::UTF8, A>,\s*A: Atomicity,\s*\{', 'pub struct Utf8LossyDecoder {', only=('Utf8LossyDecoder',)),
    Rewrite('R2-generics', r'pub inner_sink: Sink,', 'pub inner_sink: U8Sink,', only=('Utf8LossyDecoder',)),
    Rewrite('R2-generics', r'(\s)incomplete: Option<IncompleteUtf8>,', r'\1pub incomplete: Option<IncompleteUtf8>,', only=('Utf8LossyDecoder',)),
    Rewrite('R2-generics', r'marker: PhantomData<A>,', 'pub marker: (),', only=('Utf8LossyDecoder',)),
    Rewrite('R2-generics', r'marker: PhantomData,', 'marker: (),', only=('Utf8LossyDecoder::new',)),
    Rewrite('R2-generics', r'pub fn new\(inner_sink: Sink\) -> Self', 'pub fn new(inner_sink: U8Sink) -> Utf8LossyDecoder', only=('Utf8LossyDecoder::new',)),
    Rewrite('R2-generics', r'Tendril<fmt::Bytes, A>', 'ByteTendril'),
    # R35: a `mut self` by-value receiver is `self` moved into a mutable local (Verus has no `mut self`)
    Rewrite('R35-mutself', r'\bself\.', '__s.', only=('Utf8LossyDecoder::finish',)),
    Rewrite('R35-mutself', r'fn finish\(mut self\) -> Sink::Output \{', 'fn finish(self) -> U8Sink { let mut __s = self;', only=('Utf8LossyDecoder::finish',)),
    Rewrite('R6-deref', r'decode_utf8\(&bytes\)', 'decode_utf8(bytes.as_slice())', only=('Utf8LossyDecoder::process',)),
    # R13: Option::map with a closure that captures `self` mutably is replaced by its definition
    Rewrite('R13-map', r'let resume_at = incomplete\s*\.try_to_complete_codepoint\(&bytes\)\s*\.map\(\|\(result, rest\)\| \{(.*?)\n(\s*)\}\);',
            r'let resume_at = match incomplete.try_to_complete_codepoint(bytes.as_slice()) { Some((result, rest)) => Some({\1\n\2}), None => None };',
            only=('Utf8LossyDecoder::process',), flags=16),
    Rewrite('R6-deref', r'try_to_complete_codepoint\(&bytes\)', 'try_to_complete_codepoint(bytes.as_slice())', only=('Utf8LossyDecoder::process',)),
    Rewrite('R6-deref', r'\bTendril::from_slice\(', 'Utf8Tendril::from_slice(', only=('Utf8LossyDecoder::process', 'Utf8LossyDecoder::finish')),
    Rewrite('R15-msg', r'"[^"]*"\.into\(\)', 'Cow::msg()', only=('Utf8LossyDecoder::process', 'Utf8LossyDecoder::finish')),
    # R9: pointer-identity debug assertions are not expressible and are dropped; the length ones are kept as obligations
    Rewrite('R9-ptrassert', r'debug_assert!\((\w+)\.as_ptr\(\) == bytes\.as_ptr\(\)\);', '', only=('Utf8LossyDecoder::process',)),
    Rewrite('R9-debugassert', r'debug_assert!\(', 'assert!(', only=('Utf8LossyDecoder::process',)),
    Rewrite('R25-strlen', r'\b(s|valid_prefix)\.len\(\)', r'str_len(\1)', only=('Utf8LossyDecoder::process',)),
]

PARTS = [
    Raw('use vstd::prelude::*;\nuse vstd::slice::*;\nuse vstd::string::*;\nverus! {\n// ASSUMPTION: 64-bit target\nglobal size_of usize == 8;'),
    Prelude('utf8dec.prelude.rs'),
    Item(D, 'const', 'REPLACEMENT_CHARACTER'),
    Item(D, 'struct', 'IncompleteUtf8'),
    Item(D, 'enum', 'DecodeError'),
    Item(D, 'enum', 'Utf8CompletionResult'),
    Prelude('utf8dec.models.rs'),
    Item(D, 'fn', 'decode_utf8'),
    iu('new'), iu('take_buffer'), iu('try_complete_offsets'), iu('try_to_complete_codepoint'),
    Item(S, 'struct', 'Utf8LossyDecoder'),
    Prelude('utf8dec.stream.rs'),
    Item(S, 'fn', 'new', impl='Utf8LossyDecoder', wrap='impl Utf8LossyDecoder'),
    # loop_isolation(false): the postcondition speaks about the initial value of the by-value parameter `bytes`, which the
    # loop modifies; without it the loop body does not know that value any more (no proof obligation is dropped by this)
    Item(S, 'fn', 'process', impl='Utf8LossyDecoder', trait_impl='TendrilSink', wrap='impl Utf8LossyDecoder', attrs='#[verifier::loop_isolation(false)]'),
    Item(S, 'fn', 'finish', impl='Utf8LossyDecoder', trait_impl='TendrilSink', wrap='impl Utf8LossyDecoder'),
    Raw('} // verus!\nfn main() {}'),
]
DROPS = []
