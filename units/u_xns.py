"""U-xns: XML qualified names and namespaces (C16).
  * xml5ever/src/tokenizer/mod.rs: process_qname, XmlTokenizer::finish_attribute (which attribute of a tag is dropped)
  * xml5ever/src/tree_builder/mod.rs: NamespaceMap::{default, insert_ns}, XmlTreeBuilder::{declare_ns, find_uri, bind_qname,
    bind_attr_qname, check_duplicate_attr, process_namespaces} (resolution by lexical scope; what is pushed / dropped)
(the qualified-name splitter of qname.rs itself is unit u_qname; its contract is used here)."""
from unitgen import Raw, Prelude, Item, Rewrite, Atoms
import u_xtok

NAME = 'u_xns'
PROPERTIES = ['C16']
CONTRACTS = 'u_xns.contracts'
SHARED_CONTRACTS = ['u_qname.contracts']
RLIMIT = 30
M = 'xml5ever/src/tokenizer/mod.rs'
ST = 'xml5ever/src/tokenizer/states.rs'
IF = 'xml5ever/src/tokenizer/interface.rs'
CR = 'xml5ever/src/tokenizer/char_ref/mod.rs'
QN = 'xml5ever/src/tokenizer/qname.rs'
TB = 'xml5ever/src/tree_builder/mod.rs'
DERIVE = '#[derive(PartialEq, Eq, Copy, Clone, Structural)]'

REWRITES = [
    Rewrite('R2-generics', r'<<Sink as TokenSink>::Handle>', '<Handle>'),
    Rewrite('R2-generics', r'<Sink::Handle>', '<Handle>'),
    Rewrite('R2-generics', r'XmlTokenizer<Sink>', 'XmlTokenizer'),
    Rewrite('R2-generics', r'<Sink: TokenSink>', ''),
    Rewrite('R1-receiver', r'(fn \w+(?:<[^>]*>)?\(\s*)&self\b', r'\1&mut self',
            skip=('QualNameTokenizer::new', 'NamespaceMap::get', 'NamespaceMapStack::new', 'NamespaceMapStack::push', 'NamespaceMapStack::pop')),
    Rewrite('R28-box', r'Option<Box<CharRefTokenizer>>', 'Option<CharRefTokenizer>'),
    Rewrite('R15-msg', r'\bBorrowed\(', 'Cow::msg()', balanced=True),
    Rewrite('R15-msg', r"Cow<'static, str>", 'Cow'),
    Rewrite('R16-take', r'(?<![\w:])replace\(\s*&mut self\.', 'replace_tendril(&mut *self.'),
    # ---- R6: Deref<Target = str> of a tendril / atom spelled as a method of the model type
    Rewrite('R6-deref', r'\(\*tag_name\)\.len\(\)', 'tag_name.len()', min_count=2),
    Rewrite('R6-deref', r'\(\*tag_name\)\.as_bytes\(\)', 'tag_name.as_bytes()', min_count=3),
    Rewrite('R6-deref', r'LocalName::from\(&\*(\w+)\)', r'LocalName::from_tendril(&\1)', min_count=5),
    Rewrite('R6-deref', r'Prefix::from\(&\*prefix\)', 'Prefix::from_tendril(&prefix)', min_count=6),
    # ---- R18: the duplicate test `.iter().any(closure)` through a model function whose ASSUMED contract is the closure
    Rewrite('R18-anydup', r'let name = &current_attr_name\[\.\.\];\s*self\.current_tag_attrs\s*\.borrow\(\)\s*\.iter\(\)\s*\.any\(\|a\| &\*a\.name\.local == name\)',
            'attrs_any_local_eq(&self.current_tag_attrs.borrow(), &current_attr_name)'),
    Rewrite('R18-anydup', r'let name = &current_attr_name\[\.\.\];\s*self\.current_tag_attrs\s*\.borrow\(\)\s*\.iter\(\)\s*\.any\(\|a\| a\.name\.prefix\.is_none\(\) && &\*a\.name\.local == name\)',
            'attrs_any_unprefixed_local_eq(&self.current_tag_attrs.borrow(), &current_attr_name)'),
    Rewrite('R18-insert0', r'self\.current_tag_attrs\.borrow_mut\(\)\.insert\(0, attr\)', 'attrs_insert0(&mut self.current_tag_attrs.borrow_mut(), attr)', min_count=1),
    # ---------------- tree builder (xml5ever/src/tree_builder/mod.rs) ----------------
    Rewrite('R2-generics', r'pub struct XmlTreeBuilder<Handle, Sink>', 'pub struct XmlTreeBuilder'),
    Rewrite('R2-generics', r'\bSelf::check_duplicate_attr\b', 'XmlTreeBuilder::check_duplicate_attr'),
    Rewrite('R3-btree', r'BTreeMap<Option<Prefix>, Option<Namespace>>', 'NsScope'),
    Rewrite('R3-btree', r'BTreeMap::new\(\)', 'NsScope::new()'),
    Rewrite('R3-hashset', r'HashSet<\(Namespace, LocalName\)>', 'PresentSet'),
    Rewrite('R3-hashset', r': PresentSet = Default::default\(\)', ': PresentSet = PresentSet::new()'),
    Rewrite('R20-static', r'^static (XML_URI|XMLNS_URI): &str', r"pub const \1: &'static str", only=('XML_URI', 'XMLNS_URI')),
    Rewrite('R2-generics', r'pub sink: Sink,', 'pub sink: TreeSink,', only=('XmlTreeBuilder',)),
    # R6: comparisons through Deref<Target = str> of the tendril / atom models
    Rewrite('R6-strcmp', r'&\*attr\.value == XMLNS_URI', 'attr.value.eq_str(XMLNS_URI)', only=('NamespaceMap::insert_ns',)),
    Rewrite('R6-strcmp', r'&\*attr\.value != XML_URI', '!attr.value.eq_str(XML_URI)', only=('NamespaceMap::insert_ns',)),
    Rewrite('R6-deref', r'Namespace::from\(&\*attr\.value\)', 'Namespace::from_tendril(&attr.value)', only=('NamespaceMap::insert_ns',)),
    Rewrite('R6-deref', r'Prefix::from\(&\*attr\.name\.local\)', 'Prefix::from_local(&attr.name.local)', only=('NamespaceMap::insert_ns',)),
    # R4/R11: a string-literal pattern / comparison on the string of an atom is the atom literal (atoms are equal iff their
    #         strings are); patterns hold atoms by value
    Rewrite('R11-byvalue', r'match \(&attr\.name\.prefix, &\*attr\.name\.local\) \{', 'match (attr.name.prefix, attr.name.local) {', only=('NamespaceMap::insert_ns',)),
    Rewrite('R11-byvalue', r'\(&Some\(', '(Some(', only=('NamespaceMap::insert_ns',)),
    Rewrite('R11-byvalue', r'\(&None, ', '(None, ', only=('NamespaceMap::insert_ns',)),
    Rewrite('R4-atomlit', r', "(xml|xmlns)"\)', r', local_name!("\1"))', only=('NamespaceMap::insert_ns',)),
    Rewrite('R4-atomlit', r'&\*attr\.name\.local == "xmlns"', 'attr.name.local == local_name!("xmlns")', only=('NamespaceMap::insert_ns',)),
    Rewrite('R15-msg', r'type InsResult = Result<\(\), Cow>;', 'pub type InsResult = Result<(), Cow>;'),
    # R31: `for X in A.iter().chain(Some(B)).rev() { BODY }` as a descending index loop over the chained sequence
    #      (B first, then A[len-1] .. A[0]); BODY is unchanged
    Rewrite('R31-chainrev', r'for ns in self\s*\.namespace_stack\s*\.borrow\(\)\s*\.0\s*\.iter\(\)\s*\.chain\(Some\(&\*current_namespace\)\)\s*\.rev\(\)\s*\{',
            'let __st = self.namespace_stack.borrow(); let mut __i = __st.0.len(); let mut __first = true; while __first || __i > 0 { let ns = if __first { __first = false; &*current_namespace } else { __i -= 1; &__st.0[__i] };',
            only=('XmlTreeBuilder::find_uri',)),
    # R32: `for X in V.iter_mut().filter(|X| { COND }) { BODY }` as an index loop: X is the k-th element (exclusive
    #      reference), elements that do not satisfy COND are skipped; BODY is unchanged
    Rewrite('R32-filterloop', r'for attr in tag\.attrs\.iter_mut\(\)\.filter\(\|attr\| \{(.*?)\}\) \{',
            r'let mut __k: usize = 0; while __k < tag.attrs.len() { __k += 1; let attr = vec_index_mut(&mut tag.attrs, __k - 1); if !(\1) { continue; }',
            only=('XmlTreeBuilder::process_namespaces',), flags=16),
    Rewrite('R32-vecmacro', r'let mut new_attr = vec!\[\];', 'let mut new_attr: Vec<Attribute> = Vec::new();', only=('XmlTreeBuilder::process_namespaces',)),
    Rewrite('R16-take', r'mem::replace\(\s*&mut \*self\.current_namespace\.borrow_mut\(\),\s*NamespaceMap::empty\(\),\s*\)',
            'replace_nsmap(&mut *self.current_namespace.borrow_mut(), NamespaceMap::empty())', only=('XmlTreeBuilder::process_namespaces',)),
    Rewrite('R-vis', r'(?m)^(\s+)(scope|sink|namespace_stack|current_namespace|doc_handle|open_elems|curr_elem|phase|_opts):', r'\1pub \2:', only=('NamespaceMap', 'XmlTreeBuilder')),
    Rewrite('R-vis', r'struct NamespaceMapStack\(Vec<NamespaceMap>\);', 'pub struct NamespaceMapStack(pub Vec<NamespaceMap>);'),
    Rewrite('R-vis', r'\bpub\(super\)\s+', 'pub '),
    Rewrite('R-vis', r'\bpub\(crate\)\s+', 'pub '),
]


def tk(name, **kw):
    return Item(M, 'fn', name, impl='XmlTokenizer', wrap='impl XmlTokenizer', **kw)


def nm(name, **kw):
    return Item(TB, 'fn', name, impl='NamespaceMap', wrap='impl NamespaceMap', **kw)


def tb(name, **kw):
    return Item(TB, 'fn', name, impl='XmlTreeBuilder', wrap='impl XmlTreeBuilder', **kw)


def q(name, **kw):
    return Item(QN, 'fn', name, impl='QualNameTokenizer', wrap="impl<'a> QualNameTokenizer<'a>", mode='assume', canary=False,
                rewrites=(Rewrite('R2-lifetime', r"QualNameTokenizer<'_>", "QualNameTokenizer<'a>"), Rewrite('R2-lifetime', r'tag: &\[u8\]', "tag: &'a [u8]")), **kw)


TOKTYPES = [p for p in u_xtok.TYPES if not (isinstance(p, Item) and p.name in ('Token', 'Pi'))]

PARTS = [
    Raw('#![feature(allocator_api)]\nmacro_rules! debug { ($($t:tt)*) => {} }'),
    Atoms(),
    Raw('use vstd::prelude::*;\nuse vstd::string::*;\nuse vstd::slice::*;\nuse std::collections::VecDeque;\nverus! {\n// ASSUMPTION: 64-bit target\nglobal size_of usize == 8;'),
    Prelude('small.prelude.rs'),
    Prelude('std.prelude.rs'),
    Prelude('cells.prelude.rs'),
    Prelude('tendril.prelude.rs'),
    Prelude('utf8lemmas.prelude.rs'),
    Prelude('xns.prelude.rs'),
    Item(QN, 'enum', 'QualNameState', attrs='#[derive(PartialEq, Eq, Clone, Copy, Structural)]',
         rewrites=(Rewrite('R-vis', r'^enum QualNameState', 'pub enum QualNameState'),)),
    Item(QN, 'struct', 'QualNameTokenizer', rewrites=(Rewrite('R-vis', r'(?m)^(\s+)(state|slice|valid_index|curr_ind):', r'\1pub \2:'),)),
    q('new'), q('run'),
] + TOKTYPES + [
    Prelude('xns.tok.rs'),
    Item(M, 'fn', 'process_qname'),
    tk('emit_error', mode='assume'),
    tk('finish_attribute'),
    # ---- tree builder ----
    Prelude('nsscope.prelude.rs'),
    Item(TB, 'static', 'XML_URI'), Item(TB, 'static', 'XMLNS_URI'),
    Raw('pub type InsResult = Result<(), Cow>;'),
    Item(TB, 'struct', 'NamespaceMapStack'),
    Item(TB, 'struct', 'NamespaceMap'),
    Item('xml5ever/src/tree_builder/types.rs', 'enum', 'XmlPhase', attrs=DERIVE),
    Item(TB, 'struct', 'XmlTreeBuilderOpts'),
    Item(TB, 'struct', 'XmlTreeBuilder'),
    Prelude('xns.tb.rs'),
    nm('empty'), nm('default'), nm('get'), nm('insert_ns'),
    tb('declare_ns'), tb('find_uri'), tb('bind_qname'), tb('bind_attr_qname'), tb('check_duplicate_attr'),
    Item(TB, 'fn', 'new', impl='NamespaceMapStack', wrap='impl NamespaceMapStack', qname='NamespaceMapStack::new'),
    Item(TB, 'fn', 'push', impl='NamespaceMapStack', wrap='impl NamespaceMapStack'),
    Item(TB, 'fn', 'pop', impl='NamespaceMapStack', wrap='impl NamespaceMapStack'),
    tb('process_namespaces'),
    Raw('} // verus!\nfn main() {}'),
]
DROPS = [
    'the Sink type parameter (rule R2)', 'error-message wording (rule R15)', 'doc comments and derives',
]
