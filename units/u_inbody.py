"""U-inbody: the "in body" insertion mode of the HTML tree builder - the whole `InsertionMode::InBody => match token { .. }`
block of TreeBuilder::step (rules.rs, ~600 lines, ~60 cases), extracted verbatim as a fragment.  Serves C04 (every
unwrap / expect / index / unreachable! / helper precondition in the block is discharged under the stated invariant) and C02
(partially: the cases that carry a postcondition, see u_inbody.contracts).

Built on U-table's file."""
import dataclasses

import u_table
import u_stack
from unitgen import Raw, Prelude, Item, Rewrite, Fragment, Generated

NAME = 'u_inbody'
PROPERTIES = ['C02', 'C04']
CONTRACTS = 'u_inbody.contracts'
SHARED_CONTRACTS = ['u_table.contracts', 'u_modes.contracts', 'u_tmpl.contracts', 'u_fcontent.contracts', 'u_stack.contracts', 'u_aaa.contracts', 'u_misa.contracts']
RLIMIT = 150
H = u_stack.H
R = u_table.R

K = 12     # @slices in u_inbody.contracts
NAMES = ['step__in_body'] + ['step__in_body__s%d' % k for k in range(1, K + 1)]
BODY = tuple('TreeBuilder::' + n for n in NAMES)
REWRITES = [
    Rewrite('R32-vecmacro', r'attrs: vec!\[\],', 'attrs: no_attrs(),', only=BODY),
] + [rw for rw in u_table.REWRITES if not (rw.only and all(o.startswith('TreeBuilder::step__') for o in rw.only))] + [
    Rewrite('S-fragment-close', r'\}\s*\Z', '} }', only=BODY),
    # R38: Option<Ref<Handle>> glue
    Rewrite('R38-refmap', r'self\.body_elem\(\)\.as_deref\(\)\.cloned\(\)', 'opt_cloned(self.body_elem())', min_count=1),
    Rewrite('R38-refmap', r'self\.body_elem\(\)\.map\(\|b\| b\.clone\(\)\)', 'opt_cloned(self.body_elem())', min_count=1),
    # R37: `.iter().find(closure).cloned()` on the stack of open elements
    Rewrite('R37-find', r'self\s*\.open_elems\s*\.borrow\(\)\s*\.iter\(\)\s*\.find\(', 'vec_find_cloned(&self.open_elems.borrow(), ', only=BODY, min_count=1),
    Rewrite('R37-find', r'\)\s*\.cloned\(\);(\s*)self\.process_end_tag_in_body\(tag\);', r');\1self.process_end_tag_in_body(tag);', only=BODY, min_count=1),
    # R39: local tag sets of the <li>/<dd>/<dt> rule
    Rewrite('R39-localset', r'declare_tag_set!\(close_list = [^;]*\);', '', min_count=1),
    Rewrite('R39-localset', r'declare_tag_set!\(close_defn = [^;]*\);', '', min_count=1),
    Rewrite('R39-localset', r'declare_tag_set!\(extra_special = [^;]*\);', '', min_count=1),
    Rewrite('R11-byvalue', r'name\.local\.clone\(\)', 'name.local', only=BODY),
    # R34: the guard of `Some(ref node) if G => { BODY }, _ => {},` is moved into the arm (`Some(ref node) => { if G { BODY } }`): Verus loses
    #      track of `&mut self` inside a guarded arm; same meaning because the only arm that follows does nothing
    Rewrite('R34-guard-into-arm', r'Some\(ref node\)\s*if (self\.open_elems\.borrow\(\)\.len\(\) != 1\s*&& !self\.in_html_elem_named\(local_name!\("template"\)\)) =>\s*\{(\s*self\.frameset_ok\.set\(false\);\s*self\.sink\.add_attrs_if_missing\(node, tag\.attrs\))\s*\},',
            r'Some(ref node) => { if \1 {\2 } },', only=BODY, min_count=1),
]


def _assume(p):
    if isinstance(p, Item) and p.kind == 'fn' and p.mode == 'verify':
        return dataclasses.replace(p, mode='assume')
    if isinstance(p, Fragment):
        return None
    return p


BASE = [q for q in (_assume(p) for p in u_table.PARTS[:-1]) if q is not None]
PARTS = BASE + [
    Prelude('body.spec.rs'),
] + [
    Fragment(R, 'step', 'TreeBuilder', r'InsertionMode::InBody => match token \{',
             'fn %s(&mut self, token: Token) -> ProcessResult { match token' % nm, nm, wrap='impl TreeBuilder',
             # one canary twin (of the unsliced copy) tests the precondition that all copies share
             canary=(nm == NAMES[0])) for nm in NAMES
] + [
    Raw('} // verus!\nfn main() {}'),
]
LI_ARM = r'tag!\(<li> \| <dd> \| <dt>\)\) => \{'
LOCAL_SETS = [
    u_stack.local_set_check(R, LI_ARM, 'close_list', 'tsl_close_list', 'p == html_name(local_name!("li"))'),
    u_stack.local_set_check(R, LI_ARM, 'close_defn', 'tsl_close_defn', 'p == html_name(local_name!("dd")) || p == html_name(local_name!("dt"))'),
    u_stack.local_set_check(R, LI_ARM, 'extra_special', 'tsl_extra_special',
                            'ts_special_tag(p) && p != html_name(local_name!("address")) && p != html_name(local_name!("div")) && p != html_name(local_name!("p"))',
                            reveals=('ts_special_tag',)),
]
PARTS = u_stack.with_local_sets(PARTS, LOCAL_SETS)

DROPS = u_table.DROPS
