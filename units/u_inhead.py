"""U-inhead: the "in head" insertion mode (html5ever/src/tree_builder/rules.rs) as one block, `insert_foreign_element`,
`attach_declarative_shadow` (C02 partial, C04).  Built on U-table's file (its verified functions assumed here)."""
import dataclasses, re
from unitgen import Raw, Prelude, Item, Rewrite, Fragment, Generated, Atoms
import u_stack, u_table, u_inbody

NAME = 'u_inhead'
PROPERTIES = ['C02', 'C04']
CONTRACTS = 'u_inhead.contracts'
SHARED_CONTRACTS = u_inbody.SHARED_CONTRACTS
RLIMIT = 100
H = u_stack.H
R = u_table.R
HEAD = ('TreeBuilder::step__in_head',)

REWRITES = [
    # R13: Option::is_some_and / and_then with a closure or function value written out (as in U-meta)
    Rewrite('R13-is_some_and', r'tag\s*\.get_attribute\(&local_name!\("http-equiv"\)\)\s*\.is_some_and\(\|value\| value\.eq_ignore_ascii_case\("content-type"\)\)',
            'match tag.get_attribute(&local_name!("http-equiv")) { Some(value) => is_content_type(&value), None => false }', only=HEAD, min_count=1),
    Rewrite('R13-and_then', r'tag\s*\.get_attribute\(&local_name!\("content"\)\)\s*\.and_then\(extract_a_character_encoding_from_a_meta_element\)',
            'match tag.get_attribute(&local_name!("content")) { Some(__c) => extract_a_character_encoding_from_a_meta_element(__c), None => None }', only=HEAD, min_count=1),
] + [rw for rw in u_table.REWRITES if not (rw.only and all(o.startswith('TreeBuilder::step__') for o in rw.only))] + [
    Rewrite('R1-receiver', r'(fn \w+(?:<[^>]*>)?\(\s*)&self\b', r'\1&mut self', only=('TreeBuilder::insert_foreign_element', 'TreeBuilder::attach_declarative_shadow')),
    # R37: the attribute scan of should_attach_declarative_shadow through a model function; `Vec::first` through a glue function
    Rewrite('R37-any', r'vec_any\(&tag\.attrs, \|attr\| \{.*?\}\)', 'attrs_any_shadowrootmode(&tag.attrs)', flags=re.S, only=('TreeBuilder::should_attach_declarative_shadow',), min_count=1),
    Rewrite('R38-refmap', r'self\.open_elems\.borrow\(\)\.first\(\)', 'vec_first(&self.open_elems.borrow())', only=('TreeBuilder::should_attach_declarative_shadow',), min_count=1),
    # R38: `Ref<Option<Handle>>.clone().unwrap()` (clone of the Option) through the Option glue function
    Rewrite('R38-refmap', r'self\.context_elem\.borrow\(\)\.clone\(\)\.unwrap\(\)', 'opt_cloned(self.context_elem.borrow().as_ref()).unwrap()', only=HEAD, min_count=1),
    # R41 (see U-modes): the local closure `anything_else` inlined through a local macro
    Rewrite('R41-inline-closure', r'let anything_else = \|token: Token\| \{(.*?)\n(\s*)\};',
            r'macro_rules! anything_else { ($t:expr) => {{ let token: Token = $t;\1\n\2}} }', flags=re.S, only=HEAD, min_count=1),
    Rewrite('R41-inline-closure', r'\banything_else\(token\)', 'anything_else!(token)', only=HEAD, min_count=2),
]


def tb(name, **kw):
    return Item(H, 'fn', name, impl='TreeBuilder', wrap='impl TreeBuilder', **kw)


PARTS = u_inbody.BASE + [
    Prelude('head.spec.rs'),
    tb('insert_foreign_element'), tb('attach_declarative_shadow'), tb('should_attach_declarative_shadow'),
    Fragment(R, 'step', 'TreeBuilder', r'InsertionMode::InHead => \{', 'fn step__in_head(&mut self, token: Token) -> ProcessResult', 'step__in_head', wrap='impl TreeBuilder'),
    Raw('} // verus!\nfn main() {}'),
]
DROPS = u_table.DROPS
