"""U-htok: the HTML tokenizer (html5ever/src/tokenizer/{mod,states,interface}.rs, char_ref/mod.rs)
against the WHATWG tokenization machine.  Serves C01, C03, C04, C08, C09, C14 (html part), C19 (tokenizer part)."""
from unitgen import Raw, Prelude, Item, Rewrite

NAME = 'u_htok'
PROPERTIES = ['C01', 'C03', 'C04', 'C08', 'C09', 'C14', 'C19']
CONTRACTS = 'u_htok.contracts'
SHARED_CONTRACTS = ['u_hcr.contracts', 'u_bq.contracts', 'u_small.contracts']
BQ = 'markup5ever/util/buffer_queue.rs'
RLIMIT = 20
M = 'html5ever/src/tokenizer/mod.rs'
ST = 'html5ever/src/tokenizer/states.rs'
IF = 'html5ever/src/tokenizer/interface.rs'
CR = 'html5ever/src/tokenizer/char_ref/mod.rs'

DERIVE = '#[derive(PartialEq, Eq, Copy, Clone, Structural)]'

REWRITES = [
    # ---- R2: strip the Sink type parameter
    Rewrite('R2-generics', r'<Sink::Handle>', '<Handle>'),
    Rewrite('R2-generics', r'Tokenizer<Sink>', 'Tokenizer'),
    Rewrite('R2-generics', r'<Sink: TokenSink>', ''),
    Rewrite('R2-generics', r'\bSelf::is_supported_simd_feature_detected\b', 'Tokenizer::is_supported_simd_feature_detected'),
    # ---- R1: interior mutability made explicit
    Rewrite('R1-receiver', r'(fn \w+(?:<[^>]*>)?\(\s*)&self\b', r'\1&mut self', skip=('CharRefTokenizer::name_buf',)),
    Rewrite('R1-receiver', r'\binput: &BufferQueue\b', 'input: &mut BufferQueue'),
    Rewrite('R1-receiver', r'\btokenizer: &Tokenizer\b', 'tokenizer: &mut Tokenizer'),
    Rewrite('R1-receiver', r'&BufferQueue::default\(\)', '&mut BufferQueue::default()'),
    Rewrite('R1-receiver', r'let input = BufferQueue::default\(\);', 'let mut input = BufferQueue::default();'),
    Rewrite('R1-receiver', r'\(self, &input\)', '(self, &mut input)'),
    Rewrite('R1-receiver', r'self\.run\(&input\)', 'self.run(&mut input)'),
    # ---- R5: fn-pointer parameter generalised to a generic Fn parameter (every fn pointer implements Fn)
    Rewrite('R5-fnptr', r'fn eat\(&mut self, input: &mut BufferQueue, pat: &str, eq: fn\(&u8, &u8\) -> bool\)',
            'fn eat<F: Fn(&u8, &u8) -> bool>(&mut self, input: &mut BufferQueue, pat: &str, eq: F)', min_count=1),
    # ---- R6: str comparisons through Deref on the tendril / atom shims
    Rewrite('R6-strcmp', r'&\*\*self\.temp_buf\.borrow\(\) == "script"', 'self.temp_buf.borrow().eq_str("script")'),
    Rewrite('R6-strcmp', r'\(\*\*self\.current_tag_name\.borrow\(\) == \*\*last\)', '(last.eq_tendril(&self.current_tag_name.borrow()))'),
    Rewrite('R6-strcmp', r'LocalName::from\(&\*\*self\.(\w+)\.borrow\(\)\)', r'LocalName::from_tendril(&self.\1.borrow())'),
    Rewrite('R6-strcmp', r'QualName::new\(None, ns!\(\), name\)', 'QualName::new_plain(name)'),
    # ---- R30: a RefMut of the RefCell<Option<CharRefTokenizer>> is held across calls that take `self`.  With `&mut self`
    #      (R1) the content is moved out of the cell for the scope of the RefMut and moved back where the RefMut is dropped
    #      (before the early return and at the end of the function).  Equivalent iff nothing inside the scope touches the
    #      cell; in the real code such a touch is a BorrowMutError panic.
    Rewrite('R30-refmut-takeput', r'let mut char_ref_tokenizer = self\.char_ref_tokenizer\.borrow_mut\(\);',
            'let mut char_ref_tokenizer = self.char_ref_tokenizer.take();', only=('Tokenizer::step_char_ref_tokenizer',), min_count=1),
    Rewrite('R30-refmut-takeput', r'\*char_ref_tokenizer = None;',
            'char_ref_tokenizer = None; self.char_ref_tokenizer.put_back(char_ref_tokenizer);', only=('Tokenizer::step_char_ref_tokenizer',), min_count=2),
    Rewrite('R30-refmut-takeput', r'\n(\s*)progress\n(\s*)\}\s*$',
            r'\n\1self.char_ref_tokenizer.put_back(char_ref_tokenizer); progress\n\2}', only=('Tokenizer::step_char_ref_tokenizer',), min_count=3),
    # ---- R34: Verus 0.2026.09.13 loses track of a `&mut` parameter that is passed on inside a GUARDED match arm (the
    #      parameter's final value is left unconstrained although the callee's contract constrains it).  The guard of
    #      `Some(';') if G => E,` is moved into the arm: `Some(';') => { if G { E } },`.  Same meaning here because the only
    #      arm that follows is `_ => ()` and E has type ().
    Rewrite('R34-guard-into-arm', r"Some\(';'\) if self\.name_buf\(\)\.len\(\) > 1 => self\.emit_name_error\(tokenizer\),(\s*)_ => \(\),",
            r"Some(';') => { if self.name_buf().len() > 1 { self.emit_name_error(tokenizer) } },\1_ => (),", only=('CharRefTokenizer::finish_named',), min_count=1),
    # ---- R15: error-message wording is dropped (format!/Cow); which errors are raised is kept.  The one message
    #      argument that can panic (name_buf()) is still evaluated.
    Rewrite('R15-msgarg', r'Cow::from\(format!\("Invalid character reference &\{\}", self\.name_buf\(\)\)\)',
            '{ let _nb = self.name_buf(); Cow::msg() }', min_count=1),
    Rewrite('R15-msg', r'\bCow::from\(', 'Cow::msg()', balanced=True),
    Rewrite('R15-msg', r'\bCow::Owned\(', 'Cow::msg()', balanced=True),
    Rewrite('R15-msg', r'\bBorrowed\(', 'Cow::msg()', balanced=True),
    Rewrite('R15-msg', r'\bformat!\(', '()', balanced=True),
    Rewrite('R15-msg', r"Cow<'static, str>", 'Cow'),
    Rewrite('R15-msg', r'\bpanic!\(', 'panic!("unreachable")', balanced=True),
    # ---- R18: the duplicate-attribute test `.iter().any(|a| a.name.local == name)` (closure over an iterator
    #      adaptor, atom comparison) is replaced by a model function with an ASSUMED contract
    Rewrite('R18-anydup', r'self\.current_tag_attrs\s*\.borrow\(\)\s*\.iter\(\)\s*\.any\(\|a\| a\.name\.local == name\)',
            'attrs_contain(&self.current_tag_attrs.borrow(), &name)', min_count=1),
    # ---- R16: mem::take on the tendril shim
    Rewrite('R16-take', r'std::mem::take\(&mut self\.current_tag_attrs\.borrow_mut\(\)\)', 'take_attrs(&mut self.current_tag_attrs.borrow_mut())'),
    Rewrite('R16-take', r'(?<!std::)mem::take\(&mut \*?self\.(\w+)\.borrow_mut\(\)\)', r'self.\1.borrow_mut().take()'),
    # R17: RefMut<'_, T> returned by the (assumed) doctype_id glue is an exclusive borrow
    Rewrite('R17-refmut', r"RefMut<'_, Option<StrTendril>>", '&mut Option<StrTendril>'),
    Rewrite('R-vis', r'\bpub\(super\)\s+', 'pub '),
    Rewrite('S-iterlabel', r'for i in 0\.\.num_chars \{', 'for i in __it3: 0..num_chars {'),
    # ---- R22: an explicit drop of a RefMut only ends the dynamic borrow; with `&mut` (R17) the borrow ends by itself
    Rewrite('R22-drop', r'drop\(front_buffer\);', ''),
    # ---- R19: the generated PHF map of named entities is a model function with an ASSUMED contract over
    #      the uninterpreted entity table; byte-range slicing of the name buffer goes through the tendril model
    Rewrite('R19-entities', r'data::NAMED_ENTITIES\.get\(&self\.name_buf\(\)\[\.\.\]\)', 'named_entities_get(self.name_buf().as_str())'),
    # ---- R21: with `&mut self` (R1) a call argument that itself borrows `self` is bound to a temporary first
    Rewrite('R21-argtemp', r'self\.process_char_ref\(tokenizer\.end_of_file\(self, &mut input\)\);',
            '{ let __cr = tokenizer.end_of_file(self, &mut input); self.process_char_ref(__cr); }', min_count=1),
    Rewrite('R11-byvalue', r'Some\(&m\) =>', 'Some(m) =>'),
    # ---- R13: a datatype constructor used as a function value is eta-expanded
    Rewrite('R13-eta', r'\.map\(FromSet\)', '.map(|c| FromSet(c))'),
    # ---- R13: Option::and_then with a closure capturing `self` mutably is replaced by its definition
    Rewrite('R13-and_then', r'input\s*\.next\(\)\s*\.and_then\(\|c\| self\.get_preprocessed_char\(c, input\)\)',
            'match input.next() { Some(c) => self.get_preprocessed_char(c, input), None => None }', min_count=1),
    Rewrite('R8-slice', r'self\.name_buf\(\)\[name_len - 1\.\.\]', 'self.name_buf().slice_from(name_len - 1)'),
    Rewrite('R8-slice', r'&self\.name_buf\(\)\[name_len\.\.\]', 'self.name_buf().slice_from(name_len)'),
    Rewrite('R8-slice', r'self\.name_buf\(\)\[name_len\.\.\]', 'self.name_buf().slice_from(name_len)'),
]


def tk(name, **kw):
    return Item(M, 'fn', name, impl='Tokenizer', wrap='impl Tokenizer', **kw)


CR_MODE = 'assume'   # phase 1: the character-reference sub-tokenizer is covered by unit u_hcharref
CR_RENAME = (Rewrite('R-rename', r'\bState::', 'CrState::'), Rewrite('R-rename', r'\bstate: State\b', 'state: CrState'))


def cr(name, **kw):
    return Item(CR, 'fn', name, impl='CharRefTokenizer', wrap='impl CharRefTokenizer', rewrites=CR_RENAME, **kw)


MACROS = [
    Raw('#![feature(allocator_api)]\nmacro_rules! trace { ($($t:tt)*) => {} }\nmacro_rules! debug { ($($t:tt)*) => {} }\n'
        'macro_rules! ns { () => { () } }'),
    Item('markup5ever/lib.rs', 'macro', 'small_char_set',
         rewrites=(Rewrite('R2-generics', r'\$ crate ::SmallCharSet', 'SmallCharSet'),)),
    Item('html5ever/src/macros.rs', 'macro', 'unwrap_or_return'),
    Item('html5ever/src/macros.rs', 'macro', 'time', rewrites=(Rewrite('R3-instant', r'::std::time::Instant', 'Instant'),)),
    Item(M, 'macro', 'shorthand'),
    Item(M, 'macro', 'sh_trace'),
    Item(M, 'macro', 'go'),
    Item(M, 'macro', 'get_char'),
    Item(M, 'macro', 'eat'),
    Item(M, 'macro', 'eat_exact'),
]

TYPES = [
    Item(ST, 'enum', 'ScriptEscapeKind', attrs=DERIVE),
    Item(ST, 'enum', 'DoctypeIdKind', attrs=DERIVE),
    Item(ST, 'enum', 'RawKind', attrs=DERIVE),
    Item(ST, 'enum', 'AttrValueKind', attrs=DERIVE),
    Item(ST, 'enum', 'State', attrs=DERIVE),
    Raw('pub mod states { pub use super::State; pub use super::State::*; pub use super::RawKind::*; '
        'pub use super::AttrValueKind::*; pub use super::ScriptEscapeKind::*; pub use super::DoctypeIdKind::*; '
        'pub use super::{RawKind, AttrValueKind, ScriptEscapeKind, DoctypeIdKind}; }\n'
        'pub use State::*;\npub use AttrValueKind::*;\npub use DoctypeIdKind::*;\npub use RawKind::*;\npub use ScriptEscapeKind::*;'),
    Item(IF, 'struct', 'Doctype'),
    Item(IF, 'enum', 'TagKind', attrs=DERIVE),
    Raw('pub use TagKind::{EndTag, StartTag};'),
    Item(IF, 'struct', 'Tag'),
    Item(IF, 'enum', 'Token'),
    Raw('pub use Token::*;'),
    Item(IF, 'enum', 'TokenSinkResult'),
    Item('markup5ever/interface/mod.rs', 'enum', 'TokenizerResult'),
    Item(M, 'enum', 'ProcessResult'),
    Item(M, 'struct', 'TokenizerOpts'),
    Item(M, 'struct', 'Tokenizer',
         rewrites=(Rewrite('R2-generics', r'pub struct Tokenizer<Sink>', 'pub struct Tokenizer'),
                   Rewrite('R3-profile', r'state_profile: RefCell<BTreeMap<states::State, u64>>', 'state_profile: RefCell<ProfileMap>'))),
    Raw('pub mod data { use super::*;'),
    Item('web_atoms/lib.rs', 'static', 'C1_REPLACEMENTS',
         rewrites=(Rewrite('R20-static', r'pub static C1_REPLACEMENTS', 'pub const C1_REPLACEMENTS'),)),
    Raw('}'),
    Item(CR, 'struct', 'CharRef'),
    Item(CR, 'enum', 'Status'),
    Item(CR, 'enum', 'State', qname='char_ref::State',
         rewrites=(Rewrite('R-rename', r'\benum State\b', 'pub enum CrState'),), attrs=DERIVE),
    Item(CR, 'struct', 'CharRefTokenizer', rewrites=CR_RENAME),
    Item(CR, 'const', 'EMPTY', wrap='impl CharRef', qname='CharRef::EMPTY'),
    Raw('pub mod char_ref { pub use super::Status; }'),
]

PARTS = MACROS + [
    Raw('use vstd::prelude::*;\nuse vstd::string::*;\nuse std::collections::VecDeque;\nuse std::char::from_u32;\nverus! {'),
    Prelude('small.prelude.rs'),
    Prelude('std.prelude.rs'),
    Prelude('cells.prelude.rs'),
    Prelude('tendril.prelude.rs'),
    Prelude('atoms.prelude.rs'),
    Prelude('bqspec.prelude.rs'),
] + TYPES + [
    Item('markup5ever/util/buffer_queue.rs', 'enum', 'SetResult'),
    Raw('pub use SetResult::{FromSet, NotFromSet};'),
    Item('markup5ever/util/buffer_queue.rs', 'struct', 'BufferQueue'),
    Prelude('enttab.prelude.rs'),
    Prelude('htok.spec.rs'),
    Prelude('whatwg.spec.rs'),
    Prelude('charref.spec.rs'),
    Prelude('htok.abs.rs'),
    Prelude('hcr.abs.rs'),
] + [Item('markup5ever/util/buffer_queue.rs', 'fn', n, impl='BufferQueue', wrap='impl BufferQueue', mode='assume', unit_rewrites=False,
          rewrites=(Rewrite('R1-receiver', r'\(&self\b', '(&mut self', only=('BufferQueue::pop_front', 'BufferQueue::push_front', 'BufferQueue::push_back', 'BufferQueue::pop_except_from', 'BufferQueue::eat', 'BufferQueue::next', 'BufferQueue::peek_front_chunk_mut')),
                    Rewrite('R17-refmut', r"Option<RefMut<'_, StrTendril>>", 'Option<&mut StrTendril>')))
     for n in ('is_empty', 'pop_front', 'push_front', 'push_back', 'peek', 'pop_except_from', 'next', 'eat', 'peek_front_chunk_mut')] + [
    Item('html5ever/src/util/str.rs', 'fn', 'lower_ascii_letter', mode='assume'),
    Item(M, 'fn', 'option_push'),
    tk('feed'), tk('process_token'), tk('process_token_and_continue'),
    tk('get_preprocessed_char'), tk('get_char'), tk('pop_except_from'), tk('eat'), tk('run'),
    tk('bad_char_error'), tk('bad_eof_error'), tk('emit_char'), tk('emit_chars'), tk('emit_current_tag'),
    tk('emit_temp_buf'), tk('clear_temp_buf'), tk('emit_current_comment'), tk('discard_tag'), tk('create_tag'),
    tk('have_appropriate_end_tag'), tk('create_attribute'), tk('finish_attribute'), tk('emit_current_doctype'),
    tk('doctype_id', mode='assume'), tk('clear_doctype_id'), tk('start_consuming_character_reference'),
    tk('emit_eof'), tk('peek'), tk('discard_char'), tk('emit_error'),
    tk('step', split=int(__import__('os').environ.get('VERIF_STEP_PARTS', '14')), attrs='#[verifier::rlimit(80)]'), tk('step_char_ref_tokenizer', mode='assume'), tk('process_char_ref'), tk('end', mode='assume'), tk('eof_step'),
    tk('dump_profile', mode='assume'),
    tk('is_supported_simd_feature_detected', mode='assume'), tk('data_state_simd_fast_path', mode='assume'),
    tk('data_state_sse2_fast_path', mode='assume'),
] + [cr(n, mode=CR_MODE) for n in ('new', 'name_buf', 'name_buf_mut', 'finish_one', 'step', 'do_begin', 'do_octothorpe',
    'do_numeric', 'do_numeric_semicolon', 'unconsume_numeric', 'finish_numeric', 'do_named',
    'emit_name_error', 'unconsume_name', 'finish_named', 'do_bogus_name', 'end_of_file')] + [
    Raw('} // verus!\nfn main() {}'),
]

DROPS = [
    'the Sink type parameter and trait dispatch (rule R2): the sink is a model type whose process_token appends to a ghost token log',
    'log macros trace!/debug! (rule R9)',
    'error-message wording: format!/Cow arguments of emit_error (rule R15)',
    'doc comments and #[derive]/#[inline] attributes of the extracted items',
]
