"""U-table: the table insertion modes of the HTML tree builder, each the whole `InsertionMode::X => match token { .. }` block of
TreeBuilder::step (rules.rs) extracted verbatim as a fragment and checked case by case against the standard: in table, in
caption, in table body, in row, in cell; plus close_the_cell, process_chars_in_table, foster_parent_in_body, assert_named.
Serves C02 (partially) and C04 (the assert!/expect sites of these blocks: e.g. `assert_named(&node, "tr")`).

Built on U-modes's file."""
import dataclasses

import u_modes
import u_stack
from unitgen import Raw, Prelude, Item, Rewrite, Fragment, Generated
from rsx import ExtractError

NAME = 'u_table'
PROPERTIES = ['C02', 'C04']
CONTRACTS = 'u_table.contracts'
SHARED_CONTRACTS = ['u_modes.contracts', 'u_tmpl.contracts', 'u_fcontent.contracts', 'u_stack.contracts', 'u_aaa.contracts', 'u_misa.contracts']
RLIMIT = 80
H = u_stack.H
R = u_modes.R
MODES = [('InRow', 'in_row'), ('InTableBody', 'in_table_body'), ('InCell', 'in_cell'), ('InCaption', 'in_caption'), ('InTable', 'in_table')]
FNS = ('close_the_cell', 'process_chars_in_table', 'foster_parent_in_body', 'assert_named')

REWRITES = [rw for rw in u_modes.REWRITES if not (rw.only and all(o.startswith('TreeBuilder::step__') for o in rw.only))] + [
    Rewrite('S-fragment-close', r'\}\s*\Z', '} }', only=tuple('TreeBuilder::step__' + n for _, n in MODES)),
    Rewrite('R1-receiver', r'(fn \w+(?:<[^>]*>)?\(\s*)&self\b', r'\1&mut self', only=('TreeBuilder::close_the_cell', 'TreeBuilder::process_chars_in_table', 'TreeBuilder::foster_parent_in_body')),
    # R39: local tag sets
    Rewrite('R39-localset', r'declare_tag_set!\(table_outer = [^;]*\);', '', only=('TreeBuilder::process_chars_in_table',), min_count=1),
    Rewrite('R39-localset', r'declare_tag_set!\(table_outer = [^;\[\]]*\);', '', only=('TreeBuilder::step__in_table_body',), min_count=1),
    Rewrite('R39-localset', r'self\.elem_in\(&e, table_outer\)', 'self.elem_in(&e, table_outer3)', only=('TreeBuilder::step__in_table_body',), min_count=1),
    Rewrite('R15-msg', r'to_escaped_string\(&token\)', '()'),
]


def local_set(fn_regex, set_name, model_name):
    """rule R39, generated form: the model function of a function-local `declare_tag_set!(NAME = "a" "b" ..)` is GENERATED from
    the macro call's own text (the plain form: a list of HTML element names), so a change of the list changes the model"""
    def gen(ub):
        import re as _re
        src = ub.src(R)
        m = _re.search(fn_regex, src.text)
        if not m:
            raise ExtractError('local tag set: anchor %s not found' % fn_regex)
        mm = _re.search(r'declare_tag_set!\(%s = ([^;\[\]]*)\);' % set_name, src.text[m.end():m.end() + 3000])
        if not mm:
            raise ExtractError('local tag set %s not found (or not of the plain form)' % set_name)
        names = _re.findall(r'"([^"]+)"', mm.group(1))
        ub.count('R39-localset-generated', 1)
        terms = ' || '.join('p == html_name(local_name!("%s"))' % n for n in names) or 'false'
        return ('/// GENERATED (rule R39) from `declare_tag_set!(%s = %s)` in rules.rs\n#[verifier::external_body]\n'
                'pub fn %s(p: ExpandedName) -> (r: bool) ensures r == (%s) { unimplemented!() }' % (set_name, mm.group(1).strip(), model_name, terms))
    return gen


def tb(name, **kw):
    return Item(H, 'fn', name, impl='TreeBuilder', wrap='impl TreeBuilder', **kw)


def _assume(p):
    if isinstance(p, Item) and p.kind == 'fn' and p.mode == 'verify':
        return dataclasses.replace(p, mode='assume')
    if isinstance(p, Fragment):
        return None
    return p


BASE = [q for q in (_assume(p) for p in u_modes.PARTS[:-1]) if q is not None]
PARTS = BASE + [
    Prelude('table.spec.rs'),
    Generated(local_set(r'InsertionMode::InTableBody => match token \{', 'table_outer', 'table_outer3'), label='R39'),
] + [tb(n) for n in FNS] + [
    Fragment(R, 'step', 'TreeBuilder', r'InsertionMode::%s => match token \{' % m,
             'fn step__%s(&mut self, token: Token) -> ProcessResult { match token' % n, 'step__%s' % n, wrap='impl TreeBuilder')
    for m, n in MODES] + [
    Raw('} // verus!\nfn main() {}'),
]
LOCAL_SETS = [
    u_stack.local_set_check(H, r'fn process_chars_in_table\(', 'table_outer', 'tsl_table_outer', 'ts_table_outer(p)'),
]
PARTS = u_stack.with_local_sets(PARTS, LOCAL_SETS)

DROPS = u_modes.DROPS
