"""U-tmpl: the template insertion-mode stack of the HTML tree builder (rules.rs): the "in template" insertion mode (the whole
`InsertionMode::InTemplate => match token { .. }` block) and the `</template>` rule of the "in head" mode, extracted verbatim as
fragments and checked against the standard.  Serves C02 (partially) and C04 (reset_insertion_mode's `last().unwrap()` on the
stack of template insertion modes cannot panic here).

Built on U-fcontent's file: the helper algorithms are used through the contracts U-stack / U-fcontent prove."""
import dataclasses

import u_fcontent
import u_stack
from unitgen import Raw, Prelude, Item, Rewrite, Fragment

NAME = 'u_tmpl'
PROPERTIES = ['C02', 'C04']
CONTRACTS = 'u_tmpl.contracts'
SHARED_CONTRACTS = ['u_fcontent.contracts', 'u_stack.contracts', 'u_aaa.contracts', 'u_misa.contracts']
RLIMIT = 100
H = u_stack.H
R = u_fcontent.R

REWRITES = u_fcontent.REWRITES + [
    Rewrite('R1-receiver', r'(fn \w+(?:<[^>]*>)?\(\s*)&self\b', r'\1&mut self', only=('TreeBuilder::to_raw_text_mode', 'TreeBuilder::parse_raw_data', 'TreeBuilder::handle_misnested_a_tags')),
    # R36/R37: the adaptor chain of handle_misnested_a_tags through a model function (inbody.spec.rs); R13: Option::map with a mutating closure as a match
    Rewrite('R36-fmtentry', r'self\s*\.active_formatting_end_to_marker\(\)\s*\.iter\(\)\s*\.find\(\|&\(_, n, _\)\| self\.html_elem_named\(n, local_name!\("a"\)\)\)\s*\.map\(\|\(_, n, _\)\| n\.clone\(\)\)',
            'fmt_elem_named(&self.active_formatting.borrow(), local_name!("a"))', only=('TreeBuilder::handle_misnested_a_tags',), min_count=1),
    Rewrite('R13-mapmut', r'self\.position_in_active_formatting\(&node\)\s*\.map\(\|index\| self\.active_formatting\.borrow_mut\(\)\.remove\(index\)\);',
            'match self.position_in_active_formatting(&node) { Some(index) => { self.active_formatting.borrow_mut().remove(index); }, None => {} }', only=('TreeBuilder::handle_misnested_a_tags',), min_count=1),
    Rewrite('S-fragment-close', r'\}\s*\Z', '} }', only=('TreeBuilder::step__in_template',)),
    # R38: Option<Ref<Handle>> glue
]


def tb(name, **kw):
    return Item(H, 'fn', name, impl='TreeBuilder', wrap='impl TreeBuilder', **kw)


def _assume(p):
    if isinstance(p, Item) and p.kind == 'fn' and p.mode == 'verify':
        return dataclasses.replace(p, mode='assume')
    if isinstance(p, Fragment):
        return None
    return p


BASE = [q for q in (_assume(p) for p in u_fcontent.PARTS[:-1]) if q is not None]
PARTS = BASE + [
    Prelude('inbody.spec.rs'),
    tb('is_fragment'), tb('stop_parsing'), tb('to_raw_text_mode'), tb('parse_raw_data'), tb('handle_misnested_a_tags', mode='assume'),
    Fragment(R, 'step', 'TreeBuilder', r'InsertionMode::InTemplate => match token \{',
             'fn step__in_template(&mut self, token: Token) -> ProcessResult { match token', 'step__in_template', wrap='impl TreeBuilder'),
    Fragment(R, 'step', 'TreeBuilder', r'Token::Tag\(tag @ tag!\(</template>\)\) => \{',
             'fn step__in_head_end_template(&mut self, tag: Tag) -> ProcessResult', 'step__in_head_end_template', wrap='impl TreeBuilder'),
    Raw('} // verus!\nfn main() {}'),
]
DROPS = u_stack.DROPS + ['the enclosing dispatch of TreeBuilder::step (that these blocks run for exactly these modes / tokens is not verified)',
                         'the other insertion modes (`step` called from inside the block is an uninterpreted function)']
