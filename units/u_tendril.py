"""U-tendril: the logic of tendril::Tendril that sits above its raw-pointer representation layer (tendril/src/tendril.rs):
len32, is_shared, clear, try_push_bytes, push_tendril, try_subtendril, subtendril, try_pop_front, pop_front, try_pop_back,
pop_back, unsafe_subtendril, unsafe_pop_front, unsafe_pop_back - verified against the byte string each tendril stands for,
over an ASSUMED model of the representation layer (tendrilrep.prelude.rs).  Serves C11 (partially)."""
from unitgen import Raw, Prelude, Item, Rewrite

NAME = 'u_tendril'
PROPERTIES = ['C11']
CONTRACTS = 'u_tendril.contracts'
RLIMIT = 30
T = 'tendril/src/tendril.rs'

REWRITES = [
    Rewrite('R2-generics', r'Tendril<F, A>', 'Tendril'),
    # R6: the tagged pointer is read through an accessor of the model
    Rewrite('R6-tag', r'\b(self|other)\.ptr\.get\(\)\.get\(\)', r'\1.tag()', min_count=5),
    Rewrite('R6-tag', r'self\.ptr\.set\(inline_tag\(new_len\)\)', 'self.set_tag(inline_tag(new_len))', only=('Tendril::push_uninitialized',), min_count=1),
    Rewrite('R15-msg', r'\.expect\(OFLOW\)', '.unwrap()', only=('Tendril::push_uninitialized', 'Tendril::force_reserve')),
    Rewrite('R2-generics', r'let mut t: Tendril = Tendril::new\(\);', 'let mut t: Tendril = Tendril::new();'),
    Rewrite('R6-tag', r'self\.ptr\s*\.set\(unsafe \{ NonZeroUsize::new_unchecked\(EMPTY_TAG\) \}\)', 'self.set_tag(EMPTY_TAG)', only=('Tendril::clear',), min_count=6),
    # R1: interior mutability (ptr is a Cell, the union is an UnsafeCell) made explicit
    Rewrite('R1-receiver', r'unsafe fn unsafe_subtendril\(&self,', 'unsafe fn unsafe_subtendril(&mut self,', only=('Tendril::unsafe_subtendril',)),
    Rewrite('R1-receiver', r'pub fn try_subtendril\(\s*&self,', 'pub fn try_subtendril(&mut self,', only=('Tendril::try_subtendril',)),
    Rewrite('R1-receiver', r'pub fn subtendril\(&self,', 'pub fn subtendril(&mut self,', only=('Tendril::subtendril',)),
    # the format parameter: validity checks through model functions over an uninterpreted predicate
    Rewrite('R2-format', r'\bF::validate_(prefix|suffix|subseq)\(', r'f_validate_\1('),
    Rewrite('R2-format', r'\bF::validate\(', 'f_validate('),
    Rewrite('R2-format', r'\bF::char_indices\(', 'f_char_indices(', only=('Tendril::pop_front_char',), min_count=1),
    # R12: the scrutinee of a match with a guarded arm is bound first
    Rewrite('R12-scrutinee', r'match self\.tag\(\) \{', 'let __t = self.tag(); match __t {', only=('Tendril::len32',)),
    Rewrite('R11-constpat', r'\bEMPTY_TAG => 0,', '0xF => 0,', only=('Tendril::len32',)),
]


def t(name, **kw):
    return Item(T, 'fn', name, impl='Tendril', wrap='impl Tendril', **kw)


PARTS = [
    Raw('use vstd::prelude::*;\nuse vstd::slice::*;\nverus! {\n// ASSUMPTION: 64-bit target\nglobal size_of usize == 8;'),
    Item(T, 'enum', 'SubtendrilError', attrs='#[derive(Debug, PartialEq, Eq, Clone, Copy, Structural)]'),
    Prelude('tendrilrep.prelude.rs'),
    t('len32'), t('is_shared'), t('clear'), t('try_push_bytes'), t('push_tendril'),
    t('try_subtendril'), t('subtendril'), t('try_pop_front'), t('pop_front'), t('try_pop_back'), t('pop_back'),
    t('unsafe_subtendril'), t('unsafe_pop_front'), t('unsafe_pop_back'),
    Item(T, 'fn', 'inline_tag', rewrites=(Rewrite('R6-tag', r'-> NonZeroUsize', '-> usize'),
                                          Rewrite('R6-tag', r'unsafe \{ NonZeroUsize::new_unchecked\((.*)\) \}', r'\1'))),
    t('push_uninitialized'),
    t('pop_front_char'),
    t('from_byte_slice_without_validating'), t('try_from_byte_slice'), t('with_capacity'), t('force_reserve'), t('reserve'),
    Raw('} // verus!\nfn main() {}'),
]
DROPS = ['the format and atomicity type parameters (validity is an uninterpreted predicate; reference counts are not modelled)',
         'the representation layer itself (raw pointers, the union, Buf32): ASSUMED model', 'doc comments, #[inline]']
