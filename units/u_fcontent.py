"""U-fcontent: the rules for parsing tokens in foreign content (TreeBuilder::step_foreign, rules.rs), the break-out
(unexpected_start_tag_in_foreign_content), foreign_start_tag, "insert an element" (insert_element with form association,
insert_element_for, insert_and_pop_element_for, insert_phantom), append_text, append_comment.  Serves C02 (partially).

Built on U-stack's file: its functions are used here through the contracts U-stack proves."""
import dataclasses

import u_stack
from unitgen import Raw, Prelude, Item, Rewrite

NAME = 'u_fcontent'
PROPERTIES = ['C02']
CONTRACTS = 'u_fcontent.contracts'
SHARED_CONTRACTS = ['u_stack.contracts', 'u_aaa.contracts']
RLIMIT = 60
H = u_stack.H
R = 'html5ever/src/tree_builder/rules.rs'
TS = 'html5ever/src/tree_builder/tag_sets.rs'

MUT = ('append_text', 'append_comment', 'insert_element_for', 'insert_and_pop_element_for', 'insert_phantom', 'foreign_start_tag',
       'unexpected_start_tag_in_foreign_content', 'step_foreign', 'enter_foreign')
REWRITES = u_stack.REWRITES + [
    Rewrite('R1-receiver', r'(fn \w+(?:<[^>]*>)?\(\s*)&self\b', r'\1&mut self', only=tuple('TreeBuilder::' + n for n in MUT)),
    # R11: expanded names and atoms are held by value
    Rewrite('R11-byvalue', r'\*n\.ns\b', 'n.ns'),
    Rewrite('R11-byvalue', r'\*name\.ns\b', 'name.ns'),
    Rewrite('R11-byvalue', r'match \*name\.local \{', 'match name.local {'),
    # R6: `"..".to_tendril()` through the text model
    Rewrite('R6-totendril', r'"\\u\{fffd\}"\.to_tendril\(\)', 'StrTendril::from_slice("\\\\u{fffd}")', min_count=1),
    # R37: `.iter().any(closure)` on an attribute list
    Rewrite('R37-any', r'\b(tag\.attrs|attrs)\s*\.iter\(\)\s*\.any\(', r'vec_any(&\1, ', min_count=2),
    # R39: local tag sets of insert_element
    Rewrite('R39-localset', r'declare_tag_set!\(form_associatable =[^;]*;', '', min_count=1),
    Rewrite('R39-localset', r'declare_tag_set!\(listed = [^;]*\);', '', min_count=1),
    # R12: a loop condition that contains a closure with a block body is parenthesised (Verus's parser needs it)
    Rewrite('R12-parencond', r'while !self\.current_node_in\(\|n\| \{', 'while (!self.current_node_in(|n| {', only=('TreeBuilder::unexpected_start_tag_in_foreign_content',), min_count=1),
    Rewrite('R12-parencond', r'\)\s*\{(\s*)self\.pop\(\);', r')) {\1self.pop();', only=('TreeBuilder::unexpected_start_tag_in_foreign_content',), min_count=1),
    # R21: an argument that borrows `self` is bound first (evaluation order unchanged)
    Rewrite('R21-argtemp', r'self\.step\(self\.mode\.get\(\), Token::Tag\(tag\)\)', 'let __m = self.mode.get(); self.step(__m, Token::Tag(tag))', min_count=1),
]


def tb(name, **kw):
    return Item(H, 'fn', name, impl='TreeBuilder', wrap='impl TreeBuilder', **kw)


def _assume(p):
    if isinstance(p, Item) and p.kind == 'fn' and p.mode == 'verify':
        return dataclasses.replace(p, mode='assume')
    return p


BASE = [_assume(p) for p in u_stack.PARTS[:-1] if not (isinstance(p, Item) and p.kind == 'fn' and p.name == 'insert_element')]
PARTS = BASE + [
    Raw('pub mod tokenizer { pub use super::Tag; pub use super::TagKind::{StartTag, EndTag}; }'),
    Raw('macro_rules! expanded_name { ("", $local:tt) => { ExpandedName { ns: ns!(), local: local_name!($local) } }; ($ns:ident $local:tt) => { ExpandedName { ns: ns!($ns), local: local_name!($local) } }; }'),
    Item(R, 'macro', 'tag'),
    Prelude('fcontent.spec.rs'),
    Item(TS, 'fn', 'mathml_text_integration_point', mode='assume'),
    Item(TS, 'fn', 'svg_html_integration_point', mode='assume'),
    tb('insert_element'), tb('insert_element_for'), tb('insert_and_pop_element_for'), tb('insert_phantom'),
    tb('append_text'), tb('append_comment'), tb('foreign_start_tag'), tb('enter_foreign'), tb('unexpected_start_tag_in_foreign_content'),
    # facts about the token established by the match arms are used inside the end-tag loop (no loop isolation)
    Item(R, 'fn', 'step_foreign', impl='TreeBuilder', wrap='impl TreeBuilder', attrs='#[verifier::loop_isolation(false)]'),
    Raw('} // verus!\nfn main() {}'),
]
LOCAL_SETS = [
    u_stack.local_set_check(H, r'fn insert_element\(', 'form_associatable', 'tsl_form_associatable', 'is_form_associatable(p)'),
    u_stack.local_set_check(H, r'fn insert_element\(', 'listed', 'tsl_listed', 'is_form_associatable(p) && p.local != local_name!("img")', uses=('tsl_form_associatable',)),
]
PARTS = u_stack.with_local_sets(PARTS, LOCAL_SETS)

DROPS = u_stack.DROPS + ['the insertion-mode rules `step` (an uninterpreted function of state, mode and token)']
