"""U-meta: the tree builder's in-head rule for <base>/<basefont>/<bgsound>/<link>/<meta> (html5ever/src/tree_builder/rules.rs),
the match arm extracted as a fragment: which start tags raise an EncodingIndicator and with which label (C19)."""
from unitgen import Raw, Prelude, Item, Rewrite, Fragment, Atoms

NAME = 'u_meta'
PROPERTIES = ['C19']
CONTRACTS = 'u_meta.contracts'
SHARED_CONTRACTS = ['u_enc.contracts']
RLIMIT = 30
R = 'html5ever/src/tree_builder/rules.rs'

REWRITES = [
    # R13: Option::is_some_and / and_then with a closure or function value written out
    Rewrite('R13-is_some_and', r'tag\s*\.get_attribute\(&local_name!\("http-equiv"\)\)\s*\.is_some_and\(\|value\| value\.eq_ignore_ascii_case\("content-type"\)\)',
            'match tag.get_attribute(&local_name!("http-equiv")) { Some(value) => tendril_eq_ignore_ascii_case(&value, "content-type"), None => false }', min_count=1),
    Rewrite('R13-and_then', r'tag\s*\.get_attribute\(&local_name!\("content"\)\)\s*\.and_then\(extract_a_character_encoding_from_a_meta_element\)',
            'match tag.get_attribute(&local_name!("content")) { Some(__c) => extract_a_character_encoding_from_a_meta_element(__c), None => None }', min_count=1),
]

PARTS = [
    Atoms(),
    Raw('use vstd::prelude::*;\nuse vstd::slice::*;\nuse vstd::string::*;\nverus! {\n// ASSUMPTION: 64-bit target\nglobal size_of usize == 8;'),
    Prelude('enc.prelude.rs'),
    Prelude('meta.prelude.rs'),
    Item('html5ever/src/encoding.rs', 'fn', 'extract_a_character_encoding_from_a_meta_element', mode='assume', unit_rewrites=False,
         rewrites=(Rewrite('R-vis', r'\bpub\(crate\)\s+', 'pub '),)),
    Fragment(R, 'step', 'TreeBuilder', r'Token::Tag\(tag @ tag!\(<base> \| <basefont> \| <bgsound> \| <link> \| <meta>\)\) => \{',
             'fn step__in_head_meta(&mut self, tag: Tag) -> ProcessResult', 'step__in_head_meta', wrap='impl TreeBuilder'),
    Raw('} // verus!\nfn main() {}'),
]
DROPS = ['the enclosing dispatch of TreeBuilder::step (that this arm runs for these five start tags in the "in head" mode is not verified)',
         'the TreeBuilder struct and Tag (model types)', 'ProcessResult reduced to the variants the arm produces']
