"""U-bq: markup5ever/util/buffer_queue.rs over the real std VecDeque (C13)."""
from unitgen import Raw, Prelude, Item, Rewrite

NAME = 'u_bq'
PROPERTIES = ['C13']
CONTRACTS = 'u_bq.contracts'
RLIMIT = 30
F = 'markup5ever/util/buffer_queue.rs'

REWRITES = [
    # R1: interior mutability made explicit
    Rewrite('R1-receiver', r'\(&self\b', '(&mut self', only=(
        'BufferQueue::pop_front', 'BufferQueue::push_front', 'BufferQueue::push_back',
        'BufferQueue::pop_except_from', 'BufferQueue::eat', 'BufferQueue::next')),
    # R3-deref: explicit deref of the tendril shim where the code relies on Deref<Target=str>
    Rewrite('R3-deref', r'nonmember_prefix_len\(buf\)', 'nonmember_prefix_len(buf.as_str())'),
    # R7: str::bytes()
    Rewrite('R7-bytes', r'for (\w+) in (\w+)\.bytes\(\) \{', r'for __b in __it: \2.as_bytes().iter() { let \1 = *__b;'),
    # S-iterlabel: name the ghost iterator of a range loop so that its invariant can mention the position (spec-only)
    Rewrite('S-iterlabel', r'for _ in 0\.\.buffers_exhausted \{', 'for _ in __it2: 0..buffers_exhausted {'),
    # R14: assert_eq!(a, b) -> assert!(a == b)  (same panic condition; Verus has no spec for core::panicking::assert_failed)
    Rewrite('R14-assert_eq', r'assert_eq!\((\w+), (\w+)\)', r'assert!(\1 == \2)'),
    # R9: debug_assert! with an iterator adaptor is debug-only code; the fact it checks is BufferQueue::wf
    Rewrite('R9-debug_assert', r'debug_assert!\(\s*!self\.buffers\.borrow\(\)\.iter\(\)\.any\(\|el\| el\.len32\(\) == 0\),\s*"(?:[^"\\]|\\.)*"\s*,?\s*\);',
            '', min_count=1),
]

def it(name, **kw):
    return Item(F, 'fn', name, impl='BufferQueue', wrap='impl BufferQueue', **kw)

PARTS = [
    Raw('#![feature(allocator_api)]\nuse vstd::prelude::*;\nuse vstd::string::*;\nuse std::collections::VecDeque;\nverus! {'),
    Prelude('small.prelude.rs'),
    Prelude('std.prelude.rs'),
    Prelude('cells.prelude.rs'),
    Prelude('tendril.prelude.rs'),
    Prelude('bqspec.prelude.rs'),
    Item(F, 'enum', 'SetResult'),
    Raw('pub use SetResult::{FromSet, NotFromSet};'),
    Item(F, 'struct', 'BufferQueue'),
    Item('markup5ever/util/smallcharset.rs', 'fn', 'nonmember_prefix_len', impl='SmallCharSet', wrap='impl SmallCharSet',
         mode='assume'),
    it('is_empty'), it('pop_front'), it('push_front'), it('push_back'), it('peek'),
    it('pop_except_from'), it('next'), it('eat'),
    Raw('} // verus!\nfn main() {}'),
]

DROPS = ['doc comments and #[derive]/#[inline] attributes',
         'the debug-only debug_assert! in BufferQueue::peek (the fact it checks is the invariant BufferQueue::wf, proved preserved by every operation)',
         'BufferQueue::{replace_with, swap_with, peek_front_chunk_mut (RefMut::map), Default}']
