"""U-aaa: TreeBuilder::adoption_agency (html5ever/src/tree_builder/mod.rs) against the standard's adoption agency algorithm
(aaa.spec.rs: steps 1-4.19 written as recursive spec functions over the stack of open elements, the list of active formatting
elements and the log of DOM operations).  Serves C02 (partially).

The generated file is the one of U-stack with the modes exchanged: here adoption_agency is verified and the functions it
calls (pop, current_node_named, position_in_active_formatting, in_scope, process_end_tag_in_body, insert_appropriately,
remove_from_stack, ...) are used through the contracts that U-stack proves.  (Verified inside U-stack's file the same query
costs 20x more solver time; nothing else differs.)"""
import dataclasses

import u_stack
from unitgen import Item

NAME = 'u_aaa'
PROPERTIES = ['C02']
CONTRACTS = 'u_aaa.contracts'
SHARED_CONTRACTS = ['u_stack.contracts']
RLIMIT = 100
REWRITES = u_stack.REWRITES

VERIFY_HERE = ('TreeBuilder::adoption_agency',)


def _flip(p):
    if not isinstance(p, Item) or p.kind != 'fn':
        return p
    if p.q() in VERIFY_HERE:
        return dataclasses.replace(p, mode='verify', canary=True)
    if p.mode == 'verify':
        return dataclasses.replace(p, mode='assume')
    return p


PARTS = [_flip(p) for p in u_stack.PARTS]
DROPS = u_stack.DROPS
