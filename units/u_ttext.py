"""U-ttext: the "in table text" insertion mode (html5ever/src/tree_builder/rules.rs), the whole block (C02 partial, C04): panic-free
(`panic!("not prepared to handle this!")`, `orig_mode.take().unwrap()`) relative to the in-body rule for a character token, which is
an ASSUMED link here and a proved clause of U-inbody."""
from unitgen import Raw, Prelude, Rewrite, Fragment
import u_inbody
import u_table

NAME = 'u_ttext'
PROPERTIES = ['C02', 'C04']
CONTRACTS = 'u_ttext.contracts'
SHARED_CONTRACTS = u_inbody.SHARED_CONTRACTS
RLIMIT = 60
R = u_table.R
TT = ('TreeBuilder::step__in_table_text',)
REWRITES = [rw for rw in u_table.REWRITES if not (rw.only and all(o.startswith('TreeBuilder::step__') for o in rw.only))] + [
    Rewrite('S-fragment-close', r'\}\s*\Z', '} }', only=TT),
    # R37: the scan of the pending character tokens through a model function (ttext.spec.rs)
    Rewrite('R37-any', r'pending\.iter\(\)\.any\(\|&\(split, ref text\)\| match split \{.*?\}\)', 'pending_any_nonspace(&pending)', flags=16, only=TT, min_count=1),
    Rewrite('S-iterlabel', r'for \(split, text\) in pending\.into_iter\(\) \{', 'for (split, text) in __it1: pending.into_iter() {', only=TT, min_count=1),
    Rewrite('S-iterlabel', r'for \(_, text\) in pending\.into_iter\(\) \{', 'for (_, text) in __it2: pending.into_iter() {', only=TT, min_count=1),
    Rewrite('R15-msg', r'panic!\("not prepared to handle this!"\)', 'panic!("x")', only=TT),
]

PARTS = list(u_inbody.BASE) + [
    Prelude('ttext.spec.rs'),
    Fragment(R, 'step', 'TreeBuilder', r'InsertionMode::InTableText => match token \{',
             'fn step__in_table_text(&mut self, token: Token) -> ProcessResult { match token', 'step__in_table_text', wrap='impl TreeBuilder'),
    Raw('} // verus!\nfn main() {}'),
]
DROPS = u_inbody.DROPS
