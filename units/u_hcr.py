"""U-hcr: the HTML character-reference tokenizer (html5ever/src/tokenizer/char_ref/mod.rs, all 17 functions) and its
glue in the tokenizer (Tokenizer::step_char_ref_tokenizer) against the character-reference part of the WHATWG
machine (charref.spec.rs).  Serves C14, and the character-reference part of C01/C03/C04/C09.

The generated file is the one of U-htok with the modes exchanged: here the character-reference functions are
verified and the tokenizer's own functions are used through their contracts (which U-htok proves)."""
import dataclasses

import u_htok
from unitgen import Item

NAME = 'u_hcr'
PROPERTIES = ['C14', 'C01', 'C03', 'C04', 'C09']
CONTRACTS = 'u_hcr.contracts'
SHARED_CONTRACTS = ['u_htok.contracts', 'u_bq.contracts', 'u_small.contracts']
RLIMIT = 30
# the `ensures false` twins of these functions cost 4-5 minutes: thorough tier only
QUICK_CANARIES = False
REWRITES = u_htok.REWRITES

VERIFY_HERE = ('Tokenizer::step_char_ref_tokenizer',)


def _flip(p):
    if not isinstance(p, Item) or p.kind != 'fn':
        return p
    if p.impl == 'CharRefTokenizer' or p.q() in VERIFY_HERE:
        return dataclasses.replace(p, mode='verify', canary=True)
    if p.mode == 'verify':
        return dataclasses.replace(p, mode='assume', split=0)
    return p


PARTS = [_flip(p) for p in u_htok.PARTS]
DROPS = u_htok.DROPS
