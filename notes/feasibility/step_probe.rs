
use vstd::prelude::*;
verus! {

pub struct Cell<T> { pub v: T }
impl<T: Copy> Cell<T> {
    pub fn get(&self) -> (r: T) ensures r == self.v { self.v }
    pub fn set(&mut self, x: T) ensures final(self).v == x { self.v = x; }
}
pub struct RefCell<T> { pub v: T }
impl<T> RefCell<T> {
    pub fn borrow(&self) -> (r: &T) ensures *r == self.v { &self.v }
    pub fn borrow_mut(&mut self) -> (r: &mut T) ensures *r == old(self).v, *final(r) == final(self).v { &mut self.v }
}

pub struct StrTendril { pub s: Vec<char> }
impl StrTendril {
    #[verifier::external_body]
    pub fn push_char(&mut self, c: char) ensures final(self).s@ == old(self).s@.push(c) { unimplemented!() }
    #[verifier::external_body]
    pub fn clear(&mut self) ensures final(self).s@.len() == 0 { unimplemented!() }
    #[verifier::external_body]
    pub fn push_tendril(&mut self, o: &StrTendril) ensures final(self).s@ == old(self).s@ + o.s@ { unimplemented!() }
    #[verifier::external_body]
    pub fn push_slice(&mut self, o: &str) { unimplemented!() }
    #[verifier::external_body]
    pub fn eq_str(&self, o: &str) -> bool { unimplemented!() }
    #[verifier::external_body]
    pub fn chars(&self) -> std::str::Chars<'_> { unimplemented!() }
    #[verifier::external_body]
    pub fn is_empty(&self) -> bool { unimplemented!() }
}

pub assume_specification<T> [std::mem::drop] (_0: T) where T: std::marker::Destruct;
pub open spec fn spec_lower(c: char) -> char { if 'A' <= c <= 'Z' { ((c as u32) + 32) as char } else { c } }
pub assume_specification [char::to_ascii_lowercase] (c: &char) -> (r: char) ensures r == spec_lower(*c);
pub struct SmallCharSet { pub bits: u64 }
pub enum SetResult { FromSet(char), NotFromSet(StrTendril) }
pub use SetResult::*;
pub struct BufferQueue { pub q: Vec<char> }
impl BufferQueue { #[verifier::external_body] pub fn peek_front_chunk_mut(&mut self) -> Option<&mut StrTendril> { unimplemented!() }
 #[verifier::external_body] pub fn pop_front(&mut self) -> Option<StrTendril> { unimplemented!() } }
pub struct TokenizerOpts { pub exact_errors: bool }


#[derive(PartialEq, Eq, Copy, Clone, Structural)]
pub enum ScriptEscapeKind {
    Escaped,
    DoubleEscaped,
}

#[derive(PartialEq, Eq, Copy, Clone, Structural)]
pub enum DoctypeIdKind {
    Public,
    System,
}

#[derive(PartialEq, Eq, Copy, Clone, Structural)]
pub enum RawKind {
    Rcdata,
    Rawtext,
    ScriptData,
    ScriptDataEscaped(ScriptEscapeKind),
}

#[derive(PartialEq, Eq, Copy, Clone, Structural)]
pub enum AttrValueKind {
    Unquoted,
    SingleQuoted,
    DoubleQuoted,
}

#[derive(PartialEq, Eq, Copy, Clone, Structural)]
pub enum State {
    /// <https://html.spec.whatwg.org/#data-state>
    Data,
    /// <https://html.spec.whatwg.org/#plaintext-state>
    Plaintext,
    /// <https://html.spec.whatwg.org/#tag-open-state>
    TagOpen,
    /// <https://html.spec.whatwg.org/#tag-open-state>
    EndTagOpen,
    /// <https://html.spec.whatwg.org/#tag-name-state>
    TagName,
    RawData(RawKind),
    RawLessThanSign(RawKind),
    RawEndTagOpen(RawKind),
    RawEndTagName(RawKind),
    ScriptDataEscapeStart(ScriptEscapeKind),
    /// <https://html.spec.whatwg.org/#script-data-escape-start-dash-state>
    ScriptDataEscapeStartDash,
    ScriptDataEscapedDash(ScriptEscapeKind),
    ScriptDataEscapedDashDash(ScriptEscapeKind),
    /// <https://html.spec.whatwg.org/#script-data-double-escape-end-state>
    ScriptDataDoubleEscapeEnd,
    /// <https://html.spec.whatwg.org/#before-attribute-name-state>
    BeforeAttributeName,
    /// <https://html.spec.whatwg.org/#attribute-name-state>
    AttributeName,
    /// <https://html.spec.whatwg.org/#after-attribute-name-state>
    AfterAttributeName,
    /// <https://html.spec.whatwg.org/#before-attribute-value-state>
    BeforeAttributeValue,
    AttributeValue(AttrValueKind),
    /// <https://html.spec.whatwg.org/#after-attribute-value-(quoted)-state>
    AfterAttributeValueQuoted,
    /// <https://html.spec.whatwg.org/#self-closing-start-tag-state>
    SelfClosingStartTag,
    /// <https://html.spec.whatwg.org/#bogus-comment-state>
    BogusComment,
    /// <https://html.spec.whatwg.org/#markup-declaration-open-state>
    MarkupDeclarationOpen,
    /// <https://html.spec.whatwg.org/#comment-start-state>
    CommentStart,
    /// <https://html.spec.whatwg.org/#comment-start-dash-state>
    CommentStartDash,
    /// <https://html.spec.whatwg.org/#comment-state>
    Comment,
    /// <https://html.spec.whatwg.org/#comment-less-than-sign-state>
    CommentLessThanSign,
    /// <https://html.spec.whatwg.org/#comment-less-than-sign-bang-state>
    CommentLessThanSignBang,
    /// <https://html.spec.whatwg.org/#comment-less-than-sign-bang-dash-state>
    CommentLessThanSignBangDash,
    /// <https://html.spec.whatwg.org/#comment-less-than-sign-bang-dash-dash-state>
    CommentLessThanSignBangDashDash,
    /// <https://html.spec.whatwg.org/#comment-end-dash-state>
    CommentEndDash,
    /// <https://html.spec.whatwg.org/#comment-end-state>
    CommentEnd,
    /// <https://html.spec.whatwg.org/#comment-end-bang-state>
    CommentEndBang,
    /// <https://html.spec.whatwg.org/#doctype-state>
    Doctype,
    /// <https://html.spec.whatwg.org/#before-doctype-name-state>
    BeforeDoctypeName,
    /// <https://html.spec.whatwg.org/#doctype-name-state>
    DoctypeName,
    /// <https://html.spec.whatwg.org/#after-doctype-name-state>
    AfterDoctypeName,
    AfterDoctypeKeyword(DoctypeIdKind),
    BeforeDoctypeIdentifier(DoctypeIdKind),
    DoctypeIdentifierDoubleQuoted(DoctypeIdKind),
    DoctypeIdentifierSingleQuoted(DoctypeIdKind),
    AfterDoctypeIdentifier(DoctypeIdKind),
    /// <https://html.spec.whatwg.org/#between-doctype-public-and-system-identifiers-state>
    BetweenDoctypePublicAndSystemIdentifiers,
    /// <https://html.spec.whatwg.org/#bogus-doctype-state>
    BogusDoctype,
    /// <https://html.spec.whatwg.org/#cdata-section-state>
    CdataSection,
    /// <https://html.spec.whatwg.org/#cdata-section-bracket-state>
    CdataSectionBracket,
    /// <https://html.spec.whatwg.org/#cdata-section-end-state>
    CdataSectionEnd,
}


pub mod states { pub use super::State; pub use super::State::*; pub use super::RawKind::*; pub use super::AttrValueKind::*; pub use super::ScriptEscapeKind::*; pub use super::DoctypeIdKind::*; pub use super::{RawKind,AttrValueKind,ScriptEscapeKind,DoctypeIdKind}; }
pub use State::*;
pub use AttrValueKind::*;
pub use DoctypeIdKind::*;
pub use RawKind::*;
pub use ScriptEscapeKind::*;

#[derive(PartialEq, Eq, Copy, Clone, Structural)]
pub enum TagKind { StartTag, EndTag }
pub use TagKind::*;

pub enum ProcessResult { Continue, Suspend, Script, EncodingIndicator }

pub struct Sink { pub x: u8 }
impl Sink {
    #[verifier::external_body]
    pub fn adjusted_current_node_present_but_not_in_html_namespace(&self) -> bool { unimplemented!() }
}
pub struct Doctype { pub name: Option<StrTendril>, pub force_quirks: bool }
impl Doctype { #[verifier::external_body] pub fn default() -> Doctype { unimplemented!() } }
pub struct CharRefTokenizer { pub x: u8 }

pub struct Tokenizer {
    pub sink: Sink,
    pub opts: TokenizerOpts,
    pub ignore_lf: Cell<bool>,
    pub state: Cell<states::State>,
    pub char_ref_tokenizer: RefCell<Option<CharRefTokenizer>>,
    pub reconsume: Cell<bool>,
    pub current_char: Cell<char>,
    pub current_tag_name: RefCell<StrTendril>,
    pub current_tag_self_closing: Cell<bool>,
    pub current_attr_name: RefCell<StrTendril>,
    pub current_attr_value: RefCell<StrTendril>,
    pub current_comment: RefCell<StrTendril>,
    pub current_doctype: RefCell<Doctype>,
    pub temp_buf: RefCell<StrTendril>,
}

#[verifier::external_body]
pub fn lower_ascii_letter(c: char) -> Option<char> { unimplemented!() }
#[verifier::external_body]
pub fn option_push(o: &mut Option<StrTendril>, c: char) { unimplemented!() }

impl Tokenizer {
    #[verifier::external_body] fn get_char(&mut self, input: &mut BufferQueue) -> Option<char> { unimplemented!() }
    #[verifier::external_body] fn peek(&mut self, input: &mut BufferQueue) -> Option<char> { unimplemented!() }
    #[verifier::external_body] fn eat(&mut self, input: &mut BufferQueue, pat: &str, eq: bool) -> Option<bool> { unimplemented!() }
    #[verifier::external_body] fn pop_except_from(&mut self, input: &mut BufferQueue, set: SmallCharSet) -> Option<SetResult> { unimplemented!() }
    #[verifier::external_body] fn discard_char(&mut self, input: &mut BufferQueue) { unimplemented!() }
    #[verifier::external_body] fn bad_char_error(&mut self) { unimplemented!() }
    #[verifier::external_body] fn bad_eof_error(&mut self) { unimplemented!() }
    #[verifier::external_body] fn emit_char(&mut self, c: char) { unimplemented!() }
    #[verifier::external_body] fn emit_chars(&mut self, b: StrTendril) { unimplemented!() }
    #[verifier::external_body] fn emit_temp_buf(&mut self) { unimplemented!() }
    #[verifier::external_body] fn clear_temp_buf(&mut self) { unimplemented!() }
    #[verifier::external_body] fn emit_current_comment(&mut self) { unimplemented!() }
    #[verifier::external_body] fn emit_current_doctype(&mut self) { unimplemented!() }
    #[verifier::external_body] fn emit_current_tag(&mut self) -> ProcessResult { unimplemented!() }
    #[verifier::external_body] fn emit_eof(&mut self) { unimplemented!() }
    #[verifier::external_body] fn discard_tag(&mut self) { unimplemented!() }
    #[verifier::external_body] fn create_tag(&mut self, kind: TagKind, c: char) { unimplemented!() }
    #[verifier::external_body] fn create_attribute(&mut self, c: char) { unimplemented!() }
    #[verifier::external_body] fn clear_doctype_id(&mut self, k: DoctypeIdKind) { unimplemented!() }
    #[verifier::external_body] fn doctype_id(&mut self, k: DoctypeIdKind) -> &mut Option<StrTendril> { unimplemented!() }
    #[verifier::external_body] fn is_supported_simd_feature_detected() -> bool { unimplemented!() }
    #[verifier::external_body] unsafe fn data_state_simd_fast_path(&mut self, input: &mut StrTendril) -> Option<SetResult> { unimplemented!() }
    #[verifier::external_body] fn have_appropriate_end_tag(&self) -> bool { unimplemented!() }
    #[verifier::external_body] fn start_consuming_character_reference(&mut self) { unimplemented!() }
    #[verifier::external_body] fn step_char_ref_tokenizer(&mut self, input: &mut BufferQueue) -> ProcessResult { unimplemented!() }
}
} // verus!

macro_rules! trace { ($($t:tt)*) => {} }
macro_rules! debug { ($($t:tt)*) => {} }
macro_rules! small_char_set ( ($($e:expr)+) => ( SmallCharSet { bits: $( (1 << ($e as usize)) )|+ } ));
macro_rules! unwrap_or_return { ($opt:expr, $retval:expr) => {{ let Some(x) = $opt else { return $retval; }; x }}; }
// Shorthand for common state machine behaviors.
macro_rules! shorthand (
    ( $me:ident : create_tag $kind:ident $c:expr   ) => ( $me.create_tag($kind, $c)                           );
    ( $me:ident : push_tag $c:expr                 ) => ( $me.current_tag_name.borrow_mut().push_char($c)     );
    ( $me:ident : discard_tag                      ) => ( $me.discard_tag()                                   );
    ( $me:ident : discard_char $input:expr         ) => ( $me.discard_char($input)                            );
    ( $me:ident : push_temp $c:expr                ) => ( $me.temp_buf.borrow_mut().push_char($c)             );
    ( $me:ident : clear_temp                       ) => ( $me.clear_temp_buf()                                );
    ( $me:ident : create_attr $c:expr              ) => ( $me.create_attribute($c)                            );
    ( $me:ident : push_name $c:expr                ) => ( $me.current_attr_name.borrow_mut().push_char($c)    );
    ( $me:ident : push_value $c:expr               ) => ( $me.current_attr_value.borrow_mut().push_char($c)   );
    ( $me:ident : append_value $c:expr             ) => ( $me.current_attr_value.borrow_mut().push_tendril($c));
    ( $me:ident : push_comment $c:expr             ) => ( $me.current_comment.borrow_mut().push_char($c)      );
    ( $me:ident : append_comment $c:expr           ) => ( $me.current_comment.borrow_mut().push_slice($c)     );
    ( $me:ident : emit_comment                     ) => ( $me.emit_current_comment()                          );
    ( $me:ident : clear_comment                    ) => ( $me.current_comment.borrow_mut().clear()            );
    ( $me:ident : create_doctype                   ) => ( *$me.current_doctype.borrow_mut() = Doctype::default() );
    ( $me:ident : push_doctype_name $c:expr        ) => ( option_push(&mut $me.current_doctype.borrow_mut().name, $c) );
    ( $me:ident : push_doctype_id $k:ident $c:expr ) => ( option_push(&mut $me.doctype_id($k), $c)            );
    ( $me:ident : clear_doctype_id $k:ident        ) => ( $me.clear_doctype_id($k)                            );
    ( $me:ident : force_quirks                     ) => ( $me.current_doctype.borrow_mut().force_quirks = true);
    ( $me:ident : emit_doctype                     ) => ( $me.emit_current_doctype()                          );
);

// Tracing of tokenizer actions.  This adds significant bloat and compile time,
// so it's behind a cfg flag.
#[cfg(feature = "trace_tokenizer")]
macro_rules! sh_trace ( ( $me:ident : $($cmds:tt)* ) => ({
    trace!("  {:?}", stringify!($($cmds)*));
    shorthand!($me : $($cmds)*);
}));

#[cfg(not(feature = "trace_tokenizer"))]
macro_rules! sh_trace ( ( $me:ident : $($cmds:tt)* ) => ( shorthand!($me: $($cmds)*) ) );

// A little DSL for sequencing shorthand actions.
macro_rules! go (
    // A pattern like $($cmd:tt)* ; $($rest:tt)* causes parse ambiguity.
    // We have to tell the parser how much lookahead we need.

    ( $me:ident : $a:tt                   ; $($rest:tt)* ) => ({ sh_trace!($me: $a);          go!($me: $($rest)*); });
    ( $me:ident : $a:tt $b:tt             ; $($rest:tt)* ) => ({ sh_trace!($me: $a $b);       go!($me: $($rest)*); });
    ( $me:ident : $a:tt $b:tt $c:tt       ; $($rest:tt)* ) => ({ sh_trace!($me: $a $b $c);    go!($me: $($rest)*); });
    ( $me:ident : $a:tt $b:tt $c:tt $d:tt ; $($rest:tt)* ) => ({ sh_trace!($me: $a $b $c $d); go!($me: $($rest)*); });

    // These can only come at the end.

    ( $me:ident : to $s:expr                  ) => ({ $me.state.set($s); return ProcessResult::Continue;                });
    ( $me:ident : reconsume $s:expr           ) => ({ $me.reconsume.set(true); go!($me: to $s);                                 });
    ( $me:ident : consume_char_ref             ) => ({ $me.start_consuming_character_reference(); return ProcessResult::Continue;});

    // We have a default next state after emitting a tag, but the sink can override.
    ( $me:ident : emit_tag $s:ident ) => ({
        $me.state.set(states::$s);
        return $me.emit_current_tag();
    });

    ( $me:ident : eof ) => ({ $me.emit_eof(); return ProcessResult::Suspend; });

    // If nothing else matched, it's a single command
    ( $me:ident : $($cmd:tt)+ ) => ( sh_trace!($me: $($cmd)+) );

    // or nothing.
    ( $me:ident : ) => (());
);

// This is a macro because it can cause early return
// from the function where it is used.
macro_rules! get_char ( ($me:expr, $input:expr) => (
    unwrap_or_return!($me.get_char($input), ProcessResult::Suspend)
));

macro_rules! peek ( ($me:expr, $input:expr) => (
    unwrap_or_return!($me.peek($input), ProcessResult::Suspend)
));

macro_rules! eat ( ($me:expr, $input:expr, $pat:expr) => (
    unwrap_or_return!($me.eat($input, $pat, true), ProcessResult::Suspend)
));

macro_rules! eat_exact ( ($me:expr, $input:expr, $pat:expr) => (
    unwrap_or_return!($me.eat($input, $pat, false), ProcessResult::Suspend)
));
verus! {
impl Tokenizer {
    #[verifier::exec_allows_no_decreases_clause]
    fn step(&mut self, input: &mut BufferQueue) -> ProcessResult {
        if self.char_ref_tokenizer.borrow().is_some() {
            return self.step_char_ref_tokenizer(input);
        }

        trace!("processing in state {:?}", self.state);
        match self.state.get() {
            //§ data-state
            states::Data => loop {
                let set = small_char_set!('\r' '\0' '&' '<' '\n');

                #[cfg(any(target_arch = "x86", target_arch = "x86_64", target_arch = "aarch64"))]
                let set_result = if !(self.opts.exact_errors
                    || self.reconsume.get()
                    || self.ignore_lf.get())
                    && Self::is_supported_simd_feature_detected()
                {
                    let front_buffer = input.peek_front_chunk_mut();
                    let Some(mut front_buffer) = front_buffer else {
                        return ProcessResult::Suspend;
                    };

                    // Special case: The fast path is not worth taking if the first character is already in the set,
                    // which is fairly common
                    let first_char = front_buffer
                        .chars()
                        .next()
                        .expect("Input buffers are never empty");

                    if matches!(first_char, '\r' | '\0' | '&' | '<' | '\n') {
                        drop(front_buffer);
                        self.pop_except_from(input, set)
                    } else {
                        // SAFETY:
                        // This CPU is guaranteed to support SIMD due to the is_supported_simd_feature_detected check above
                        let result = unsafe { self.data_state_simd_fast_path(&mut front_buffer) };

                        if front_buffer.is_empty() {
                            drop(front_buffer);
                            input.pop_front();
                        }

                        result
                    }
                } else {
                    self.pop_except_from(input, set)
                };

                #[cfg(not(any(
                    target_arch = "x86",
                    target_arch = "x86_64",
                    target_arch = "aarch64"
                )))]
                let set_result = self.pop_except_from(input, set);

                let Some(set_result) = set_result else {
                    return ProcessResult::Suspend;
                };
                match set_result {
                    FromSet('\0') => {
                        self.bad_char_error();
                        self.emit_char('\0');
                    },
                    FromSet('&') => go!(self: consume_char_ref),
                    FromSet('<') => go!(self: to State::TagOpen),
                    FromSet(c) => {
                        self.emit_char(c);
                    },
                    NotFromSet(b) => self.emit_chars(b),
                }
            },

            //§ rcdata-state
            states::RawData(Rcdata) => loop {
                let Some(set_result) =
                    self.pop_except_from(input, small_char_set!('\r' '\0' '&' '<' '\n'))
                else {
                    return ProcessResult::Suspend;
                };

                match set_result {
                    FromSet('\0') => {
                        self.bad_char_error();
                        self.emit_char('\u{fffd}');
                    },
                    FromSet('&') => go!(self: consume_char_ref),
                    FromSet('<') => go!(self: to State::RawLessThanSign(Rcdata)),
                    FromSet(c) => self.emit_char(c),
                    NotFromSet(b) => self.emit_chars(b),
                }
            },

            //§ rawtext-state
            states::RawData(Rawtext) => loop {
                let Some(set_result) =
                    self.pop_except_from(input, small_char_set!('\r' '\0' '<' '\n'))
                else {
                    return ProcessResult::Suspend;
                };

                match set_result {
                    FromSet('\0') => {
                        self.bad_char_error();
                        self.emit_char('\u{fffd}');
                    },
                    FromSet('<') => go!(self: to State::RawLessThanSign(Rawtext)),
                    FromSet(c) => self.emit_char(c),
                    NotFromSet(b) => self.emit_chars(b),
                }
            },

            //§ script-data-state
            states::RawData(ScriptData) => loop {
                let Some(set_result) =
                    self.pop_except_from(input, small_char_set!('\r' '\0' '<' '\n'))
                else {
                    return ProcessResult::Suspend;
                };

                match set_result {
                    FromSet('\0') => {
                        self.bad_char_error();
                        self.emit_char('\u{fffd}');
                    },
                    FromSet('<') => go!(self: to State::RawLessThanSign(ScriptData)),
                    FromSet(c) => self.emit_char(c),
                    NotFromSet(b) => self.emit_chars(b),
                }
            },

            //§ script-data-escaped-state
            states::RawData(ScriptDataEscaped(Escaped)) => loop {
                let Some(set_result) =
                    self.pop_except_from(input, small_char_set!('\r' '\0' '-' '<' '\n'))
                else {
                    return ProcessResult::Suspend;
                };

                match set_result {
                    FromSet('\0') => {
                        self.bad_char_error();
                        self.emit_char('\u{fffd}');
                    },
                    FromSet('-') => {
                        self.emit_char('-');
                        go!(self: to State::ScriptDataEscapedDash(Escaped));
                    },
                    FromSet('<') => {
                        go!(self: to State::RawLessThanSign(ScriptDataEscaped(Escaped)))
                    },
                    FromSet(c) => self.emit_char(c),
                    NotFromSet(b) => self.emit_chars(b),
                }
            },

            //§ script-data-double-escaped-state
            states::RawData(ScriptDataEscaped(DoubleEscaped)) => loop {
                let Some(set_result) =
                    self.pop_except_from(input, small_char_set!('\r' '\0' '-' '<' '\n'))
                else {
                    return ProcessResult::Suspend;
                };

                match set_result {
                    FromSet('\0') => {
                        self.bad_char_error();
                        self.emit_char('\u{fffd}');
                    },
                    FromSet('-') => {
                        self.emit_char('-');
                        go!(self: to State::ScriptDataEscapedDash(DoubleEscaped));
                    },
                    FromSet('<') => {
                        self.emit_char('<');
                        go!(self: to State::RawLessThanSign(ScriptDataEscaped(DoubleEscaped)))
                    },
                    FromSet(c) => self.emit_char(c),
                    NotFromSet(b) => self.emit_chars(b),
                }
            },

            //§ plaintext-state
            states::Plaintext => loop {
                let Some(set_result) = self.pop_except_from(input, small_char_set!('\r' '\0' '\n'))
                else {
                    return ProcessResult::Suspend;
                };

                match set_result {
                    FromSet('\0') => {
                        self.bad_char_error();
                        self.emit_char('\u{fffd}');
                    },
                    FromSet(c) => self.emit_char(c),
                    NotFromSet(b) => self.emit_chars(b),
                }
            },

            //§ tag-open-state
            states::TagOpen => loop {
                match get_char!(self, input) {
                    '!' => go!(self: to State::MarkupDeclarationOpen),
                    '/' => go!(self: to State::EndTagOpen),
                    '?' => {
                        self.bad_char_error();
                        go!(self: clear_comment; reconsume BogusComment)
                    },
                    c => match lower_ascii_letter(c) {
                        Some(cl) => go!(self: create_tag StartTag cl; to State::TagName),
                        None => {
                            self.bad_char_error();
                            self.emit_char('<');
                            go!(self: reconsume Data)
                        },
                    },
                }
            },

            //§ end-tag-open-state
            states::EndTagOpen => loop {
                match get_char!(self, input) {
                    '>' => {
                        self.bad_char_error();
                        go!(self: to State::Data)
                    },
                    c => match lower_ascii_letter(c) {
                        Some(cl) => go!(self: create_tag EndTag cl; to State::TagName),
                        None => {
                            self.bad_char_error();
                            go!(self: clear_comment; reconsume BogusComment)
                        },
                    },
                }
            },

            //§ tag-name-state
            states::TagName => loop {
                match get_char!(self, input) {
                    '\t' | '\n' | '\x0C' | ' ' => go!(self: to State::BeforeAttributeName),
                    '/' => go!(self: to State::SelfClosingStartTag),
                    '>' => go!(self: emit_tag Data),
                    '\0' => {
                        self.bad_char_error();
                        go!(self: push_tag '\u{fffd}')
                    },
                    c => go!(self: push_tag (c.to_ascii_lowercase())),
                }
            },

            //§ script-data-escaped-less-than-sign-state
            states::RawLessThanSign(ScriptDataEscaped(Escaped)) => loop {
                match get_char!(self, input) {
                    '/' => {
                        go!(self: clear_temp; to State::RawEndTagOpen(ScriptDataEscaped(Escaped)))
                    },
                    c => match lower_ascii_letter(c) {
                        Some(cl) => {
                            go!(self: clear_temp; push_temp cl);
                            self.emit_char('<');
                            self.emit_char(c);
                            go!(self: to State::ScriptDataEscapeStart(DoubleEscaped));
                        },
                        None => {
                            self.emit_char('<');
                            go!(self: reconsume RawData(ScriptDataEscaped(Escaped)));
                        },
                    },
                }
            },

            //§ script-data-double-escaped-less-than-sign-state
            states::RawLessThanSign(ScriptDataEscaped(DoubleEscaped)) => loop {
                match get_char!(self, input) {
                    '/' => {
                        go!(self: clear_temp);
                        self.emit_char('/');
                        go!(self: to State::ScriptDataDoubleEscapeEnd);
                    },
                    _ => go!(self: reconsume RawData(ScriptDataEscaped(DoubleEscaped))),
                }
            },

            //§ rcdata-less-than-sign-state rawtext-less-than-sign-state script-data-less-than-sign-state
            // otherwise
            states::RawLessThanSign(kind) => loop {
                match get_char!(self, input) {
                    '/' => go!(self: clear_temp; to State::RawEndTagOpen(kind)),
                    '!' if kind == ScriptData => {
                        self.emit_char('<');
                        self.emit_char('!');
                        go!(self: to State::ScriptDataEscapeStart(Escaped));
                    },
                    _ => {
                        self.emit_char('<');
                        go!(self: reconsume RawData(kind));
                    },
                }
            },

            //§ rcdata-end-tag-open-state rawtext-end-tag-open-state script-data-end-tag-open-state script-data-escaped-end-tag-open-state
            states::RawEndTagOpen(kind) => loop {
                let c = get_char!(self, input);
                match lower_ascii_letter(c) {
                    Some(cl) => {
                        go!(self: create_tag EndTag cl; push_temp c; to State::RawEndTagName(kind))
                    },
                    None => {
                        self.emit_char('<');
                        self.emit_char('/');
                        go!(self: reconsume RawData(kind));
                    },
                }
            },

            //§ rcdata-end-tag-name-state rawtext-end-tag-name-state script-data-end-tag-name-state script-data-escaped-end-tag-name-state
            states::RawEndTagName(kind) => loop {
                let c = get_char!(self, input);
                if self.have_appropriate_end_tag() {
                    match c {
                        '\t' | '\n' | '\x0C' | ' ' => {
                            go!(self: clear_temp; to State::BeforeAttributeName)
                        },
                        '/' => go!(self: clear_temp; to State::SelfClosingStartTag),
                        '>' => go!(self: clear_temp; emit_tag Data),
                        _ => (),
                    }
                }

                match lower_ascii_letter(c) {
                    Some(cl) => go!(self: push_tag cl; push_temp c),
                    None => {
                        go!(self: discard_tag);
                        self.emit_char('<');
                        self.emit_char('/');
                        self.emit_temp_buf();
                        go!(self: reconsume RawData(kind));
                    },
                }
            },

            //§ script-data-double-escape-start-state
            states::ScriptDataEscapeStart(DoubleEscaped) => loop {
                let c = get_char!(self, input);
                match c {
                    '\t' | '\n' | '\x0C' | ' ' | '/' | '>' => {
                        let esc = if self.temp_buf.borrow().eq_str("script") {
                            DoubleEscaped
                        } else {
                            Escaped
                        };
                        self.emit_char(c);
                        go!(self: to State::RawData(ScriptDataEscaped(esc)));
                    },
                    _ => match lower_ascii_letter(c) {
                        Some(cl) => {
                            go!(self: push_temp cl);
                            self.emit_char(c);
                        },
                        None => go!(self: reconsume RawData(ScriptDataEscaped(Escaped))),
                    },
                }
            },

            //§ script-data-escape-start-state
            states::ScriptDataEscapeStart(Escaped) => loop {
                match get_char!(self, input) {
                    '-' => {
                        self.emit_char('-');
                        go!(self: to State::ScriptDataEscapeStartDash);
                    },
                    _ => go!(self: reconsume RawData(ScriptData)),
                }
            },

            //§ script-data-escape-start-dash-state
            states::ScriptDataEscapeStartDash => loop {
                match get_char!(self, input) {
                    '-' => {
                        self.emit_char('-');
                        go!(self: to State::ScriptDataEscapedDashDash(Escaped));
                    },
                    _ => go!(self: reconsume RawData(ScriptData)),
                }
            },

            //§ script-data-escaped-dash-state script-data-double-escaped-dash-state
            states::ScriptDataEscapedDash(kind) => loop {
                match get_char!(self, input) {
                    '-' => {
                        self.emit_char('-');
                        go!(self: to State::ScriptDataEscapedDashDash(kind));
                    },
                    '<' => {
                        if kind == DoubleEscaped {
                            self.emit_char('<');
                        }
                        go!(self: to State::RawLessThanSign(ScriptDataEscaped(kind)));
                    },
                    '\0' => {
                        self.bad_char_error();
                        self.emit_char('\u{fffd}');
                        go!(self: to State::RawData(ScriptDataEscaped(kind)));
                    },
                    c => {
                        self.emit_char(c);
                        go!(self: to State::RawData(ScriptDataEscaped(kind)));
                    },
                }
            },

            //§ script-data-escaped-dash-dash-state script-data-double-escaped-dash-dash-state
            states::ScriptDataEscapedDashDash(kind) => loop {
                match get_char!(self, input) {
                    '-' => {
                        self.emit_char('-');
                    },
                    '<' => {
                        if kind == DoubleEscaped {
                            self.emit_char('<');
                        }
                        go!(self: to State::RawLessThanSign(ScriptDataEscaped(kind)));
                    },
                    '>' => {
                        self.emit_char('>');
                        go!(self: to State::RawData(ScriptData));
                    },
                    '\0' => {
                        self.bad_char_error();
                        self.emit_char('\u{fffd}');
                        go!(self: to State::RawData(ScriptDataEscaped(kind)))
                    },
                    c => {
                        self.emit_char(c);
                        go!(self: to State::RawData(ScriptDataEscaped(kind)));
                    },
                }
            },

            //§ script-data-double-escape-end-state
            states::ScriptDataDoubleEscapeEnd => loop {
                let c = get_char!(self, input);
                match c {
                    '\t' | '\n' | '\x0C' | ' ' | '/' | '>' => {
                        let esc = if self.temp_buf.borrow().eq_str("script") {
                            Escaped
                        } else {
                            DoubleEscaped
                        };
                        self.emit_char(c);
                        go!(self: to State::RawData(ScriptDataEscaped(esc)));
                    },
                    _ => match lower_ascii_letter(c) {
                        Some(cl) => {
                            go!(self: push_temp cl);
                            self.emit_char(c);
                        },
                        None => go!(self: reconsume RawData(ScriptDataEscaped(DoubleEscaped))),
                    },
                }
            },

            //§ before-attribute-name-state
            states::BeforeAttributeName => loop {
                match get_char!(self, input) {
                    '\t' | '\n' | '\x0C' | ' ' => (),
                    '/' => go!(self: to State::SelfClosingStartTag),
                    '>' => go!(self: emit_tag Data),
                    '\0' => {
                        self.bad_char_error();
                        go!(self: create_attr '\u{fffd}'; to State::AttributeName)
                    },
                    c => match lower_ascii_letter(c) {
                        Some(cl) => go!(self: create_attr cl; to State::AttributeName),
                        None => {
                            if matches!(c, '"' | '\'' | '<' | '=') {
                                self.bad_char_error();
                            }

                            go!(self: create_attr c; to State::AttributeName);
                        },
                    },
                }
            },

            //§ attribute-name-state
            states::AttributeName => loop {
                match get_char!(self, input) {
                    '\t' | '\n' | '\x0C' | ' ' => go!(self: to State::AfterAttributeName),
                    '/' => go!(self: to State::SelfClosingStartTag),
                    '=' => go!(self: to State::BeforeAttributeValue),
                    '>' => go!(self: emit_tag Data),
                    '\0' => {
                        self.bad_char_error();
                        go!(self: push_name '\u{fffd}')
                    },
                    c => match lower_ascii_letter(c) {
                        Some(cl) => go!(self: push_name cl),
                        None => {
                            if matches!(c, '"' | '\'' | '<') {
                                self.bad_char_error();
                            }
                            go!(self: push_name c);
                        },
                    },
                }
            },

            //§ after-attribute-name-state
            states::AfterAttributeName => loop {
                match get_char!(self, input) {
                    '\t' | '\n' | '\x0C' | ' ' => (),
                    '/' => go!(self: to State::SelfClosingStartTag),
                    '=' => go!(self: to State::BeforeAttributeValue),
                    '>' => go!(self: emit_tag Data),
                    '\0' => {
                        self.bad_char_error();
                        go!(self: create_attr '\u{fffd}'; to State::AttributeName)
                    },
                    c => match lower_ascii_letter(c) {
                        Some(cl) => go!(self: create_attr cl; to State::AttributeName),
                        None => {
                            if matches!(c, '"' | '\'' | '<') {
                                self.bad_char_error();
                            }

                            go!(self: create_attr c; to State::AttributeName);
                        },
                    },
                }
            },

            //§ before-attribute-value-state
            // Use peek so we can handle the first attr character along with the rest,
            // hopefully in the same zero-copy buffer.
            states::BeforeAttributeValue => loop {
                match peek!(self, input) {
                    '\t' | '\n' | '\r' | '\x0C' | ' ' => go!(self: discard_char input),
                    '"' => go!(self: discard_char input; to State::AttributeValue(DoubleQuoted)),
                    '\'' => go!(self: discard_char input; to State::AttributeValue(SingleQuoted)),
                    '>' => {
                        go!(self: discard_char input);
                        self.bad_char_error();
                        go!(self: emit_tag Data)
                    },
                    _ => go!(self: to State::AttributeValue(Unquoted)),
                }
            },

            //§ attribute-value-(double-quoted)-state
            states::AttributeValue(DoubleQuoted) => loop {
                let Some(set_result) =
                    self.pop_except_from(input, small_char_set!('\r' '"' '&' '\0' '\n'))
                else {
                    return ProcessResult::Suspend;
                };

                match set_result {
                    FromSet('"') => go!(self: to State::AfterAttributeValueQuoted),
                    FromSet('&') => go!(self: consume_char_ref),
                    FromSet('\0') => {
                        self.bad_char_error();
                        go!(self: push_value '\u{fffd}')
                    },
                    FromSet(c) => go!(self: push_value c),
                    NotFromSet(ref b) => go!(self: append_value b),
                }
            },

            //§ attribute-value-(single-quoted)-state
            states::AttributeValue(SingleQuoted) => loop {
                let Some(set_result) =
                    self.pop_except_from(input, small_char_set!('\r' '\'' '&' '\0' '\n'))
                else {
                    return ProcessResult::Suspend;
                };

                match set_result {
                    FromSet('\'') => go!(self: to State::AfterAttributeValueQuoted),
                    FromSet('&') => go!(self: consume_char_ref),
                    FromSet('\0') => {
                        self.bad_char_error();
                        go!(self: push_value '\u{fffd}')
                    },
                    FromSet(c) => go!(self: push_value c),
                    NotFromSet(ref b) => go!(self: append_value b),
                }
            },

            //§ attribute-value-(unquoted)-state
            states::AttributeValue(Unquoted) => loop {
                let Some(set_result) = self.pop_except_from(
                    input,
                    small_char_set!('\r' '\t' '\n' '\x0C' ' ' '&' '>' '\0'),
                ) else {
                    return ProcessResult::Suspend;
                };

                match set_result {
                    FromSet('\t') | FromSet('\n') | FromSet('\x0C') | FromSet(' ') => {
                        go!(self: to State::BeforeAttributeName)
                    },
                    FromSet('&') => go!(self: consume_char_ref),
                    FromSet('>') => go!(self: emit_tag Data),
                    FromSet('\0') => {
                        self.bad_char_error();
                        go!(self: push_value '\u{fffd}')
                    },
                    FromSet(c) => {
                        if matches!(c, '"' | '\'' | '<' | '=' | '`') {
                            self.bad_char_error();
                        }
                        go!(self: push_value c);
                    },
                    NotFromSet(ref b) => go!(self: append_value b),
                }
            },

            //§ after-attribute-value-(quoted)-state
            states::AfterAttributeValueQuoted => loop {
                match get_char!(self, input) {
                    '\t' | '\n' | '\x0C' | ' ' => go!(self: to State::BeforeAttributeName),
                    '/' => go!(self: to State::SelfClosingStartTag),
                    '>' => go!(self: emit_tag Data),
                    _ => {
                        self.bad_char_error();
                        go!(self: reconsume BeforeAttributeName)
                    },
                }
            },

            //§ self-closing-start-tag-state
            states::SelfClosingStartTag => loop {
                match get_char!(self, input) {
                    '>' => {
                        self.current_tag_self_closing.set(true);
                        go!(self: emit_tag Data);
                    },
                    _ => {
                        self.bad_char_error();
                        go!(self: reconsume BeforeAttributeName)
                    },
                }
            },

            //§ comment-start-state
            states::CommentStart => loop {
                match get_char!(self, input) {
                    '-' => go!(self: to State::CommentStartDash),
                    '\0' => {
                        self.bad_char_error();
                        go!(self: push_comment '\u{fffd}'; to State::Comment)
                    },
                    '>' => {
                        self.bad_char_error();
                        go!(self: emit_comment; to State::Data)
                    },
                    c => go!(self: push_comment c; to State::Comment),
                }
            },

            //§ comment-start-dash-state
            states::CommentStartDash => loop {
                match get_char!(self, input) {
                    '-' => go!(self: to State::CommentEnd),
                    '\0' => {
                        self.bad_char_error();
                        go!(self: append_comment "-\u{fffd}"; to State::Comment)
                    },
                    '>' => {
                        self.bad_char_error();
                        go!(self: emit_comment; to State::Data)
                    },
                    c => go!(self: push_comment '-'; push_comment c; to State::Comment),
                }
            },

            //§ comment-state
            states::Comment => loop {
                match get_char!(self, input) {
                    c @ '<' => go!(self: push_comment c; to State::CommentLessThanSign),
                    '-' => go!(self: to State::CommentEndDash),
                    '\0' => {
                        self.bad_char_error();
                        go!(self: push_comment '\u{fffd}')
                    },
                    c => go!(self: push_comment c),
                }
            },

            //§ comment-less-than-sign-state
            states::CommentLessThanSign => loop {
                match get_char!(self, input) {
                    c @ '!' => go!(self: push_comment c; to State::CommentLessThanSignBang),
                    c @ '<' => go!(self: push_comment c),
                    _ => go!(self: reconsume Comment),
                }
            },

            //§ comment-less-than-sign-bang
            states::CommentLessThanSignBang => loop {
                match get_char!(self, input) {
                    '-' => go!(self: to State::CommentLessThanSignBangDash),
                    _ => go!(self: reconsume Comment),
                }
            },

            //§ comment-less-than-sign-bang-dash
            states::CommentLessThanSignBangDash => loop {
                match get_char!(self, input) {
                    '-' => go!(self: to State::CommentLessThanSignBangDashDash),
                    _ => go!(self: reconsume CommentEndDash),
                }
            },

            //§ comment-less-than-sign-bang-dash-dash
            states::CommentLessThanSignBangDashDash => loop {
                match get_char!(self, input) {
                    '>' => go!(self: reconsume CommentEnd),
                    _ => {
                        self.bad_char_error();
                        go!(self: reconsume CommentEnd)
                    },
                }
            },

            //§ comment-end-dash-state
            states::CommentEndDash => loop {
                match get_char!(self, input) {
                    '-' => go!(self: to State::CommentEnd),
                    '\0' => {
                        self.bad_char_error();
                        go!(self: append_comment "-\u{fffd}"; to State::Comment)
                    },
                    c => go!(self: push_comment '-'; push_comment c; to State::Comment),
                }
            },

            //§ comment-end-state
            states::CommentEnd => loop {
                match get_char!(self, input) {
                    '>' => go!(self: emit_comment; to State::Data),
                    '!' => go!(self: to State::CommentEndBang),
                    '-' => go!(self: push_comment '-'),
                    _ => go!(self: append_comment "--"; reconsume Comment),
                }
            },

            //§ comment-end-bang-state
            states::CommentEndBang => loop {
                match get_char!(self, input) {
                    '-' => go!(self: append_comment "--!"; to State::CommentEndDash),
                    '>' => {
                        self.bad_char_error();
                        go!(self: emit_comment; to State::Data)
                    },
                    '\0' => {
                        self.bad_char_error();
                        go!(self: append_comment "--!\u{fffd}"; to State::Comment)
                    },
                    c => go!(self: append_comment "--!"; push_comment c; to State::Comment),
                }
            },

            //§ doctype-state
            states::Doctype => loop {
                match get_char!(self, input) {
                    '\t' | '\n' | '\x0C' | ' ' => go!(self: to State::BeforeDoctypeName),
                    '>' => go!(self: reconsume BeforeDoctypeName),
                    _ => {
                        self.bad_char_error();
                        go!(self: reconsume BeforeDoctypeName)
                    },
                }
            },

            //§ before-doctype-name-state
            states::BeforeDoctypeName => loop {
                match get_char!(self, input) {
                    '\t' | '\n' | '\x0C' | ' ' => (),
                    '\0' => {
                        self.bad_char_error();
                        go!(self: create_doctype; push_doctype_name '\u{fffd}'; to State::DoctypeName)
                    },
                    '>' => {
                        self.bad_char_error();
                        go!(self: create_doctype; force_quirks; emit_doctype; to State::Data)
                    },
                    c => go!(self: create_doctype; push_doctype_name (c.to_ascii_lowercase());
                                  to State::DoctypeName),
                }
            },

            //§ doctype-name-state
            states::DoctypeName => loop {
                match get_char!(self, input) {
                    '\t' | '\n' | '\x0C' | ' ' => go!(self: clear_temp; to State::AfterDoctypeName),
                    '>' => go!(self: emit_doctype; to State::Data),
                    '\0' => {
                        self.bad_char_error();
                        go!(self: push_doctype_name '\u{fffd}')
                    },
                    c => go!(self: push_doctype_name (c.to_ascii_lowercase())),
                }
            },

            //§ after-doctype-name-state
            states::AfterDoctypeName => loop {
                if eat!(self, input, "public") {
                    go!(self: to State::AfterDoctypeKeyword(Public));
                } else if eat!(self, input, "system") {
                    go!(self: to State::AfterDoctypeKeyword(System));
                } else {
                    match get_char!(self, input) {
                        '\t' | '\n' | '\x0C' | ' ' => (),
                        '>' => go!(self: emit_doctype; to State::Data),
                        _ => {
                            self.bad_char_error();
                            go!(self: force_quirks; reconsume BogusDoctype)
                        },
                    }
                }
            },

            //§ after-doctype-public-keyword-state after-doctype-system-keyword-state
            states::AfterDoctypeKeyword(kind) => loop {
                match get_char!(self, input) {
                    '\t' | '\n' | '\x0C' | ' ' => {
                        go!(self: to State::BeforeDoctypeIdentifier(kind))
                    },
                    '"' => {
                        self.bad_char_error();
                        go!(self: clear_doctype_id kind; to State::DoctypeIdentifierDoubleQuoted(kind))
                    },
                    '\'' => {
                        self.bad_char_error();
                        go!(self: clear_doctype_id kind; to State::DoctypeIdentifierSingleQuoted(kind))
                    },
                    '>' => {
                        self.bad_char_error();
                        go!(self: force_quirks; emit_doctype; to State::Data)
                    },
                    _ => {
                        self.bad_char_error();
                        go!(self: force_quirks; reconsume BogusDoctype)
                    },
                }
            },

            //§ before-doctype-public-identifier-state before-doctype-system-identifier-state
            states::BeforeDoctypeIdentifier(kind) => loop {
                match get_char!(self, input) {
                    '\t' | '\n' | '\x0C' | ' ' => (),
                    '"' => {
                        go!(self: clear_doctype_id kind; to State::DoctypeIdentifierDoubleQuoted(kind))
                    },
                    '\'' => {
                        go!(self: clear_doctype_id kind; to State::DoctypeIdentifierSingleQuoted(kind))
                    },
                    '>' => {
                        self.bad_char_error();
                        go!(self: force_quirks; emit_doctype; to State::Data)
                    },
                    _ => {
                        self.bad_char_error();
                        go!(self: force_quirks; reconsume BogusDoctype)
                    },
                }
            },

            //§ doctype-public-identifier-(double-quoted)-state doctype-system-identifier-(double-quoted)-state
            states::DoctypeIdentifierDoubleQuoted(kind) => loop {
                match get_char!(self, input) {
                    '"' => go!(self: to State::AfterDoctypeIdentifier(kind)),
                    '\0' => {
                        self.bad_char_error();
                        go!(self: push_doctype_id kind '\u{fffd}')
                    },
                    '>' => {
                        self.bad_char_error();
                        go!(self: force_quirks; emit_doctype; to State::Data)
                    },
                    c => go!(self: push_doctype_id kind c),
                }
            },

            //§ doctype-public-identifier-(single-quoted)-state doctype-system-identifier-(single-quoted)-state
            states::DoctypeIdentifierSingleQuoted(kind) => loop {
                match get_char!(self, input) {
                    '\'' => go!(self: to State::AfterDoctypeIdentifier(kind)),
                    '\0' => {
                        self.bad_char_error();
                        go!(self: push_doctype_id kind '\u{fffd}')
                    },
                    '>' => {
                        self.bad_char_error();
                        go!(self: force_quirks; emit_doctype; to State::Data)
                    },
                    c => go!(self: push_doctype_id kind c),
                }
            },

            //§ after-doctype-public-identifier-state
            states::AfterDoctypeIdentifier(Public) => loop {
                match get_char!(self, input) {
                    '\t' | '\n' | '\x0C' | ' ' => {
                        go!(self: to State::BetweenDoctypePublicAndSystemIdentifiers)
                    },
                    '>' => go!(self: emit_doctype; to State::Data),
                    '"' => {
                        self.bad_char_error();
                        go!(self: clear_doctype_id System; to State::DoctypeIdentifierDoubleQuoted(System))
                    },
                    '\'' => {
                        self.bad_char_error();
                        go!(self: clear_doctype_id System; to State::DoctypeIdentifierSingleQuoted(System))
                    },
                    _ => {
                        self.bad_char_error();
                        go!(self: force_quirks; reconsume BogusDoctype)
                    },
                }
            },

            //§ after-doctype-system-identifier-state
            states::AfterDoctypeIdentifier(System) => loop {
                match get_char!(self, input) {
                    '\t' | '\n' | '\x0C' | ' ' => (),
                    '>' => go!(self: emit_doctype; to State::Data),
                    _ => {
                        self.bad_char_error();
                        go!(self: reconsume BogusDoctype)
                    },
                }
            },

            //§ between-doctype-public-and-system-identifiers-state
            states::BetweenDoctypePublicAndSystemIdentifiers => loop {
                match get_char!(self, input) {
                    '\t' | '\n' | '\x0C' | ' ' => (),
                    '>' => go!(self: emit_doctype; to State::Data),
                    '"' => {
                        go!(self: clear_doctype_id System; to State::DoctypeIdentifierDoubleQuoted(System))
                    },
                    '\'' => {
                        go!(self: clear_doctype_id System; to State::DoctypeIdentifierSingleQuoted(System))
                    },
                    _ => {
                        self.bad_char_error();
                        go!(self: force_quirks; reconsume BogusDoctype)
                    },
                }
            },

            //§ bogus-doctype-state
            states::BogusDoctype => loop {
                match get_char!(self, input) {
                    '>' => go!(self: emit_doctype; to State::Data),
                    '\0' => {
                        self.bad_char_error();
                    },
                    _ => (),
                }
            },

            //§ bogus-comment-state
            states::BogusComment => loop {
                match get_char!(self, input) {
                    '>' => go!(self: emit_comment; to State::Data),
                    '\0' => {
                        self.bad_char_error();
                        go!(self: push_comment '\u{fffd}')
                    },
                    c => go!(self: push_comment c),
                }
            },

            //§ markup-declaration-open-state
            states::MarkupDeclarationOpen => loop {
                if eat_exact!(self, input, "--") {
                    go!(self: clear_comment; to State::CommentStart);
                } else if eat!(self, input, "doctype") {
                    go!(self: to State::Doctype);
                } else {
                    if self
                        .sink
                        .adjusted_current_node_present_but_not_in_html_namespace()
                        && eat_exact!(self, input, "[CDATA[")
                    {
                        go!(self: clear_temp; to State::CdataSection);
                    }
                    self.bad_char_error();
                    go!(self: clear_comment; to State::BogusComment);
                }
            },

            //§ cdata-section-state
            states::CdataSection => loop {
                match get_char!(self, input) {
                    ']' => go!(self: to State::CdataSectionBracket),
                    '\0' => {
                        self.emit_temp_buf();
                        self.emit_char('\0');
                    },
                    c => go!(self: push_temp c),
                }
            },

            //§ cdata-section-bracket
            states::CdataSectionBracket => match get_char!(self, input) {
                ']' => go!(self: to State::CdataSectionEnd),
                _ => go!(self: push_temp ']'; reconsume CdataSection),
            },

            //§ cdata-section-end
            states::CdataSectionEnd => loop {
                match get_char!(self, input) {
                    ']' => go!(self: push_temp ']'),
                    '>' => {
                        self.emit_temp_buf();
                        go!(self: to State::Data);
                    },
                    _ => go!(self: push_temp ']'; push_temp ']'; reconsume CdataSection),
                }
            },
            //§ END
        }
    }
    fn eof_step(&mut self) -> ProcessResult {
        debug!("processing EOF in state {:?}", self.state.get());
        match self.state.get() {
            states::Data
            | states::RawData(Rcdata)
            | states::RawData(Rawtext)
            | states::RawData(ScriptData)
            | states::Plaintext => go!(self: eof),

            states::TagName
            | states::RawData(ScriptDataEscaped(_))
            | states::BeforeAttributeName
            | states::AttributeName
            | states::AfterAttributeName
            | states::AttributeValue(_)
            | states::AfterAttributeValueQuoted
            | states::SelfClosingStartTag
            | states::ScriptDataEscapedDash(_)
            | states::ScriptDataEscapedDashDash(_) => {
                self.bad_eof_error();
                go!(self: to State::Data)
            },

            states::BeforeAttributeValue => go!(self: reconsume AttributeValue(Unquoted)),

            states::TagOpen => {
                self.bad_eof_error();
                self.emit_char('<');
                go!(self: to State::Data);
            },

            states::EndTagOpen => {
                self.bad_eof_error();
                self.emit_char('<');
                self.emit_char('/');
                go!(self: to State::Data);
            },

            states::RawLessThanSign(ScriptDataEscaped(DoubleEscaped)) => {
                go!(self: to State::RawData(ScriptDataEscaped(DoubleEscaped)))
            },

            states::RawLessThanSign(kind) => {
                self.emit_char('<');
                go!(self: to State::RawData(kind));
            },

            states::RawEndTagOpen(kind) => {
                self.emit_char('<');
                self.emit_char('/');
                go!(self: to State::RawData(kind));
            },

            states::RawEndTagName(kind) => {
                self.emit_char('<');
                self.emit_char('/');
                self.emit_temp_buf();
                go!(self: to State::RawData(kind))
            },

            states::ScriptDataEscapeStart(kind) => {
                go!(self: to State::RawData(ScriptDataEscaped(kind)))
            },

            states::ScriptDataEscapeStartDash => go!(self: to State::RawData(ScriptData)),

            states::ScriptDataDoubleEscapeEnd => {
                go!(self: to State::RawData(ScriptDataEscaped(DoubleEscaped)))
            },

            states::CommentStart
            | states::CommentStartDash
            | states::Comment
            | states::CommentEndDash
            | states::CommentEnd
            | states::CommentEndBang => {
                self.bad_eof_error();
                go!(self: emit_comment; to State::Data)
            },

            states::CommentLessThanSign | states::CommentLessThanSignBang => {
                go!(self: reconsume Comment)
            },

            states::CommentLessThanSignBangDash => go!(self: reconsume CommentEndDash),

            states::CommentLessThanSignBangDashDash => go!(self: reconsume CommentEnd),

            states::Doctype | states::BeforeDoctypeName => {
                self.bad_eof_error();
                go!(self: create_doctype; force_quirks; emit_doctype; to State::Data)
            },

            states::DoctypeName
            | states::AfterDoctypeName
            | states::AfterDoctypeKeyword(_)
            | states::BeforeDoctypeIdentifier(_)
            | states::DoctypeIdentifierDoubleQuoted(_)
            | states::DoctypeIdentifierSingleQuoted(_)
            | states::AfterDoctypeIdentifier(_)
            | states::BetweenDoctypePublicAndSystemIdentifiers => {
                self.bad_eof_error();
                go!(self: force_quirks; emit_doctype; to State::Data)
            },

            states::BogusDoctype => go!(self: emit_doctype; to State::Data),

            states::BogusComment => go!(self: emit_comment; to State::Data),

            states::MarkupDeclarationOpen => {
                self.bad_char_error();
                go!(self: to State::BogusComment)
            },

            states::CdataSection => {
                self.emit_temp_buf();
                self.bad_eof_error();
                go!(self: to State::Data)
            },

            states::CdataSectionBracket => go!(self: push_temp ']'; to State::CdataSection),

            states::CdataSectionEnd => {
                go!(self: push_temp ']'; push_temp ']'; to State::CdataSection)
            },
        }
    }
}
}
fn main() {}
