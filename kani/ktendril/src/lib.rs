//! Bounded Kani harnesses over the real tendril crate (path dependency on /repo/tendril).
//! These are BOUNDED stand-ins (labelled as such in the evidence), not proofs.
#![allow(dead_code)]
use tendril::stream::{TendrilSink, Utf8LossyDecoder};
use tendril::{ByteTendril, StrTendril};

pub struct Collect {
    pub buf: [u8; 24],
    pub len: usize,
    pub errors: usize,
}
impl TendrilSink<tendril::fmt::UTF8> for Collect {
    fn process(&mut self, t: StrTendril) {
        for b in (&*t).as_bytes().iter() {
            if self.len < self.buf.len() {
                self.buf[self.len] = *b;
            }
            self.len += 1;
        }
    }
    fn error(&mut self, _desc: std::borrow::Cow<'static, str>) {
        self.errors += 1;
    }
    type Output = Collect;
    fn finish(self) -> Collect {
        self
    }
}

/// decode `bytes` fed as the two chunks bytes[..k], bytes[k..]
pub fn decode_chunked(bytes: &[u8], k: usize) -> Collect {
    let mut d = Utf8LossyDecoder::new(Collect { buf: [0; 24], len: 0, errors: 0 });
    d.process(ByteTendril::from_slice(&bytes[..k]));
    d.process(ByteTendril::from_slice(&bytes[k..]));
    d.finish()
}

#[cfg(kani)]
mod proofs {
    use super::*;
    fn check<const N: usize>() {
        let bytes: [u8; N] = kani::any();
        let k: usize = kani::any();
        kani::assume(k <= N);
        let got = decode_chunked(&bytes, k);
        let want = String::from_utf8_lossy(&bytes);
        let w = want.as_bytes();
        assert!(got.len == w.len());
        let mut i = 0;
        while i < w.len() {
            assert!(got.buf[i] == w[i]);
            i += 1;
        }
    }
    #[kani::proof]
    #[kani::unwind(8)]
    fn utf8_lossy_chunked_2() { check::<2>() }
    #[kani::proof]
    #[kani::unwind(10)]
    fn utf8_lossy_chunked_3() { check::<3>() }
}
