// ======================================================================================
// U-utf8 specification (hand-written from Unicode 15 §3.9, table 3-7 "Well-Formed UTF-8 Byte Sequences", and the
// "U+FFFD substitution of maximal subparts" practice that String::from_utf8_lossy and the WHATWG UTF-8 decoder
// follow).  NOT from the code.
// ======================================================================================
pub enum U8Step { Ok(int), Bad(int), Inc }
pub open spec fn cont(b: u8) -> bool { 0x80 <= b && b <= 0xBF }
/// sequence length announced by a lead byte (0: the byte cannot start a sequence)
pub open spec fn lead_width(b: u8) -> int {
    if 0xC2 <= b && b <= 0xDF { 2 } else if 0xE0 <= b && b <= 0xEF { 3 } else if 0xF0 <= b && b <= 0xF4 { 4 } else { 0 }
}
/// second byte ranges of table 3-7 (E0, ED, F0, F4 are restricted: no overlong forms, no surrogates, nothing above 10FFFF)
pub open spec fn second_ok(b0: u8, b1: u8) -> bool {
    if b0 == 0xE0 { 0xA0 <= b1 && b1 <= 0xBF } else if b0 == 0xED { 0x80 <= b1 && b1 <= 0x9F }
    else if b0 == 0xF0 { 0x90 <= b1 && b1 <= 0xBF } else if b0 == 0xF4 { 0x80 <= b1 && b1 <= 0x8F } else { cont(b1) }
}
/// what stands at position i of s: a well-formed sequence of n bytes, a maximal ill-formed subpart of n bytes,
/// or a so-far well-formed sequence cut off by the end of s
pub open spec fn step_at(s: Seq<u8>, i: int) -> U8Step {
    let b0 = s[i];
    let w = lead_width(b0);
    if b0 < 0x80 { U8Step::Ok(1) }
    else if w == 0 { U8Step::Bad(1) }
    else if i + 1 >= s.len() { U8Step::Inc }
    else if !second_ok(b0, s[i + 1]) { U8Step::Bad(1) }
    else if w == 2 { U8Step::Ok(2) }
    else if i + 2 >= s.len() { U8Step::Inc }
    else if !cont(s[i + 2]) { U8Step::Bad(2) }
    else if w == 3 { U8Step::Ok(3) }
    else if i + 3 >= s.len() { U8Step::Inc }
    else if !cont(s[i + 3]) { U8Step::Bad(3) }
    else { U8Step::Ok(4) }
}
/// end of the well-formed text that starts at boundary i
pub open spec fn valid_to(s: Seq<u8>, i: int) -> int
    decreases s.len() - i
{
    if i < 0 || i >= s.len() { s.len() as int }
    else { match step_at(s, i) { U8Step::Ok(n) => valid_to(s, i + n), _ => i } }
}
pub open spec fn well_formed(s: Seq<u8>) -> bool { valid_to(s, 0) == s.len() }
pub struct Dec { pub out: Seq<u8>, pub errs: int }
pub open spec fn repl() -> Seq<u8> { seq![0xEFu8, 0xBFu8, 0xBDu8] }
/// lossy decoding of s from boundary i: every maximal ill-formed subpart, and a sequence cut off by the end of the
/// input, is replaced by U+FFFD and counted as one error (= String::from_utf8_lossy)
pub open spec fn lossy(s: Seq<u8>, i: int) -> Dec
    decreases s.len() - i
{
    if i < 0 || i >= s.len() { Dec { out: Seq::<u8>::empty(), errs: 0 } }
    else {
        match step_at(s, i) {
            U8Step::Ok(n) => { let d = lossy(s, i + n); Dec { out: s.subrange(i, i + n) + d.out, errs: d.errs } },
            U8Step::Bad(n) => { let d = lossy(s, i + n); Dec { out: repl() + d.out, errs: d.errs + 1 } },
            U8Step::Inc => Dec { out: repl(), errs: 1 },
        }
    }
}
pub open spec fn dec_add(out: Seq<u8>, errs: int, d: Dec) -> Dec { Dec { out: out + d.out, errs: errs + d.errs } }
/// p is a non-empty sequence that is well formed so far but cut off: what the decoder may carry between chunks
pub open spec fn inc_prefix(p: Seq<u8>) -> bool { p.len() >= 1 && step_at(p, 0) is Inc }

// ---- lemmas (proved; no code involved) ----
pub proof fn lemma_step_facts(s: Seq<u8>, i: int)
    requires 0 <= i < s.len(),
    ensures
        step_at(s, i) matches U8Step::Ok(n) ==> 1 <= n <= 4 && i + n <= s.len(),
        step_at(s, i) matches U8Step::Bad(n) ==> 1 <= n <= 3 && i + n <= s.len(),
        step_at(s, i) is Inc ==> s.len() - i <= 3,
{}
/// a decided step does not depend on what follows
pub proof fn lemma_step_prefix(s: Seq<u8>, t: Seq<u8>, i: int)
    requires 0 <= i < s.len(), !(step_at(s, i) is Inc),
    ensures step_at(s + t, i) == step_at(s, i),
{
    lemma_step_facts(s, i);
    assert((s + t)[i] == s[i]);
    if i + 1 < s.len() { assert((s + t)[i + 1] == s[i + 1]); }
    if i + 2 < s.len() { assert((s + t)[i + 2] == s[i + 2]); }
    if i + 3 < s.len() { assert((s + t)[i + 3] == s[i + 3]); }
}
/// a step only looks at the bytes from its position on
pub proof fn lemma_step_shift(a: Seq<u8>, b: Seq<u8>, k: int)
    requires 0 <= k < b.len(),
    ensures step_at(a + b, a.len() + k) == step_at(b, k),
{
    assert((a + b)[a.len() + k] == b[k]);
    if k + 1 < b.len() { assert((a + b)[a.len() + k + 1] == b[k + 1]); }
    if k + 2 < b.len() { assert((a + b)[a.len() + k + 2] == b[k + 2]); }
    if k + 3 < b.len() { assert((a + b)[a.len() + k + 3] == b[k + 3]); }
}
pub proof fn lemma_lossy_shift(a: Seq<u8>, b: Seq<u8>, k: int)
    requires 0 <= k <= b.len(),
    ensures lossy(a + b, a.len() + k) == lossy(b, k),
    decreases b.len() - k,
{
    if k < b.len() {
        lemma_step_shift(a, b, k);
        lemma_step_facts(b, k);
        match step_at(b, k) {
            U8Step::Ok(n) => { lemma_lossy_shift(a, b, k + n); assert((a + b).subrange(a.len() + k, a.len() + k + n) =~= b.subrange(k, k + n)); },
            U8Step::Bad(n) => { lemma_lossy_shift(a, b, k + n); },
            U8Step::Inc => {},
        }
    }
}
pub proof fn lemma_valid_to_bounds(s: Seq<u8>, i: int)
    requires 0 <= i <= s.len(),
    ensures i <= valid_to(s, i) <= s.len(),
    decreases s.len() - i,
{
    if i < s.len() { lemma_step_facts(s, i); match step_at(s, i) { U8Step::Ok(n) => lemma_valid_to_bounds(s, i + n), _ => {} } }
}
/// well-formed text in front is passed through unchanged whatever follows
pub proof fn lemma_lossy_valid_prefix(s: Seq<u8>, t: Seq<u8>, i: int)
    requires 0 <= i <= s.len(),
    ensures ({
        let v = valid_to(s, i);
        lossy(s + t, i) == dec_add(s.subrange(i, v), 0, lossy(s + t, v))
    }),
    decreases s.len() - i,
{
    let v = valid_to(s, i);
    lemma_valid_to_bounds(s, i);
    if i < s.len() {
        lemma_step_facts(s, i);
        match step_at(s, i) {
            U8Step::Ok(n) => {
                lemma_step_prefix(s, t, i);
                lemma_lossy_valid_prefix(s, t, i + n);
                lemma_valid_to_bounds(s, i + n);
                assert((s + t).subrange(i, i + n) =~= s.subrange(i, i + n));
                assert(s.subrange(i, i + n) + s.subrange(i + n, v) =~= s.subrange(i, v));
                let d = lossy(s + t, v);
                assert(s.subrange(i, i + n) + (s.subrange(i + n, v) + d.out) =~= s.subrange(i, v) + d.out);
            },
            _ => { assert(s.subrange(i, i) + lossy(s + t, i).out =~= lossy(s + t, i).out); },
        }
    } else {
        assert(s.subrange(i, i) + lossy(s + t, i).out =~= lossy(s + t, i).out);
    }
}
/// whole well-formed strings decode to themselves
pub proof fn lemma_lossy_well_formed(s: Seq<u8>, t: Seq<u8>)
    requires well_formed(s),
    ensures lossy(s + t, 0) == dec_add(s, 0, lossy(t, 0)),
{
    lemma_lossy_valid_prefix(s, t, 0);
    lemma_lossy_shift(s, t, 0);
    assert(s.subrange(0, s.len() as int) =~= s);
}
/// a maximal ill-formed subpart is replaced whatever follows
pub proof fn lemma_lossy_bad(s: Seq<u8>, t: Seq<u8>, i: int)
    requires 0 <= i < s.len(), step_at(s, i) is Bad,
    ensures lossy(s + t, i) == dec_add(repl(), 1, lossy(s + t, i + step_at(s, i)->Bad_0)),
{
    lemma_step_prefix(s, t, i);
    lemma_step_facts(s, i);
}
/// a decided step that fits into a prefix is the same step in the prefix
pub proof fn lemma_step_take(s: Seq<u8>, v: int, i: int)
    requires 0 <= i < v <= s.len(), step_at(s, i) matches U8Step::Ok(n) && i + n <= v,
    ensures step_at(s.take(v), i) == step_at(s, i),
{
    lemma_step_facts(s, i);
    let t = s.take(v);
    assert(t[i] == s[i]);
    if i + 1 < v { assert(t[i + 1] == s[i + 1]); }
    if i + 2 < v { assert(t[i + 2] == s[i + 2]); }
    if i + 3 < v { assert(t[i + 3] == s[i + 3]); }
}
/// valid_to walks over whole sequences: every boundary it passes leads to the same end
pub proof fn lemma_valid_prefix_wf_from(s: Seq<u8>, i: int)
    requires 0 <= i <= s.len(),
    ensures ({ let v = valid_to(s, i); valid_to(s.take(v), i) == v }),
    decreases s.len() - i,
{
    let v = valid_to(s, i);
    lemma_valid_to_bounds(s, i);
    if i < s.len() {
        lemma_step_facts(s, i);
        match step_at(s, i) {
            U8Step::Ok(n) => {
                lemma_valid_to_bounds(s, i + n);
                lemma_step_take(s, v, i);
                lemma_valid_prefix_wf_from(s, i + n);
            },
            _ => {},
        }
    }
}
/// the longest well-formed prefix is well formed
pub proof fn lemma_valid_prefix_wf(s: Seq<u8>)
    ensures well_formed(s.subrange(0, valid_to(s, 0))),
{
    lemma_valid_to_bounds(s, 0);
    lemma_valid_prefix_wf_from(s, 0);
    assert(s.take(valid_to(s, 0)) =~= s.subrange(0, valid_to(s, 0)));
}

// ---- from the per-call contract to the whole stream (C10): induction over the chunks ----
pub struct DState { pub out: Seq<u8>, pub errs: int, pub pend: Seq<u8> }
/// what the sink ends up with if `rest` follows and the stream ends
pub open spec fn fin(st: DState, rest: Seq<u8>) -> Dec { dec_add(st.out, st.errs, lossy(st.pend + rest, 0)) }
/// chunks[i..] concatenated
pub open spec fn concat_from(chunks: Seq<Seq<u8>>, i: int) -> Seq<u8>
    decreases chunks.len() - i
{
    if i < 0 || i >= chunks.len() { Seq::<u8>::empty() } else { chunks[i] + concat_from(chunks, i + 1) }
}
/// If every call of process() satisfies its contract (states[i] -> states[i+1] on chunks[i]) and finish() its own, then the
/// text and the error count delivered for ANY chunking are those of the one-shot lossy decoding of the concatenated input.
pub proof fn lemma_any_chunking(states: Seq<DState>, chunks: Seq<Seq<u8>>)
    requires
        states.len() == chunks.len() + 1,
        states[0] == (DState { out: Seq::<u8>::empty(), errs: 0, pend: Seq::<u8>::empty() }),
        forall|i: int, rest: Seq<u8>| 0 <= i < chunks.len() ==> #[trigger] fin(states[i + 1], rest) == fin(states[i], chunks[i] + rest),
    ensures
        fin(states[chunks.len() as int], Seq::<u8>::empty()) == lossy(concat_from(chunks, 0), 0),
{
    lemma_chunk_induction(states, chunks, 0);
    let all = concat_from(chunks, 0);
    assert(Seq::<u8>::empty() + all =~= all);
    assert(Seq::<u8>::empty() + lossy(all, 0).out =~= lossy(all, 0).out);
}
pub proof fn lemma_chunk_induction(states: Seq<DState>, chunks: Seq<Seq<u8>>, i: int)
    requires
        states.len() == chunks.len() + 1, 0 <= i <= chunks.len(),
        forall|j: int, rest: Seq<u8>| 0 <= j < chunks.len() ==> #[trigger] fin(states[j + 1], rest) == fin(states[j], chunks[j] + rest),
    ensures fin(states[i], concat_from(chunks, i)) == fin(states[chunks.len() as int], Seq::<u8>::empty()),
    decreases chunks.len() - i,
{
    if i < chunks.len() {
        lemma_chunk_induction(states, chunks, i + 1);
        assert(fin(states[i + 1], concat_from(chunks, i + 1)) == fin(states[i], chunks[i] + concat_from(chunks, i + 1)));
    }
}
