// ---- U-fcontent: "the rules for parsing tokens in foreign content" (13.2.6.5) and "insert an element" ----
pub uninterp spec fn w_ci_eq(a: LocalName, b: LocalName) -> bool;
impl LocalName {
    /// Atom::eq_ignore_ascii_case (ASSUMED: an uninterpreted relation; atoms are opaque integers here)
    #[verifier::external_body]
    pub fn eq_ignore_ascii_case(&self, other: &LocalName) -> (r: bool) ensures r == w_ci_eq(*self, *other) { unimplemented!() }
}
pub uninterp spec fn w_any_nws(s: Seq<char>) -> bool;
/// rules.rs any_not_whitespace (ASSUMED: `x.chars().any(|c| !c.is_ascii_whitespace())`)
#[verifier::external_body]
pub fn any_not_whitespace(x: &StrTendril) -> (r: bool) ensures r == w_any_nws(x.s@) { unimplemented!() }
/// the insertion-mode rules (rules.rs `step`): an uninterpreted function of the tree builder's state, the mode and the token
pub uninterp spec fn w_step(tb: TreeBuilder, mode: InsertionMode, token: Token) -> (TreeBuilder, ProcessResult);
pub uninterp spec fn w_adjust_mathml_attributes(t: Tag) -> Tag;
pub uninterp spec fn w_adjust_svg_tag_name(t: Tag) -> Tag;
pub uninterp spec fn w_adjust_svg_attributes(t: Tag) -> Tag;
pub uninterp spec fn w_adjust_foreign_attributes(t: Tag) -> Tag;
impl TreeBuilder {
    #[verifier::external_body]
    pub fn step(&mut self, mode: InsertionMode, token: Token) -> (r: ProcessResult)
        // (small(): ASSUMED machine fact - a Vec has fewer than usize::MAX entries)
        ensures (*final(self), r) == w_step(*old(self), mode, token), final(self).small(),
    { unimplemented!() }
    /// adjusted_current_node (ASSUMED glue over Ref::filter_map): the context element if the stack has one entry and there is
    /// one, else the current node
    #[verifier::external_body]
    pub fn adjusted_current_node(&self) -> (r: &Handle)
        requires self.stack().len() > 0,
        ensures *r == w_acn(self),
    { unimplemented!() }
    // the four adjustment functions: their tables are checked by U-foreign; here they are functions of the tag
    #[verifier::external_body]
    pub fn adjust_mathml_attributes(&self, tag: &mut Tag) ensures *final(tag) == w_adjust_mathml_attributes(*old(tag)) { unimplemented!() }
    #[verifier::external_body]
    pub fn adjust_svg_tag_name(&self, tag: &mut Tag) ensures *final(tag) == w_adjust_svg_tag_name(*old(tag)) { unimplemented!() }
    #[verifier::external_body]
    pub fn adjust_svg_attributes(&self, tag: &mut Tag) ensures *final(tag) == w_adjust_svg_attributes(*old(tag)) { unimplemented!() }
    #[verifier::external_body]
    pub fn adjust_foreign_attributes(&self, tag: &mut Tag) ensures *final(tag) == w_adjust_foreign_attributes(*old(tag)) { unimplemented!() }
}
pub open spec fn w_acn(tb: &TreeBuilder) -> Handle {
    if tb.stack().len() == 1 && tb.context_elem.v is Some { tb.context_elem.v.unwrap() } else { tb.stack().last() }
}
// the two integration-point predicates of tag_sets.rs (proved in U-dispatch against these definitions)
pub open spec fn w_mathml_tip(n: ExpandedName) -> bool {
    n.ns == ns!(mathml) && (n.local == local_name!("mi") || n.local == local_name!("mo") || n.local == local_name!("mn")
        || n.local == local_name!("ms") || n.local == local_name!("mtext"))
}
pub open spec fn w_svg_ip(n: ExpandedName) -> bool {
    n.ns == ns!(svg) && (n.local == local_name!("foreignObject") || n.local == local_name!("desc") || n.local == local_name!("title"))
}
/// "a start tag whose tag name is math / svg" (in body), after the reconstruction of the active formatting elements: adjust MathML
/// (SVG) attributes, adjust foreign attributes, insert a foreign element for the token in the MathML (SVG) namespace; a self-closing
/// element is not pushed and its flag is acknowledged
pub open spec fn w_enter_foreign(a: &TreeBuilder, b: &TreeBuilder, tag: Tag, ns: Namespace, r: ProcessResult) -> bool {
    let t1 = if ns == ns!(mathml) { w_adjust_mathml_attributes(tag) } else if ns == ns!(svg) { w_adjust_svg_attributes(tag) } else { tag };
    let t2 = w_adjust_foreign_attributes(t1);
    let e = fresh_handle(a.sink.created@);
    &&& b.same_but_stack(a)
    &&& elem_name_of(e) == (ExpandedName { ns: ns, local: t2.name })
    &&& b.sink == (Sink { created: Ghost(a.sink.created@ + 1), dom: Ghost(w_insert_dom(a, e, ns, t2.name, t2.attrs@, t2.had_duplicate_attributes)), ..a.sink })
    &&& (t2.self_closing ==> r is DoneAckSelfClosing && b.stack() == a.stack())
    &&& (!t2.self_closing ==> r is Done && b.stack() == a.stack().push(e))
}
/// the two integration-point lists above are what the repository's own predicates (tag_sets.rs, module `ts`) say (PROVED)
pub proof fn lemma_integration_points()
    ensures forall|p: ExpandedName| #[trigger] ts::mathml_text_integration_point(p) == w_mathml_tip(p),
            forall|p: ExpandedName| #[trigger] ts::svg_html_integration_point(p) == w_svg_ip(p),
{}
/// "a start tag whose tag name is one of: b, big, blockquote, body, br, center, code, dd, div, dl, dt, em, embed, h1 .. h6,
/// head, hr, i, img, li, listing, menu, meta, nobr, ol, p, pre, ruby, s, small, span, strong, strike, sub, sup, table, tt, u,
/// ul, var"
pub open spec fn w_breakout_start(n: LocalName) -> bool {
    n == local_name!("b") || n == local_name!("big") || n == local_name!("blockquote") || n == local_name!("body") || n == local_name!("br")
    || n == local_name!("center") || n == local_name!("code") || n == local_name!("dd") || n == local_name!("div") || n == local_name!("dl")
    || n == local_name!("dt") || n == local_name!("em") || n == local_name!("embed") || n == local_name!("h1") || n == local_name!("h2")
    || n == local_name!("h3") || n == local_name!("h4") || n == local_name!("h5") || n == local_name!("h6") || n == local_name!("head")
    || n == local_name!("hr") || n == local_name!("i") || n == local_name!("img") || n == local_name!("li") || n == local_name!("listing")
    || n == local_name!("menu") || n == local_name!("meta") || n == local_name!("nobr") || n == local_name!("ol") || n == local_name!("p")
    || n == local_name!("pre") || n == local_name!("ruby") || n == local_name!("s") || n == local_name!("small") || n == local_name!("span")
    || n == local_name!("strong") || n == local_name!("strike") || n == local_name!("sub") || n == local_name!("sup") || n == local_name!("table")
    || n == local_name!("tt") || n == local_name!("u") || n == local_name!("ul") || n == local_name!("var")
}
pub open spec fn is_font_attr() -> spec_fn(Attribute) -> bool {
    |a: Attribute| a.name.ns == ns!() && (a.name.local == local_name!("color") || a.name.local == local_name!("face") || a.name.local == local_name!("size"))
}
/// "a start tag whose tag name is font, if the token has any attributes named color, face, or size"; "an end tag whose tag
/// name is br, p"
pub open spec fn w_breaks_out(tag: Tag) -> bool {
    (tag.kind == TagKind::StartTag && (w_breakout_start(tag.name) || (tag.name == local_name!("font") && seq_any(tag.attrs@, is_font_attr()))))
    || (tag.kind == TagKind::EndTag && (tag.name == local_name!("br") || tag.name == local_name!("p")))
}
/// "while the current node is not a MathML text integration point, an HTML integration point, or an element in the HTML
/// namespace, pop elements from the stack of open elements".  An HTML integration point is a MathML annotation-xml element
/// whose encoding says so (the sink's answer), or an SVG foreignObject / desc / title element.
pub open spec fn breakout_stop_name() -> spec_fn(ExpandedName) -> bool { |n: ExpandedName| n.ns == ns!(html) || w_mathml_tip(n) || w_svg_ip(n) }
pub open spec fn is_annotation_xml() -> spec_fn(ExpandedName) -> bool { |n: ExpandedName| n == (ExpandedName { ns: ns!(mathml), local: local_name!("annotation-xml") }) }
pub open spec fn breakout_stop(h: Handle) -> bool {
    breakout_stop_name()(elem_name_of(h)) || (is_annotation_xml()(elem_name_of(h)) && annotation_xml_ip(h))
}
/// index of the topmost of the first n entries at which the break-out stops (-1: none)
pub open spec fn top_stop(st: Seq<Handle>, n: int) -> int
    decreases n
{
    if n <= 0 { -1 } else if breakout_stop(st[n - 1]) { n - 1 } else { top_stop(st, n - 1) }
}
pub proof fn lemma_top_stop(st: Seq<Handle>, n: int)
    requires 0 <= n <= st.len(),
    ensures -1 <= top_stop(st, n) < n, top_stop(st, n) >= 0 ==> breakout_stop(st[top_stop(st, n)]),
    decreases n,
{
    if n > 0 && !breakout_stop(st[n - 1]) { lemma_top_stop(st, n - 1); }
}
pub proof fn lemma_top_stop_prefix(a: Seq<Handle>, b: Seq<Handle>, n: int)
    requires 0 <= n <= a.len(), n <= b.len(), forall|j: int| 0 <= j < n ==> a[j] == b[j],
    ensures top_stop(a, n) == top_stop(b, n),
    decreases n,
{
    if n > 0 { lemma_top_stop_prefix(a, b, n - 1); }
}
/// any other end tag: 1. node := current node; 2. (parse error if its name is not the token's); 3. loop: if node is the topmost
/// element, return; 4. if node's name, lower-cased, is the token's: pop up to and including node, return; 5. node := previous
/// entry; 6. if node is not in the HTML namespace, back to loop; 7. otherwise process the token by the current insertion mode
pub enum ForeignEnd { Ignore, PopTo(int), Reprocess }
pub open spec fn w_foreign_end(st: Seq<Handle>, idx: int, first: bool, name: LocalName) -> ForeignEnd
    decreases idx
{
    if idx <= 0 { ForeignEnd::Ignore } else {
        let nm = elem_name_of(st[idx]);
        if !first && nm.ns == ns!(html) { ForeignEnd::Reprocess }
        else if w_ci_eq(nm.local, name) { ForeignEnd::PopTo(idx) }
        else { w_foreign_end(st, idx - 1, false, name) }
    }
}
/// the local tag sets of insert_element (rule R39, ASSUMED as for `implied`)
#[verifier::external_body]
pub fn form_associatable(p: ExpandedName) -> (r: bool) ensures r == is_form_associatable(p) { unimplemented!() }
#[verifier::external_body]
pub fn listed(p: ExpandedName) -> (r: bool) ensures r == (is_form_associatable(p) && p.local != local_name!("img")) { unimplemented!() }
pub open spec fn is_fffd(t: StrTendril) -> bool { t.s@ == seq!['\u{fffd}'] }
/// the node or text a DOM insertion inserts
pub open spec fn op_child(op: DomOp) -> NodeOrText {
    match op {
        DomOp::Append(_, c) => c,
        DomOp::AppendBeforeSibling(_, c) => c,
        DomOp::AppendBasedOnParent(_, _, c) => c,
        _ => arbitrary(),
    }
}
/// "any other start tag" in foreign content: adjust the attributes (MathML / SVG, with SVG tag-name fix-up; then foreign
/// attributes), insert a foreign element for the token in the adjusted current node's namespace; a self-closing element is
/// not pushed and its flag is acknowledged
pub open spec fn w_foreign_start(a: &TreeBuilder, b: &TreeBuilder, tag: Tag, r: ProcessResult) -> bool {
    let cns = elem_name_of(w_acn(a)).ns;
    let t1 = if cns == ns!(mathml) { w_adjust_mathml_attributes(tag) } else if cns == ns!(svg) { w_adjust_svg_attributes(w_adjust_svg_tag_name(tag)) } else { tag };
    let t2 = w_adjust_foreign_attributes(t1);
    let e = fresh_handle(a.sink.created@);
    &&& b.same_but_stack(a)
    &&& elem_name_of(e) == (ExpandedName { ns: cns, local: t2.name })
    &&& b.sink == (Sink { created: Ghost(a.sink.created@ + 1), dom: Ghost(w_insert_dom(a, e, cns, t2.name, t2.attrs@, t2.had_duplicate_attributes)), ..a.sink })
    &&& (t2.self_closing ==> r is DoneAckSelfClosing && b.stack() == a.stack())
    &&& (!t2.self_closing ==> r is Done && b.stack() == a.stack().push(e))
}
