// ======================================================================================
// WHATWG character references (§13.2.5.72 - 13.2.5.80) as a per-character spec machine.
// Hand-written from the standard (NOT from the code).  How the text of the standard is read:
//   * "consume the maximum number of characters possible [that are an identifier of the table]" is done one
//     character at a time: characters are taken while what has been taken is still a PREFIX of some identifier;
//     the first character that ends this is NOT consumed; the match is the LONGEST identifier that is a prefix
//     of what was taken (`longest_match`).  No identifier that starts with a non-prefix exists, so this is the
//     standard's maximum.
//   * "flush code points consumed as a character reference" = '&' and everything consumed after it become
//     ordinary text of the return state (`cr_fail`); nothing consumed by this machine is ever a line break.
//   * the ambiguous-ampersand state only delays: the ASCII alphanumerics it sees end up as the same ordinary
//     text (`BogusName` keeps them with the name and flushes at the end);
//   * the character reference code is a mathematical integer, saturated just above 0x10FFFF (all values
//     above it are treated alike by the numeric-character-reference-end state);
//   * parse errors are not part of the output.
// The table itself is the uninterpreted pair (ent_value, ent_prefix); see htok.spec.rs for what is assumed
// of it and DESIGN.md (C14) for how the generated table is compared with the WHATWG list on every run.
// ======================================================================================
pub struct AbsCr {
    pub state: CrState,
    /// the character reference code (0x110000 stands for every value above 0x10FFFF)
    pub val: int,
    pub seen_digit: bool,
    /// the 'x' / 'X' consumed after "&#"
    pub hex_marker: Option<char>,
    /// characters consumed by the named / ambiguous-ampersand states
    pub name: Seq<char>,
}
pub open spec fn cr_new() -> AbsCr {
    AbsCr { state: CrState::Begin, val: 0, seen_digit: false, hex_marker: None, name: Seq::<char>::empty() }
}
pub open spec fn cr_leave(a: AbsTok) -> AbsTok { AbsTok { cr: None, ..a } }
pub open spec fn cr_upd(a: AbsTok, cr: AbsCr) -> AbsTok { AbsTok { cr: Some(cr), ..a } }
/// the characters `x` become ordinary text of the return state
pub open spec fn flush_seq(a: AbsTok, x: Seq<char>) -> AbsTok {
    if a.state is AttributeValue { AbsTok { attr_value: a.attr_value + x, ..a } } else { emit_seq(a, x) }
}
/// not a character reference: "&" and the characters consumed after it stay what they were
pub open spec fn cr_fail(a: AbsTok, consumed: Seq<char>) -> AbsTok { flush_seq(cr_leave(a), seq!['&'] + consumed) }
/// one character handled by the return state (a host state of a character reference is never a look-ahead state)
pub open spec fn host_step(b: AbsTok, c: char) -> AbsTok { s_simple(pre_step(b, c), c) }
/// the character (if any) that ended the reference is reconsumed in the return state
pub open spec fn deliver(b: AbsTok, end: Option<char>) -> AbsTok {
    match end { Some(c) => host_step(b, c), None => b }
}

// ---------------- numeric references ----------------
pub open spec fn cr_digit(base: u32, c: char) -> Option<int> {
    if '0' <= c && c <= '9' { Some(c as int - 0x30) }
    else if base == 16 && 'a' <= c && c <= 'f' { Some(c as int - 0x57) }
    else if base == 16 && 'A' <= c && c <= 'F' { Some(c as int - 0x37) }
    else { None }
}
pub open spec fn cr_sat(v: int) -> int { if v > 0x10FFFF { 0x110000 } else { v } }
/// the table of the numeric-character-reference-end state
pub open spec fn c1_replacement(v: int) -> int {
    if v == 0x80 { 0x20AC } else if v == 0x82 { 0x201A } else if v == 0x83 { 0x0192 } else if v == 0x84 { 0x201E }
    else if v == 0x85 { 0x2026 } else if v == 0x86 { 0x2020 } else if v == 0x87 { 0x2021 } else if v == 0x88 { 0x02C6 }
    else if v == 0x89 { 0x2030 } else if v == 0x8A { 0x0160 } else if v == 0x8B { 0x2039 } else if v == 0x8C { 0x0152 }
    else if v == 0x8E { 0x017D } else if v == 0x91 { 0x2018 } else if v == 0x92 { 0x2019 } else if v == 0x93 { 0x201C }
    else if v == 0x94 { 0x201D } else if v == 0x95 { 0x2022 } else if v == 0x96 { 0x2013 } else if v == 0x97 { 0x2014 }
    else if v == 0x98 { 0x02DC } else if v == 0x99 { 0x2122 } else if v == 0x9A { 0x0161 } else if v == 0x9B { 0x203A }
    else if v == 0x9C { 0x0153 } else if v == 0x9E { 0x017E } else if v == 0x9F { 0x0178 } else { v }
}
/// numeric character reference end state: the code point a reference code stands for
pub open spec fn numeric_char(v: int) -> char {
    if v == 0 || v > 0x10FFFF || (0xD800 <= v && v <= 0xDFFF) { '\u{fffd}' }
    else { (c1_replacement(v) as u32) as char }
}
pub open spec fn opt_seq(o: Option<char>) -> Seq<char> { match o { Some(c) => seq![c], None => Seq::<char>::empty() } }
/// numeric character reference end state, entered on character `c` (a ';' is consumed, anything else reconsumed)
pub open spec fn cr_numeric_end(a: AbsTok, c: char) -> AbsTok {
    let b = flush1(cr_leave(a), numeric_char(a.cr.unwrap().val));
    if c == ';' { b } else { host_step(b, c) }
}
/// (hexadecimal | decimal) character reference (start) state
pub open spec fn cr_numeric(a: AbsTok, base: u32, c: char) -> AbsTok {
    let cr = a.cr.unwrap();
    match cr_digit(base, c) {
        Some(d) => cr_upd(a, AbsCr { val: cr_sat(cr.val * base + d), seen_digit: true, ..cr }),
        None => if !cr.seen_digit { host_step(cr_fail(a, seq!['#'] + opt_seq(cr.hex_marker)), c) } else { cr_numeric_end(a, c) },
    }
}

// ---------------- named references ----------------
/// length of the longest identifier of the table among the prefixes of `name` no longer than k (0: none)
pub open spec fn longest_match(name: Seq<char>, k: int) -> int
    decreases k
{
    if k <= 0 { 0 } else if ent_value(name.take(k)) is Some { k } else { longest_match(name, k - 1) }
}
/// the named state stops: `end` is the character that cannot continue any identifier (None: end of input)
pub open spec fn cr_named_end(a: AbsTok, end: Option<char>) -> AbsTok {
    let cr = a.cr.unwrap();
    let name = cr.name;
    let k = longest_match(name, name.len() as int);
    if k == 0 {
        if end is Some && spec_alnum(end.unwrap()) {
            // ambiguous ampersand state
            cr_upd(a, AbsCr { state: CrState::BogusName, name: name.push(end.unwrap()), ..cr })
        } else {
            deliver(cr_fail(a, name), end)
        }
    } else {
        let v = ent_value(name.take(k)).unwrap();
        let next = if k < name.len() { Some(name[k]) } else { end };
        if name[k - 1] != ';' && a.state is AttributeValue && next is Some && (next.unwrap() == '=' || spec_alnum(next.unwrap())) {
            // "for historical reasons": the attribute exception
            deliver(cr_fail(a, name), end)
        } else {
            let b = flush_chars(cr_leave(a), seq![v.0 as char, v.1 as char], if v.1 == 0 { 1int } else { 2int });
            deliver(flush_seq(b, name.skip(k)), end)
        }
    }
}
pub open spec fn cr_named(a: AbsTok, c: char) -> AbsTok {
    let cr = a.cr.unwrap();
    if ent_prefix(cr.name.push(c)) { cr_upd(a, AbsCr { name: cr.name.push(c), ..cr }) }
    else { cr_named_end(a, Some(c)) }
}

// ---------------- the machine ----------------
/// one input character while a character reference is being consumed (a.cr is Some)
#[verifier::opaque]
pub open spec fn cr_step(a: AbsTok, c: char) -> AbsTok {
    let cr = a.cr.unwrap();
    match cr.state {
        // character reference state
        CrState::Begin =>
            if spec_alnum(c) { cr_named(cr_upd(a, AbsCr { state: CrState::Named, name: Seq::<char>::empty(), ..cr }), c) }
            else if c == '#' { cr_upd(a, AbsCr { state: CrState::Octothorpe, ..cr }) }
            else { host_step(cr_fail(a, Seq::<char>::empty()), c) },
        // numeric character reference state
        CrState::Octothorpe =>
            if c == 'x' || c == 'X' { cr_upd(a, AbsCr { state: CrState::Numeric(16), hex_marker: Some(c), ..cr }) }
            else { cr_numeric(cr_upd(a, AbsCr { state: CrState::Numeric(10), hex_marker: None, ..cr }), 10, c) },
        CrState::Numeric(base) => cr_numeric(a, base, c),
        CrState::NumericSemicolon => cr_numeric_end(a, c),
        CrState::Named => cr_named(a, c),
        // ambiguous ampersand state
        CrState::BogusName =>
            if spec_alnum(c) { cr_upd(a, AbsCr { name: cr.name.push(c), ..cr }) }
            else { host_step(cr_fail(a, cr.name), c) },
    }
}
/// end of input while a character reference is being consumed
#[verifier::opaque]
pub open spec fn cr_eof(a: AbsTok) -> AbsTok {
    let cr = a.cr.unwrap();
    match cr.state {
        CrState::Begin => cr_fail(a, Seq::<char>::empty()),
        CrState::Octothorpe => cr_fail(a, seq!['#']),
        CrState::Numeric(_) => if !cr.seen_digit { cr_fail(a, seq!['#'] + opt_seq(cr.hex_marker)) }
                               else { flush1(cr_leave(a), numeric_char(cr.val)) },
        CrState::NumericSemicolon => flush1(cr_leave(a), numeric_char(cr.val)),
        CrState::Named => cr_named_end(a, None),
        CrState::BogusName => cr_fail(a, cr.name),
    }
}
