// ---- U-utf8: models and vocabulary for Utf8LossyDecoder (hand-written) ----
/// model of Tendril<fmt::Bytes, A> (ASSUMED contracts): a byte string
pub struct ByteTendril { pub v: Vec<u8> }
impl View for ByteTendril { type V = Seq<u8>; open spec fn view(&self) -> Seq<u8> { self.v@ } }
/// model of Tendril<fmt::UTF8, A>: its bytes are well-formed UTF-8 (the type's safety invariant)
pub struct Utf8Tendril { pub v: Vec<u8> }
impl View for Utf8Tendril { type V = Seq<u8>; open spec fn view(&self) -> Seq<u8> { self.v@ } }
impl ByteTendril {
    /// Deref<Target = [u8]>
    #[verifier::external_body]
    pub fn as_slice(&self) -> (r: &[u8]) ensures r@ == self@ { unimplemented!() }
    #[verifier::external_body]
    pub fn len(&self) -> (r: usize) ensures r == self@.len() { unimplemented!() }
    #[verifier::external_body]
    pub fn is_empty(&self) -> (r: bool) ensures r == (self@.len() == 0) { unimplemented!() }
    /// panics if n exceeds the length: an obligation of the caller
    #[verifier::external_body]
    pub fn pop_front(&mut self, n: u32)
        requires n as nat <= old(self)@.len(),
        ensures final(self)@ == old(self)@.subrange(n as int, old(self)@.len() as int),
    { unimplemented!() }
    #[verifier::external_body]
    pub fn subtendril(&self, offset: u32, length: u32) -> (r: ByteTendril)
        requires offset as nat + length as nat <= self@.len(),
        ensures r@ == self@.subrange(offset as int, offset as int + length as int),
    { unimplemented!() }
    /// reinterpret the bytes as UTF-8 text: its safety condition is an OBLIGATION of the caller
    #[verifier::external_body]
    pub unsafe fn reinterpret_without_validating(self) -> (r: Utf8Tendril)
        requires well_formed(self@),
        ensures r@ == self@,
    { unimplemented!() }
}
impl Utf8Tendril {
    #[verifier::external_body]
    pub fn from_slice(s: &str) -> (r: Utf8Tendril) ensures r@ == s.spec_bytes() { unimplemented!() }
}
/// str::len is the length in bytes (ASSUMED)
#[verifier::external_body]
pub fn str_len(s: &str) -> (r: usize) ensures r == s.spec_bytes().len() { unimplemented!() }
/// ASSUMED: the UTF-8 encoding of U+FFFD
#[verifier::external_body]
pub proof fn axiom_replacement_bytes() ensures REPLACEMENT_CHARACTER.spec_bytes() == repl() {}
pub struct Cow { pub x: u8 }
impl Cow {
    #[verifier::external_body]
    pub fn msg() -> Cow { unimplemented!() }
}
/// the inner sink (ASSUMED contract-abiding): a ghost log of the text and a count of the errors it was given
pub struct U8Sink { pub out: Ghost<Seq<u8>>, pub errs: Ghost<int> }
impl U8Sink {
    #[verifier::external_body]
    pub fn process(&mut self, t: Utf8Tendril) ensures final(self).out@ == old(self).out@ + t@, final(self).errs@ == old(self).errs@ { unimplemented!() }
    #[verifier::external_body]
    pub fn error(&mut self, desc: Cow) ensures final(self).out@ == old(self).out@, final(self).errs@ == old(self).errs@ + 1 { unimplemented!() }
    pub fn finish(self) -> (r: U8Sink) ensures r == self { self }
}
impl Utf8LossyDecoder {
    pub open spec fn pend(&self) -> Seq<u8> { match self.incomplete { Some(i) => i.pending(), None => Seq::<u8>::empty() } }
    /// between chunks the decoder carries nothing or a cut-off sequence
    pub open spec fn wf(&self) -> bool { match self.incomplete { Some(i) => i.wf() && inc_prefix(i.pending()), None => true } }
    /// simulation measure: what the inner sink will have received once `y` and then `rest` have been decoded and the
    /// stream ends
    pub open spec fn dsim(&self, y: Seq<u8>, rest: Seq<u8>) -> Dec {
        dec_add(self.inner_sink.out@, self.inner_sink.errs@, lossy(self.pend() + y + rest, 0))
    }
}
/// what the sink ends up with if it holds (out, errs) now and `y` then `r2` are still to be decoded from a boundary
pub open spec fn after(out: Seq<u8>, errs: int, y: Seq<u8>, r2: Seq<u8>) -> Dec { dec_add(out, errs, lossy(y + r2, 0)) }
pub proof fn lemma_dec_assoc(out: Seq<u8>, errs: int, a: Seq<u8>, e: int, d: Dec)
    ensures dec_add(out, errs, dec_add(a, e, d)) == dec_add(out + a, errs + e, d),
{
    assert(out + (a + d.out) =~= (out + a) + d.out);
}
/// decoding may be resumed at any boundary reached by a decided step
pub proof fn lemma_lossy_resume(s: Seq<u8>, k: int, r2: Seq<u8>)
    requires 0 <= k <= s.len(),
    ensures lossy(s + r2, k) == lossy(s.subrange(k, s.len() as int) + r2, 0),
{
    let a = s.subrange(0, k);
    let b = s.subrange(k, s.len() as int) + r2;
    assert(a + b =~= s + r2);
    lemma_lossy_shift(a, b, 0);
}
