// ======== BufferQueue abstraction ========
pub open spec fn flat(b: Seq<StrTendril>) -> Seq<char>
    decreases b.len()
{
    if b.len() == 0 { Seq::<char>::empty() } else { b[0]@ + flat(b.drop_first()) }
}
pub open spec fn no_empty(b: Seq<StrTendril>) -> bool {
    forall|i: int| 0 <= i < b.len() ==> (#[trigger] b[i])@.len() > 0
}
pub open spec fn is_member(bits: u64, c: char) -> bool {
    (c as u32) < 64 && set_has(bits, c as u8)
}
pub open spec fn no_member(bits: u64, s: Seq<char>) -> bool {
    forall|i: int| 0 <= i < s.len() ==> !is_member(bits, #[trigger] s[i])
}

impl BufferQueue {
    pub closed spec fn bufs(&self) -> Seq<StrTendril> { self.buffers.v@ }
    /// the queue seen as one flat character stream (C13's view)
    pub closed spec fn view(&self) -> Seq<char> { flat(self.buffers.v@) }
    /// data-structure invariant: no stored buffer is empty
    pub closed spec fn wf(&self) -> bool { no_empty(self.buffers.v@) }
}

// ======== lemmas (proved, no code involved) ========
pub proof fn lemma_flat_first(b: Seq<StrTendril>)
    requires b.len() > 0,
    ensures flat(b) == b[0]@ + flat(b.drop_first()),
{
}

pub proof fn lemma_flat_push_back(b: Seq<StrTendril>, t: StrTendril)
    ensures flat(b.push(t)) == flat(b) + t@,
    decreases b.len(),
{
    if b.len() == 0 {
        assert(b.push(t).drop_first() =~= b);
        assert(flat(b.push(t)) =~= t@ + flat(b));
        assert(flat(b) + t@ =~= t@);
        assert(t@ + flat(b) =~= t@);
    } else {
        lemma_flat_push_back(b.drop_first(), t);
        assert(b.push(t).drop_first() =~= b.drop_first().push(t));
        assert(flat(b.push(t)) =~= b[0]@ + (flat(b.drop_first()) + t@));
        assert(b[0]@ + (flat(b.drop_first()) + t@) =~= (b[0]@ + flat(b.drop_first())) + t@);
    }
}

pub proof fn lemma_flat_cons(b: Seq<StrTendril>, t: StrTendril)
    ensures flat(seq![t] + b) == t@ + flat(b),
{
    let c = seq![t] + b;
    assert(c[0] == t);
    assert(c.drop_first() =~= b);
}

pub proof fn lemma_front_update(b: Seq<StrTendril>, t: StrTendril)
    requires b.len() > 0,
    ensures
        flat(b.update(0, t)) == t@ + flat(b.drop_first()),
        flat(b) == b[0]@ + flat(b.drop_first()),
{
    assert(b.update(0, t).drop_first() =~= b.drop_first());
}

pub proof fn lemma_no_empty_flat(b: Seq<StrTendril>)
    requires no_empty(b),
    ensures (flat(b).len() == 0) == (b.len() == 0),
            b.len() > 0 ==> flat(b)[0] == b[0]@[0],
{
    if b.len() > 0 {
        assert(b[0]@.len() > 0);
    }
}

pub proof fn lemma_enc(c: char)
    ensures
        enc(c).len() == enc_len(c),
        (c as u32) < 0x80 ==> enc(c)[0] == (c as u32) as u8,
        (c as u32) >= 0x80 ==> forall|i: int| 0 <= i < enc(c).len() ==> #[trigger] enc(c)[i] >= 0x80,
{
    let n = c as u32;
    assert(n <= 0x10FFFF);
}

pub proof fn lemma_utf8_len_take_all(s: Seq<char>)
    ensures s.take(s.len() as int) == s
{
    assert(s.take(s.len() as int) =~= s);
}

/// If `n` is the length of the longest prefix of utf8(s) made of non-member bytes (the
/// postcondition of SmallCharSet::nonmember_prefix_len), then that prefix is exactly the
/// encoding of the longest member-free prefix of characters: it ends on a character
/// boundary, and is followed by a member character or by the end of the buffer.
pub proof fn lemma_prefix(bits: u64, s: Seq<char>, n: nat)
    requires
        n <= utf8(s).len(),
        forall|i: int| 0 <= i < n ==> !(set_has(bits, #[trigger] utf8(s)[i])),
        n < utf8(s).len() ==> set_has(bits, utf8(s)[n as int]),
    ensures
        cidx(s, n) <= s.len(),
        utf8(s.take(cidx(s, n) as int)).len() == n,
        no_member(bits, s.take(cidx(s, n) as int)),
        cidx(s, n) < s.len() ==> is_member(bits, s[cidx(s, n) as int]),
        n == 0 && s.len() > 0 ==> is_member(bits, s[0]),
        n > 0 ==> cidx(s, n) > 0,
    decreases s.len(),
{
    if s.len() == 0 {
        assert(s.take(0) =~= s);
    } else {
        let c = s[0];
        let r = s.drop_first();
        lemma_enc(c);
        assert(utf8(s) =~= enc(c) + utf8(r));
        let e = enc(c);
        if is_member(bits, c) {
            // first byte is the member itself
            assert(utf8(s)[0] == e[0]);
            assert(n == 0);
            assert(s.take(0) =~= Seq::<char>::empty());
        } else {
            // every byte of enc(c) is a non-member, so n covers all of enc(c)
            assert forall|i: int| 0 <= i < e.len() implies !(set_has(bits, #[trigger] e[i])) by {
                if (c as u32) < 0x80 { assert(e.len() == 1); assert(e[0] == (c as u32) as u8); }
            }
            if n < e.len() {
                assert(utf8(s)[n as int] == e[n as int]);
                assert(false);
            }
            let m = (n - e.len()) as nat;
            assert forall|i: int| 0 <= i < m implies !(set_has(bits, #[trigger] utf8(r)[i])) by {
                assert(utf8(s)[i + e.len()] == utf8(r)[i]);
            }
            if m < utf8(r).len() {
                assert(utf8(s)[n as int] == utf8(r)[m as int]);
            }
            lemma_prefix(bits, r, m);
            let k = cidx(r, m);
            assert(cidx(s, n) == 1 + k);
            assert(s.take(1 + k as int) =~= seq![c] + r.take(k as int));
            assert((seq![c] + r.take(k as int)).drop_first() =~= r.take(k as int));
            assert(utf8(s.take(1 + k as int)) =~= e + utf8(r.take(k as int)));
            assert forall|i: int| 0 <= i < s.take(1 + k as int).len() implies !is_member(bits, #[trigger] s.take(1 + k as int)[i]) by {
                if i > 0 { assert(s.take(1 + k as int)[i] == r.take(k as int)[i - 1]); }
            }
            if (1 + k) < s.len() { assert(s[1 + k as int] == r[k as int]); }
        }
    }
}

pub proof fn lemma_utf8_empty(s: Seq<char>)
    ensures (utf8(s).len() == 0) == (s.len() == 0),
{
    if s.len() > 0 { lemma_enc(s[0]); }
}

// ======== eat ========
/// what `eat` must answer, as a prefix comparison of the flat byte stream `v` against pattern `p`
pub open spec fn eat_result<F: Fn(&u8, &u8) -> bool>(v: Seq<u8>, p: Seq<u8>, eq: F, r: Option<bool>) -> bool {
    match r {
        Some(true) => p.len() <= v.len() && forall|i: int| 0 <= i < p.len() ==> #[trigger] eq_at(eq, v, p, i, true),
        Some(false) => exists|k: int| 0 <= k < p.len() && k < v.len()
            && (forall|i: int| 0 <= i < k ==> #[trigger] eq_at(eq, v, p, i, true))
            && eq_at(eq, v, p, k, false),
        None => v.len() < p.len() && forall|i: int| 0 <= i < v.len() ==> #[trigger] eq_at(eq, v, p, i, true),
    }
}

pub open spec fn eq_at<F: Fn(&u8, &u8) -> bool>(eq: F, v: Seq<u8>, p: Seq<u8>, i: int, res: bool) -> bool {
    eq.ensures((&v[i], &p[i]), res)
}
/// a pure-ASCII byte prefix of length n is a prefix of n one-byte characters
pub proof fn lemma_ascii_prefix(s: Seq<char>, n: nat)
    requires n <= utf8(s).len(), forall|i: int| 0 <= i < n ==> #[trigger] utf8(s)[i] < 128,
    ensures
        n <= s.len(),
        cidx(s, n) == n,
        utf8(s.take(n as int)).len() == n,
        n < utf8(s).len() ==> n < s.len(),
        forall|i: int| 0 <= i < n ==> (#[trigger] s[i] as u32) < 128 && utf8(s)[i] == s[i] as u8,
    decreases n,
{
    if n == 0 {
        assert(s.take(0) =~= Seq::<char>::empty());
        lemma_utf8_empty(s);
    } else {
        lemma_utf8_empty(s);
        let c = s[0];
        let r = s.drop_first();
        lemma_enc(c);
        assert(utf8(s) =~= enc(c) + utf8(r));
        assert(utf8(s)[0] == enc(c)[0]);
        assert((c as u32) < 128);
        assert forall|i: int| 0 <= i < n - 1 implies #[trigger] utf8(r)[i] < 128 by {
            assert(utf8(s)[i + 1] == utf8(r)[i]);
        }
        lemma_ascii_prefix(r, (n - 1) as nat);
        assert(s.take(n as int) =~= seq![c] + r.take(n - 1));
        assert((seq![c] + r.take(n - 1)).drop_first() =~= r.take(n - 1));
        assert forall|i: int| 0 <= i < n implies (#[trigger] s[i] as u32) < 128 && utf8(s)[i] == s[i] as u8 by {
            if i > 0 { assert(s[i] == r[i - 1]); assert(utf8(s)[i] == utf8(r)[i - 1]); }
        }
    }
}
pub proof fn lemma_eat_commit(b: Seq<StrTendril>, be: int, cfl: int, n: int)
    requires
        no_empty(b), 0 <= be <= b.len(), 0 <= cfl,
        be < b.len() ==> cfl < utf8(b[be]@).len(),
        be == b.len() ==> cfl == 0,
        n == boff(b, be) + cfl,
        forall|i: int| 0 <= i < n ==> #[trigger] utf8(flat(b))[i] < 128,
    ensures
        n <= flat(b).len(),
        n <= utf8(flat(b)).len(),
        forall|i: int| 0 <= i < n ==> (#[trigger] flat(b)[i] as u32) < 128 && utf8(flat(b))[i] == flat(b)[i] as u8,
        be < b.len() ==> is_boundary(b[be]@, cfl as nat) && cidx(b[be]@, cfl as nat) == cfl && cfl < b[be]@.len()
            && flat(b).skip(n) =~= b[be]@.skip(cfl) + flat(b.skip(be + 1)),
        be == b.len() ==> flat(b).skip(n) =~= Seq::<char>::empty(),
{
    let v = utf8(flat(b));
    lemma_boff_facts(b, be);
    lemma_flat_split(b, be);
    let pre = flat(b.take(be));
    lemma_utf8_concat(pre, flat(b.skip(be)));
    assert(n <= v.len()) by {
        if be < b.len() { lemma_boff_facts(b, be + 1); }
    }
    lemma_ascii_prefix(flat(b), n as nat);
    assert forall|i: int| 0 <= i < utf8(pre).len() implies #[trigger] utf8(pre)[i] < 128 by {
        assert(v[i] == utf8(pre)[i]);
    }
    lemma_ascii_prefix(pre, utf8(pre).len());
    assert(pre.take(pre.len() as int) =~= pre);
    assert(pre.len() == boff(b, be)) by {
        // n_pre <= pre.len() and utf8(pre.take(n_pre)).len() == n_pre == utf8(pre).len()
        let m = utf8(pre).len();
        if m < pre.len() {
            // pre.take(m) is a strict prefix but has the same encoded length: impossible
            lemma_utf8_concat(pre.take(m as int), pre.skip(m as int));
            assert(pre =~= pre.take(m as int) + pre.skip(m as int));
            lemma_utf8_empty(pre.skip(m as int));
        }
    }
    if be < b.len() {
        lemma_flat_first(b.skip(be));
        assert(b.skip(be)[0] == b[be]);
        assert(b.skip(be).drop_first() =~= b.skip(be + 1));
        lemma_utf8_concat(b[be]@, flat(b.skip(be + 1)));
        assert forall|i: int| 0 <= i < cfl implies #[trigger] utf8(b[be]@)[i] < 128 by {
            assert(v[boff(b, be) + i] == utf8(b[be]@)[i]);
        }
        lemma_ascii_prefix(b[be]@, cfl as nat);
        assert(flat(b) =~= pre + (b[be]@ + flat(b.skip(be + 1))));
        assert(flat(b).skip(pre.len() + cfl) =~= b[be]@.skip(cfl) + flat(b.skip(be + 1)));
    } else {
        assert(b.skip(be) =~= Seq::<StrTendril>::empty());
        assert(flat(b) =~= pre);
        assert(flat(b).skip(n) =~= Seq::<char>::empty());
    }
}
/// ASSUMED: a tendril's byte length is stored in a u32
#[verifier::external_body]
pub proof fn axiom_tendril_len(t: StrTendril)
    ensures utf8(t@).len() <= u32::MAX,
{}
/// byte offset of buffer `j` inside utf8(flat(b))
pub open spec fn boff(b: Seq<StrTendril>, j: int) -> nat { utf8(flat(b.take(j))).len() }

pub proof fn lemma_utf8_concat(x: Seq<char>, y: Seq<char>)
    ensures utf8(x + y) == utf8(x) + utf8(y),
    decreases x.len(),
{
    if x.len() == 0 {
        assert(x + y =~= y);
        assert(utf8(x) + utf8(y) =~= utf8(y));
    } else {
        lemma_utf8_concat(x.drop_first(), y);
        assert((x + y).drop_first() =~= x.drop_first() + y);
        assert(utf8(x + y) =~= enc(x[0]) + (utf8(x.drop_first()) + utf8(y)));
        assert(enc(x[0]) + (utf8(x.drop_first()) + utf8(y)) =~= (enc(x[0]) + utf8(x.drop_first())) + utf8(y));
    }
}

pub proof fn lemma_flat_split(b: Seq<StrTendril>, j: int)
    requires 0 <= j <= b.len(),
    ensures flat(b) == flat(b.take(j)) + flat(b.skip(j)),
    decreases j,
{
    if j == 0 {
        assert(b.take(0) =~= Seq::<StrTendril>::empty());
        assert(b.skip(0) =~= b);
        assert(flat(b.take(0)) + flat(b) =~= flat(b));
    } else {
        lemma_flat_split(b, j - 1);
        assert(b.take(j) =~= b.take(j - 1).push(b[j - 1]));
        lemma_flat_push_back(b.take(j - 1), b[j - 1]);
        assert(b.skip(j - 1)[0] == b[j - 1]);
        assert(b.skip(j - 1).drop_first() =~= b.skip(j));
        assert(flat(b.skip(j - 1)) =~= b[j - 1]@ + flat(b.skip(j)));
        assert(flat(b) =~= (flat(b.take(j - 1)) + b[j - 1]@) + flat(b.skip(j)));
    }
}

pub proof fn lemma_boff_facts(b: Seq<StrTendril>, j: int)
    requires 0 <= j <= b.len(),
    ensures
        boff(b, 0) == 0,
        boff(b, b.len() as int) == utf8(flat(b)).len(),
        boff(b, j) <= utf8(flat(b)).len(),
        utf8(flat(b)) =~= utf8(flat(b.take(j))) + utf8(flat(b.skip(j))),
        j < b.len() ==> boff(b, j + 1) == boff(b, j) + utf8(b[j]@).len()
            && (forall|i: int| 0 <= i < utf8(b[j]@).len() ==> utf8(flat(b))[boff(b, j) + i] == #[trigger] utf8(b[j]@)[i]),
{
    assert(b.take(0) =~= Seq::<StrTendril>::empty());
    assert(b.take(b.len() as int) =~= b);
    lemma_flat_split(b, j);
    lemma_utf8_concat(flat(b.take(j)), flat(b.skip(j)));
    if j < b.len() {
        assert(b.take(j + 1) =~= b.take(j).push(b[j]));
        lemma_flat_push_back(b.take(j), b[j]);
        lemma_utf8_concat(flat(b.take(j)), b[j]@);
        assert(b.skip(j)[0] == b[j]);
        assert(b.skip(j).drop_first() =~= b.skip(j + 1));
        lemma_utf8_concat(b[j]@, flat(b.skip(j + 1)));
        assert(flat(b.skip(j)) =~= b[j]@ + flat(b.skip(j + 1)));
    }
}
