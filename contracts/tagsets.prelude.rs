// ======== U-tagsets prelude ========
#[derive(PartialEq, Eq, Clone, Copy, Structural)]
pub struct LocalName(pub u64);
#[derive(PartialEq, Eq, Clone, Copy, Structural)]
pub struct Namespace(pub u64);
#[derive(PartialEq, Eq, Clone, Copy, Structural)]
pub struct ExpandedName { pub ns: Namespace, pub local: LocalName }
