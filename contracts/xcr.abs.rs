// ======== XML character-reference sub-tokenizer (xml5ever/src/tokenizer/char_ref/mod.rs): vocabulary of U-xcr ========
// There is no normative XML5 machine to compare with.  What C15 needs of this code is stated directly:
//  (S) suspension: a step answers Stuck exactly when no input is pending, and then changes nothing - so where the
//      chunk boundaries fall cannot influence any decision;
//  (K) conservation: what the sub-tokenizer has read but not turned into a result (its "spelling") followed by the
//      pending input is constant; when it gives up, exactly that text is back in front of the queue (nothing lost,
//      nothing doubled); only the digits of a numeric reference are absorbed;
//  (N) normalisation: the host's pending-CR flag and re-consume flag are off for the whole life of the sub-tokenizer,
//      so its raw look-ahead (peek / discard_raw_char) and the normalising reads (discard_char) see the same stream,
//      and text pushed back is normalised when it is read again, exactly once.

pub open spec fn xopt_seq(c: Option<char>) -> Seq<char> { match c { Some(c) => seq![c], None => Seq::<char>::empty() } }

impl CharRefTokenizer {
    /// content of the name buffer
    pub open spec fn nb(&self) -> Seq<char> { match self.name_buf_opt { Some(t) => t@, None => Seq::<char>::empty() } }
    /// digits have been absorbed into `num`: from here on nothing is given back
    pub open spec fn committed(&self) -> bool { (self.state is Numeric || self.state is NumericSemicolon) && self.seen_digit }
    /// the text read so far that is given back if this turns out not to be a reference
    pub open spec fn spell(&self) -> Seq<char> {
        match self.state {
            CrState::Begin => Seq::<char>::empty(),
            CrState::Octothorpe => seq!['#'],
            CrState::Numeric(_) | CrState::NumericSemicolon =>
                if self.seen_digit { Seq::<char>::empty() } else { seq!['#'] + xopt_seq(self.hex_marker) },
            CrState::Named | CrState::BogusName => self.nb(),
        }
    }
    /// the recorded longest match is a match of a prefix of `name0`
    pub open spec fn match_ok(&self, name0: Seq<char>) -> bool {
        match self.name_match {
            None => true,
            Some(m) => 0 < self.name_len <= name0.len() && ent_value(name0.take(self.name_len as int)) == Some(m),
        }
    }
    /// representation invariant between steps
    pub open spec fn cwf(&self) -> bool {
        &&& self.result is None
        &&& match self.state {
            CrState::Begin => self.name_match is None && !self.seen_digit,
            CrState::Octothorpe => !self.seen_digit,
            CrState::Numeric(b) => (b == 10 && self.hex_marker is None) || (b == 16 && (self.hex_marker == Some('x') || self.hex_marker == Some('X'))),
            CrState::NumericSemicolon => self.seen_digit,
            CrState::Named => self.name_buf_opt is Some && ent_prefix(self.nb()) && self.match_ok(self.nb()),
            CrState::BogusName => self.name_buf_opt is Some && self.name_match is None,
        }
    }
}

/// (N) the host as the sub-tokenizer needs it
pub open spec fn xcr_host_ok(t: &XmlTokenizer, q: &BufferQueue) -> bool {
    &&& t.wf() && q.wf()
    &&& cr_host(t.ctl().state) && !t.ctl().ig && !t.ctl().recons && !t.ctl().cr && t.ctl().temp.len() == 0
}
pub open spec fn xcr_pre(cr: &CharRefTokenizer, t: &XmlTokenizer, q: &BufferQueue) -> bool { xcr_host_ok(t, q) && cr.cwf() }
/// what a sub-tokenizer function may change in the host: the last character read
pub open spec fn xcr_frame(t0: &XmlTokenizer, t1: &XmlTokenizer) -> bool {
    &&& t1.same_config(t0) && t1.buf() == t0.buf()
    &&& t1.ctl() == (XCtl { cur: t1.ctl().cur, ..t0.ctl() })
    &&& t1.wf()
}
pub open spec fn xcr_result_ok(c: CharRef) -> bool { c.num_chars <= 2 }
/// (S) + (K) for one step
pub open spec fn xcr_post(cr0: &CharRefTokenizer, t0: &XmlTokenizer, q0: &BufferQueue,
                          cr1: &CharRefTokenizer, t1: &XmlTokenizer, q1: &BufferQueue, r: Status) -> bool {
    let p0 = q0.view();
    let p1 = q1.view();
    let all0 = cr0.spell() + p0;
    &&& xcr_frame(t0, t1) && q1.wf()
    &&& ((r is Stuck) <==> p0.len() == 0)
    &&& (r is Stuck ==> *cr1 == *cr0 && t1.ctl() == t0.ctl() && p1 == p0)
    &&& ((r is Done) <==> cr1.result is Some)
    &&& (r is Progress ==> cr1.cwf() && cr1.addnl_allowed == cr0.addnl_allowed
            && (cr1.spell() + p1 =~= all0 || (cr1.committed() && p1 =~= p0.drop_first())))
    &&& (r is Done ==> xcr_done(cr0, p0, cr1, p1))
}
/// (K) when the sub-tokenizer finishes: "not a reference" gives everything back; a reference consumed a prefix
pub open spec fn xcr_done(cr0: &CharRefTokenizer, p0: Seq<char>, cr1: &CharRefTokenizer, p1: Seq<char>) -> bool {
    let all0 = cr0.spell() + p0;
    &&& cr1.result is Some && xcr_result_ok(cr1.result.unwrap())
    &&& (cr1.result.unwrap().num_chars == 0 ==> p1 =~= all0)
    &&& (cr1.result.unwrap().num_chars > 0 ==> is_suffix(p1, all0))
}
pub proof fn lemma_xnorm_nonempty(v: Seq<char>)
    ensures (xnorm(false, v).len() == 0) == (v.len() == 0),
{
    lemma_xnorm_len(false, v);
}

/// (N) in the state the sub-tokenizer runs in, the normalised pending stream is the normalised queue
pub proof fn lemma_xcr_pend(t: &XmlTokenizer, q: &BufferQueue)
    requires xcr_host_ok(t, q),
    ensures t.pend(q) == xnorm(false, q.view()), (t.pend(q).len() == 0) == (q.view().len() == 0),
{
    lemma_xnorm_nonempty(q.view());
}
pub proof fn lemma_suffix_of_concat(a: Seq<char>, b: Seq<char>, k: int)
    requires 0 <= k <= b.len(),
    ensures is_suffix(b.skip(k), a + b), is_suffix(b, a + b),
{
    assert((a + b).skip(a.len() + k) =~= b.skip(k));
    assert((a + b).skip(a.len() as int) =~= b);
}
pub open spec fn name_before_end(nb: Seq<char>, end_char: Option<char>) -> Seq<char> { if end_char is Some { nb.drop_last() } else { nb } }
