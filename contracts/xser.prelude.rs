// ======== U-xser prelude (hand-written; not code from /repo) ========
#[derive(PartialEq, Eq, Clone, Copy, Structural)]
pub struct LocalName(pub u64);
#[derive(PartialEq, Eq, Clone, Copy, Structural)]
pub struct Namespace(pub u64);
#[derive(PartialEq, Eq, Clone, Copy, Structural)]
pub struct Prefix(pub u64);
/// the string of an atom (atoms are equal iff their strings are; rule R4)
pub uninterp spec fn local_bytes(id: u64) -> Seq<u8>;
pub uninterp spec fn ns_bytes(id: u64) -> Seq<u8>;
pub uninterp spec fn prefix_bytes(id: u64) -> Seq<u8>;
impl LocalName {
    #[verifier::external_body]
    pub fn as_bytes(&self) -> (r: &[u8]) ensures r@ == local_bytes(self.0) { unimplemented!() }
}
impl Prefix {
    #[verifier::external_body]
    pub fn as_bytes(&self) -> (r: &[u8]) ensures r@ == prefix_bytes(self.0) { unimplemented!() }
}
impl Namespace {
    #[verifier::external_body]
    pub fn as_bytes(&self) -> (r: &[u8]) ensures r@ == ns_bytes(self.0) { unimplemented!() }
    /// `ns.is_empty()` through Deref<Target = str>: the empty atom is ns!()
    #[verifier::external_body]
    pub fn is_empty(&self) -> (r: bool) ensures r == (*self == ns!()), r == (ns_bytes(self.0).len() == 0) { unimplemented!() }
    /// Namespace::from(&*ns): interning the string of an atom gives the atom back
    pub fn from_ns(n: &Namespace) -> (r: Namespace) ensures r == *n { *n }
}
#[derive(Clone, Copy)]
pub struct QualName { pub prefix: Option<Prefix>, pub ns: Namespace, pub local: LocalName }
pub struct IoError { pub x: u8 }
pub type IoResult = Result<(), IoError>;
/// byte sink: write_all either appends everything or fails
pub struct Writer { pub log: Ghost<Seq<u8>> }
impl Writer {
    #[verifier::external_body]
    pub fn write_all(&mut self, buf: &[u8]) -> (r: IoResult)
        ensures r is Ok ==> final(self).log@ == old(self).log@ + buf@,
    { unimplemented!() }
    /// model of `write_fmt(format_args!("{c}"))` (ASSUMED): Display of a char is its UTF-8 encoding
    #[verifier::external_body]
    pub fn write_char(&mut self, c: char) -> (r: IoResult)
        ensures r is Ok ==> final(self).log@ == old(self).log@ + enc(c),
    { unimplemented!() }
}
pub open spec fn enc(c: char) -> Seq<u8> {
    let n = c as u32;
    if n < 0x80 { seq![n as u8] }
    else if n < 0x800 { seq![(0xC0 + n / 64) as u8, (0x80 + n % 64) as u8] }
    else if n < 0x10000 { seq![(0xE0 + n / 4096) as u8, (0x80 + (n / 64) % 64) as u8, (0x80 + n % 64) as u8] }
    else { seq![(0xF0 + n / 262144) as u8, (0x80 + (n / 4096) % 64) as u8, (0x80 + (n / 64) % 64) as u8, (0x80 + n % 64) as u8] }
}
/// R7 model of `str::chars()` (ASSUMED): the scalar values of the string
#[verifier::external_body]
pub fn str_chars(s: &str) -> (r: Vec<char>) ensures r@ == s@ { unimplemented!() }

// ---- specification of XML escaping ----
pub open spec fn x_amp() -> Seq<u8> { seq![38u8, 97, 109, 112, 59] }          // &amp;
pub open spec fn x_apos() -> Seq<u8> { seq![38u8, 97, 112, 111, 115, 59] }    // &apos;
pub open spec fn x_quot() -> Seq<u8> { seq![38u8, 113, 117, 111, 116, 59] }   // &quot;
pub open spec fn x_lt() -> Seq<u8> { seq![38u8, 108, 116, 59] }               // &lt;
pub open spec fn x_gt() -> Seq<u8> { seq![38u8, 103, 116, 59] }               // &gt;
pub open spec fn x_cr() -> Seq<u8> { seq![38u8, 35, 49, 51, 59] }            // &#13;
pub open spec fn xesc1(c: char, attr: bool) -> Seq<u8> {
    if c == '&' { x_amp() }
    // a literal CR would come back as LF (input preprocessing of every XML parser), so it is written as a reference
    else if c == '\r' { x_cr() }
    else if c == '\'' && attr { x_apos() }
    else if c == '"' && attr { x_quot() }
    else if c == '<' && !attr { x_lt() }
    else if c == '>' && !attr { x_gt() }
    else { enc(c) }
}
pub open spec fn xesc(s: Seq<char>, attr: bool) -> Seq<u8>
    decreases s.len()
{
    if s.len() == 0 { Seq::<u8>::empty() } else { xesc(s.drop_last(), attr) + xesc1(s.last(), attr) }
}
/// what the property needs of the escaped form: in text no '<' (markup cannot start), in attribute values neither quote
/// (the value cannot end), no literal CR (it would be normalised away), and '&' only starts a reference
pub open spec fn confined(b: Seq<u8>, attr: bool) -> bool {
    forall|i: int| 0 <= i < b.len() ==> #[trigger] b[i] != 13 && (if attr { b[i] != 34 && b[i] != 39 } else { b[i] != 60 })
}
pub proof fn lemma_enc_bytes(c: char)
    ensures (c as u32) < 0x80 ==> enc(c) == seq![(c as u32) as u8],
            (c as u32) >= 0x80 ==> forall|i: int| 0 <= i < enc(c).len() ==> #[trigger] enc(c)[i] >= 0x80,
{
    let n = c as u32;
    if n >= 0x80 {
        assert forall|i: int| 0 <= i < enc(c).len() implies #[trigger] enc(c)[i] >= 0x80 by {
            if n < 0x800 { assert(n / 64 < 32); }
            else if n < 0x10000 { assert(n / 4096 < 16); }
            else { assert(n <= 0x10FFFF); assert(n / 262144 < 8); }
        }
    }
}
pub proof fn lemma_xesc_confined(s: Seq<char>, attr: bool)
    ensures confined(xesc(s, attr), attr),
    decreases s.len(),
{
    if s.len() > 0 {
        lemma_xesc_confined(s.drop_last(), attr);
        let a = xesc(s.drop_last(), attr);
        let h = xesc1(s.last(), attr);
        lemma_enc_bytes(s.last());
        assert forall|i: int| 0 <= i < (a + h).len() implies #[trigger] (a + h)[i] != 13 && (if attr { (a + h)[i] != 34 && (a + h)[i] != 39 } else { (a + h)[i] != 60 }) by {
            if i < a.len() { assert((a + h)[i] == a[i]); } else { assert((a + h)[i] == h[i - a.len()]); }
        }
    }
}
/// decoding: the five references give their character back, every other byte stands for itself
pub open spec fn starts(s: Seq<u8>, p: Seq<u8>) -> bool { s.len() >= p.len() && s.take(p.len() as int) == p }
pub open spec fn xunesc(s: Seq<u8>) -> Seq<u8>
    decreases s.len()
{
    if s.len() == 0 { Seq::<u8>::empty() }
    else if starts(s, x_amp()) { seq![38u8] + xunesc(s.skip(5)) }
    else if starts(s, x_apos()) { seq![39u8] + xunesc(s.skip(6)) }
    else if starts(s, x_quot()) { seq![34u8] + xunesc(s.skip(6)) }
    else if starts(s, x_lt()) { seq![60u8] + xunesc(s.skip(4)) }
    else if starts(s, x_gt()) { seq![62u8] + xunesc(s.skip(4)) }
    else if starts(s, x_cr()) { seq![13u8] + xunesc(s.skip(5)) }
    else { seq![s[0]] + xunesc(s.drop_first()) }
}
pub open spec fn utf8s(s: Seq<char>) -> Seq<u8>
    decreases s.len()
{
    if s.len() == 0 { Seq::<u8>::empty() } else { utf8s(s.drop_last()) + enc(s.last()) }
}

// ---- namespace bookkeeping ----
pub open spec fn lookup(stack: Seq<NamespaceMap>, p: Option<Prefix>) -> Option<Option<Namespace>>
    decreases stack.len()
{
    if stack.len() == 0 { None }
    else if stack.last().scope@.dom().contains(p) { Some(stack.last().scope@[p]) }
    else { lookup(stack.drop_last(), p) }
}
/// the innermost binding of the name's prefix is a Some(uri) equal to the name's namespace
pub open spec fn bound(stack: Seq<NamespaceMap>, q: QualName) -> bool {
    lookup(stack, q.prefix) matches Some(Some(u)) && u == q.ns
}
/// no default namespace is in force (never declared, un-declared, or declared empty)
pub open spec fn no_default(stack: Seq<NamespaceMap>) -> bool {
    match lookup(stack, None) { None => true, Some(None) => true, Some(Some(u)) => u == ns!() }
}
/// an element name re-parses into the same namespace: its prefix (or the default namespace) is bound to its
/// namespace; an unprefixed name in no namespace needs no default namespace in force
pub open spec fn elem_ok(stack: Seq<NamespaceMap>, q: QualName) -> bool {
    if q.prefix.is_none() && q.ns == ns!() { no_default(stack) } else { bound(stack, q) }
}
/// an attribute name re-parses into the same namespace: unprefixed attributes are in no namespace whatever is
/// declared; a prefixed one needs its prefix bound
pub open spec fn attr_ok(stack: Seq<NamespaceMap>, q: QualName) -> bool {
    if q.prefix.is_none() { q.ns == ns!() } else { bound(stack, q) }
}
/// every map of the serializer's stack is a well-formed map model and binds prefixes to a Some(uri) only
/// (the serializer never records an un-declaration)
pub open spec fn map_ok(m: NamespaceMap) -> bool {
    m.scope.wf() && forall|p: Option<Prefix>| m.scope@.dom().contains(p) ==> (#[trigger] m.scope@[p]).is_some()
}
pub open spec fn stack_wf(stack: Seq<NamespaceMap>) -> bool { forall|i: int| 0 <= i < stack.len() ==> map_ok(#[trigger] stack[i]) }
pub proof fn lemma_lookup_skip(stack: Seq<NamespaceMap>, i: int, p: Option<Prefix>)
    requires 0 <= i <= stack.len(), forall|j: int| i <= j < stack.len() ==> !(#[trigger] stack[j]).scope@.dom().contains(p),
    ensures lookup(stack, p) == lookup(stack.take(i), p),
    decreases stack.len() - i,
{
    if i == stack.len() { assert(stack.take(i) =~= stack); }
    else {
        assert(!stack.last().scope@.dom().contains(p));
        lemma_lookup_skip(stack.drop_last(), i, p);
        assert(stack.drop_last().take(i) =~= stack.take(i));
    }
}
/// the innermost map gains the binding k -> v (or stays as it is): other prefixes resolve as before
pub proof fn lemma_lookup_insert(a: Seq<NamespaceMap>, b: Seq<NamespaceMap>, k: Option<Prefix>, v: Option<Namespace>, p: Option<Prefix>)
    requires a.len() > 0, b.len() == a.len(), forall|i: int| 0 <= i < a.len() - 1 ==> b[i] == a[i],
        b.last().scope@ == a.last().scope@.insert(k, v),
    ensures p != k ==> lookup(b, p) == lookup(a, p), lookup(b, k) == Some(v),
{
    assert(b.drop_last() =~= a.drop_last());
}
/// names with the same prefix are in the same namespace (they were resolved in the same scope)
pub open spec fn same_scope(x: QualName, y: QualName) -> bool { x.prefix == y.prefix ==> x.ns == y.ns }

pub open spec fn qn_bytes(q: QualName) -> Seq<u8> {
    (match q.prefix { Some(p) => prefix_bytes(p.0) + seq![58u8], None => Seq::<u8>::empty() }) + local_bytes(q.local.0)
}
/// the xmlns declarations written for the entries e[0..k)
pub open spec fn decl1(e: (Option<Prefix>, Option<Namespace>)) -> Seq<u8> {
    b" xmlns"@ + (match e.0 { Some(p) => seq![58u8] + prefix_bytes(p.0), None => Seq::<u8>::empty() }) + b"=\""@
        + (match e.1 { Some(u) => ns_bytes(u.0), None => Seq::<u8>::empty() }) + b"\""@
}
pub open spec fn decls(e: Seq<(Option<Prefix>, Option<Namespace>)>, k: int) -> Seq<u8>
    decreases k
{
    if k <= 0 { Seq::<u8>::empty() } else { decls(e, k - 1) + decl1(e[k - 1]) }
}
pub type AttrRef<'a> = (&'a QualName, &'a str);
pub open spec fn attr1(a: (&QualName, &str)) -> Seq<u8> {
    b" "@ + qn_bytes(*a.0) + b"=\""@ + xesc(a.1@, true) + b"\""@
}
pub open spec fn attrs_bytes(a: Seq<(&QualName, &str)>, k: int) -> Seq<u8>
    decreases k
{
    if k <= 0 { Seq::<u8>::empty() } else { attrs_bytes(a, k - 1) + attr1(a[k - 1]) }
}

/// ASSUMED: contents of the byte-string literals used by the escaper (Verus does not expose literal contents)
#[verifier::external_body]
pub proof fn axiom_xlit()
    ensures b"&amp;"@ == x_amp(), b"&apos;"@ == x_apos(), b"&quot;"@ == x_quot(), b"&lt;"@ == x_lt(), b"&gt;"@ == x_gt(), b"&#13;"@ == x_cr(),
        b":"@ == seq![58u8],
{}

// ---- reversibility: decoding the escaped form gives the UTF-8 text back ----
pub proof fn lemma_xesc_concat(a: Seq<char>, b: Seq<char>, attr: bool)
    ensures xesc(a + b, attr) == xesc(a, attr) + xesc(b, attr),
    decreases b.len(),
{
    if b.len() == 0 {
        assert(a + b =~= a);
        assert(xesc(a, attr) + Seq::<u8>::empty() =~= xesc(a, attr));
    } else {
        assert((a + b).drop_last() =~= a + b.drop_last());
        assert((a + b).last() == b.last());
        lemma_xesc_concat(a, b.drop_last(), attr);
        assert((xesc(a, attr) + xesc(b.drop_last(), attr)) + xesc1(b.last(), attr) =~= xesc(a, attr) + (xesc(b.drop_last(), attr) + xesc1(b.last(), attr)));
    }
}
pub proof fn lemma_utf8s_concat(a: Seq<char>, b: Seq<char>)
    ensures utf8s(a + b) == utf8s(a) + utf8s(b),
    decreases b.len(),
{
    if b.len() == 0 {
        assert(a + b =~= a);
        assert(utf8s(a) + Seq::<u8>::empty() =~= utf8s(a));
    } else {
        assert((a + b).drop_last() =~= a + b.drop_last());
        assert((a + b).last() == b.last());
        lemma_utf8s_concat(a, b.drop_last());
        assert((utf8s(a) + utf8s(b.drop_last())) + enc(b.last()) =~= utf8s(a) + (utf8s(b.drop_last()) + enc(b.last())));
    }
}
/// bytes >= 0x80 and ASCII bytes other than '&' decode to themselves, one at a time
pub proof fn lemma_xunesc_plain(h: Seq<u8>, rest: Seq<u8>)
    requires forall|i: int| 0 <= i < h.len() ==> #[trigger] h[i] != 38,
    ensures xunesc(h + rest) == h + xunesc(rest),
    decreases h.len(),
{
    if h.len() == 0 {
        assert(h + rest =~= rest);
        assert(h + xunesc(rest) =~= xunesc(rest));
    } else {
        let s = h + rest;
        assert(s[0] == h[0] && s[0] != 38);
        assert(!starts(s, x_amp())) by { if starts(s, x_amp()) { assert(s.take(5)[0] == 38); } }
        assert(!starts(s, x_apos())) by { if starts(s, x_apos()) { assert(s.take(6)[0] == 38); } }
        assert(!starts(s, x_quot())) by { if starts(s, x_quot()) { assert(s.take(6)[0] == 38); } }
        assert(!starts(s, x_lt())) by { if starts(s, x_lt()) { assert(s.take(4)[0] == 38); } }
        assert(!starts(s, x_gt())) by { if starts(s, x_gt()) { assert(s.take(4)[0] == 38); } }
        assert(!starts(s, x_cr())) by { if starts(s, x_cr()) { assert(s.take(5)[0] == 38); } }
        assert(s.drop_first() =~= h.drop_first() + rest);
        assert forall|i: int| 0 <= i < h.drop_first().len() implies #[trigger] h.drop_first()[i] != 38 by { assert(h.drop_first()[i] == h[i + 1]); }
        lemma_xunesc_plain(h.drop_first(), rest);
        assert(seq![h[0]] + (h.drop_first() + xunesc(rest)) =~= h + xunesc(rest));
    }
}
pub proof fn lemma_xunesc_one(c: char, attr: bool, rest: Seq<u8>)
    ensures xunesc(xesc1(c, attr) + rest) == enc(c) + xunesc(rest),
{
    let h = xesc1(c, attr);
    let s = h + rest;
    lemma_enc_bytes(c);
    if c == '&' { assert(s.take(5) =~= x_amp()); assert(s.skip(5) =~= rest); assert(enc(c) =~= seq![38u8]); }
    else if c == '\r' {
        assert(s.take(5) =~= x_cr()); assert(s.skip(5) =~= rest); assert(enc(c) =~= seq![13u8]);
        assert(!starts(s, x_amp())) by { if starts(s, x_amp()) { assert(s.take(5)[1] == 97); assert(s[1] == 35); } }
        assert(!starts(s, x_apos())) by { if starts(s, x_apos()) { assert(s.take(6)[1] == 97); assert(s[1] == 35); } }
        assert(!starts(s, x_quot())) by { if starts(s, x_quot()) { assert(s.take(6)[1] == 113); assert(s[1] == 35); } }
        assert(!starts(s, x_lt())) by { if starts(s, x_lt()) { assert(s.take(4)[1] == 108); assert(s[1] == 35); } }
        assert(!starts(s, x_gt())) by { if starts(s, x_gt()) { assert(s.take(4)[1] == 103); assert(s[1] == 35); } }
    }
    else if c == '\'' && attr {
        assert(s.take(6) =~= x_apos()); assert(s.skip(6) =~= rest); assert(enc(c) =~= seq![39u8]);
        assert(!starts(s, x_amp())) by { if starts(s, x_amp()) { assert(s.take(5)[2] == 109); assert(s[2] == 112); } }
    }
    else if c == '"' && attr {
        assert(s.take(6) =~= x_quot()); assert(s.skip(6) =~= rest); assert(enc(c) =~= seq![34u8]);
        assert(!starts(s, x_amp())) by { if starts(s, x_amp()) { assert(s.take(5)[1] == 97); assert(s[1] == 113); } }
        assert(!starts(s, x_apos())) by { if starts(s, x_apos()) { assert(s.take(6)[1] == 97); assert(s[1] == 113); } }
    }
    else if c == '<' && !attr {
        assert(s.take(4) =~= x_lt()); assert(s.skip(4) =~= rest); assert(enc(c) =~= seq![60u8]);
        assert(!starts(s, x_amp())) by { if starts(s, x_amp()) { assert(s.take(5)[1] == 97); assert(s[1] == 108); } }
        assert(!starts(s, x_apos())) by { if starts(s, x_apos()) { assert(s.take(6)[1] == 97); assert(s[1] == 108); } }
        assert(!starts(s, x_quot())) by { if starts(s, x_quot()) { assert(s.take(6)[1] == 113); assert(s[1] == 108); } }
    }
    else if c == '>' && !attr {
        assert(s.take(4) =~= x_gt()); assert(s.skip(4) =~= rest); assert(enc(c) =~= seq![62u8]);
        assert(!starts(s, x_amp())) by { if starts(s, x_amp()) { assert(s.take(5)[1] == 97); assert(s[1] == 103); } }
        assert(!starts(s, x_apos())) by { if starts(s, x_apos()) { assert(s.take(6)[1] == 97); assert(s[1] == 103); } }
        assert(!starts(s, x_quot())) by { if starts(s, x_quot()) { assert(s.take(6)[1] == 113); assert(s[1] == 103); } }
        assert(!starts(s, x_lt())) by { if starts(s, x_lt()) { assert(s.take(4)[1] == 108); assert(s[1] == 103); } }
    }
    else {
        assert(h == enc(c));
        assert forall|i: int| 0 <= i < h.len() implies #[trigger] h[i] != 38 by {
            if (c as u32) < 0x80 { assert(h =~= seq![(c as u32) as u8]); assert(c != '&'); }
        }
        lemma_xunesc_plain(h, rest);
    }
}
pub proof fn lemma_xesc_reversible(s: Seq<char>, attr: bool)
    ensures xunesc(xesc(s, attr)) == utf8s(s),
    decreases s.len(),
{
    if s.len() > 0 {
        let t = s.drop_first();
        assert(s =~= seq![s[0]] + t);
        lemma_xesc_concat(seq![s[0]], t, attr);
        lemma_utf8s_concat(seq![s[0]], t);
        assert(seq![s[0]].drop_last() =~= Seq::<char>::empty());
        assert(xesc(seq![s[0]], attr) =~= xesc1(s[0], attr)) by { reveal_with_fuel(xesc, 2); }
        assert(utf8s(seq![s[0]]) =~= enc(s[0])) by { reveal_with_fuel(utf8s, 2); }
        lemma_xunesc_one(s[0], attr, xesc(t, attr));
        lemma_xesc_reversible(t, attr);
    }
}
