// ======== U-qname specification (hand-written from "Namespaces in XML": QName ::= Prefix ':' LocalPart, both NCNames) ========
/// `i` is the position of the one colon of a prefixed name: not first, not last, and there is no other colon
pub open spec fn is_split(s: Seq<u8>, i: int) -> bool {
    0 < i < s.len() - 1 && s[i] == 58u8 && forall|j: int| 0 <= j < s.len() && j != i ==> #[trigger] s[j] != 58u8
}
impl<'a> QualNameTokenizer<'a> {
    /// what has been established about the bytes before curr_ind
    pub open spec fn inv(&self) -> bool {
        let s = self.slice@;
        &&& self.curr_ind < s.len()
        &&& s.len() <= u32::MAX   // ASSUMED by the caller: names are tendrils (32-bit lengths)
        &&& match self.state {
            QualNameState::BeforeName => self.curr_ind == 0 && self.valid_index is None,
            QualNameState::InName => self.valid_index is None && self.curr_ind >= 1
                && forall|j: int| 0 <= j < self.curr_ind ==> #[trigger] s[j] != 58u8,
            QualNameState::AfterColon => self.valid_index is Some && ({
                let v = self.valid_index.unwrap() as int;
                0 < v < self.curr_ind && v < s.len() - 1 && s[v] == 58u8
                && forall|j: int| 0 <= j < self.curr_ind && j != v ==> #[trigger] s[j] != 58u8 }),
        }
    }
    /// the answer once the machine has stopped
    pub open spec fn answer_ok(&self) -> bool {
        match self.valid_index {
            Some(i) => is_split(self.slice@, i as int),
            None => forall|i: int| !is_split(self.slice@, i),
        }
    }
}
