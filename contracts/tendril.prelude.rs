// ======== tendril model (hand-written; contracts ASSUMED — the tendril crate is covered by the bounded Kani units) ========
// ======== UTF-8 model ========
pub open spec fn enc_len(c: char) -> nat {
    if (c as u32) < 0x80 { 1 } else if (c as u32) < 0x800 { 2 } else if (c as u32) < 0x10000 { 3 } else { 4 }
}
pub open spec fn enc(c: char) -> Seq<u8> {
    let n = c as u32;
    if n < 0x80 { seq![n as u8] }
    else if n < 0x800 { seq![(0xC0 + n / 64) as u8, (0x80 + n % 64) as u8] }
    else if n < 0x10000 { seq![(0xE0 + n / 4096) as u8, (0x80 + (n / 64) % 64) as u8, (0x80 + n % 64) as u8] }
    else { seq![(0xF0 + n / 262144) as u8, (0x80 + (n / 4096) % 64) as u8, (0x80 + (n / 64) % 64) as u8, (0x80 + n % 64) as u8] }
}
pub open spec fn utf8(s: Seq<char>) -> Seq<u8>
    decreases s.len()
{
    if s.len() == 0 { Seq::<u8>::empty() } else { enc(s[0]) + utf8(s.drop_first()) }
}
/// number of whole characters of `s` that fit in the first `n` bytes
pub open spec fn cidx(s: Seq<char>, n: nat) -> nat
    decreases s.len()
{
    if s.len() == 0 || enc_len(s[0]) > n { 0 } else { 1 + cidx(s.drop_first(), (n - enc_len(s[0])) as nat) }
}
pub open spec fn is_boundary(s: Seq<char>, n: nat) -> bool {
    utf8(s.take(cidx(s, n) as int)).len() == n
}

// ======== tendril shim: content as a sequence of scalar values; contracts ASSUMED ========
pub struct StrTendril { pub s: Vec<char> }
pub struct Chars { pub s: Vec<char> }
impl View for StrTendril { type V = Seq<char>; open spec fn view(&self) -> Seq<char> { self.s@ } }
impl StrTendril {
    // ---- character-level operations used by the tokenizers ----
    #[verifier::external_body]
    pub fn new() -> (r: StrTendril) ensures r@ == Seq::<char>::empty() { unimplemented!() }
    #[verifier::external_body]
    pub fn clone(&self) -> (r: StrTendril) ensures r@ == self@ { unimplemented!() }
    #[verifier::external_body]
    pub fn from_char(c: char) -> (r: StrTendril) ensures r@ == seq![c] { unimplemented!() }
    #[verifier::external_body]
    pub fn from_slice(s: &str) -> (r: StrTendril) ensures r@ == s@ { unimplemented!() }
    #[verifier::external_body]
    pub fn push_char(&mut self, c: char) ensures final(self)@ == old(self)@.push(c) { unimplemented!() }
    #[verifier::external_body]
    pub fn clear(&mut self) ensures final(self)@ == Seq::<char>::empty() { unimplemented!() }
    #[verifier::external_body]
    pub fn push_tendril(&mut self, o: &StrTendril) ensures final(self)@ == old(self)@ + o@ { unimplemented!() }
    #[verifier::external_body]
    pub fn push_slice(&mut self, o: &str) ensures final(self)@ == old(self)@ + o@ { unimplemented!() }
    #[verifier::external_body]
    pub fn eq_str(&self, o: &str) -> (r: bool) ensures r == (self@ == o@) { unimplemented!() }
    #[verifier::external_body]
    pub fn eq_tendril(&self, o: &StrTendril) -> (r: bool) ensures r == (self@ == o@) { unimplemented!() }
    
    #[verifier::external_body]
    pub fn len_chars_hint(&self) -> (r: usize) { unimplemented!() }
    
    #[verifier::external_body]
    pub fn first_char(&self) -> (r: Option<char>)
        ensures self@.len() == 0 ==> r.is_none(), self@.len() > 0 ==> r == Some(self@[0]),
    { unimplemented!() }
    #[verifier::external_body]
    pub fn take(&mut self) -> (r: StrTendril) ensures r@ == old(self)@, final(self)@ == Seq::<char>::empty() { unimplemented!() }

    // ---- byte-level operations used by BufferQueue ----
    #[verifier::external_body]
    pub fn len32(&self) -> (r: u32) ensures r as nat == utf8(self@).len() { unimplemented!() }
    #[verifier::external_body]
    pub fn len(&self) -> (r: usize) ensures r as nat == utf8(self@).len() { unimplemented!() }
    #[verifier::external_body]
    pub fn is_empty(&self) -> (r: bool) ensures r == (self@.len() == 0) { unimplemented!() }
    #[verifier::external_body]
    pub fn pop_front_char(&mut self) -> (r: Option<char>)
        ensures old(self)@.len() == 0 ==> r.is_none() && final(self)@ == old(self)@,
                old(self)@.len() > 0 ==> r == Some(old(self)@[0]) && final(self)@ == old(self)@.drop_first(),
    { unimplemented!() }
    #[verifier::external_body]
    pub unsafe fn unsafe_subtendril(&self, offset: u32, length: u32) -> (r: StrTendril)
        requires offset == 0, length as nat <= utf8(self@).len(), is_boundary(self@, length as nat),
        ensures r@ == self@.take(cidx(self@, length as nat) as int)
    { unimplemented!() }
    #[verifier::external_body]
    pub unsafe fn unsafe_pop_front(&mut self, n: u32)
        requires n as nat <= utf8(old(self)@).len(), is_boundary(old(self)@, n as nat),
        ensures final(self)@ == old(self)@.skip(cidx(old(self)@, n as nat) as int)
    { unimplemented!() }
    #[verifier::external_body]
    pub fn pop_front(&mut self, n: u32)
        requires n as nat <= utf8(old(self)@).len(), is_boundary(old(self)@, n as nat),
        ensures final(self)@ == old(self)@.skip(cidx(old(self)@, n as nat) as int)
    { unimplemented!() }
    #[verifier::external_body]
    pub fn slice_from(&self, a: usize) -> (r: &str)
        requires a as nat <= utf8(self@).len(), is_boundary(self@, a as nat),
        ensures r@ == self@.skip(cidx(self@, a as nat) as int)
    { unimplemented!() }
    #[verifier::external_body]
    pub fn as_bytes(&self) -> (r: &[u8]) ensures r@ == utf8(self@) { unimplemented!() }
    #[verifier::external_body]
    pub fn as_str(&self) -> (r: &str) ensures r@ == self@, r.spec_bytes() == utf8(self@), utf8(self@).len() <= u32::MAX { unimplemented!() }
    #[verifier::external_body]
    pub fn chars(&self) -> (r: Chars) ensures r.s@ == self@ { unimplemented!() }
}
impl Chars {
    #[verifier::external_body]
    pub fn next(&mut self) -> (r: Option<char>)
        ensures old(self).s@.len() == 0 ==> r.is_none(),
                old(self).s@.len() > 0 ==> r == Some(old(self).s@[0]) && final(self).s@ == old(self).s@.drop_first(),
    { unimplemented!() }
}

