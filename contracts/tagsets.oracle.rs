// ======== WHATWG element category lists (hand-written from the standard, §13.2.4.2 / §13.2.4.3 / §13.2.6) ========
pub open spec fn h(p: ExpandedName, l: LocalName) -> bool { p.ns == ns!(html) && p.local == l }
pub open spec fn w_mathml_text_ip(p: ExpandedName) -> bool {
    p == expanded_name!(mathml "mi") || p == expanded_name!(mathml "mo") || p == expanded_name!(mathml "mn")
    || p == expanded_name!(mathml "ms") || p == expanded_name!(mathml "mtext")
}
pub open spec fn w_svg_html_ip(p: ExpandedName) -> bool {
    p == expanded_name!(svg "foreignObject") || p == expanded_name!(svg "desc") || p == expanded_name!(svg "title")
}
/// "has an element in scope": the default list
pub open spec fn w_default_scope(p: ExpandedName) -> bool {
    p == expanded_name!(html "applet") || p == expanded_name!(html "caption") || p == expanded_name!(html "html")
    || p == expanded_name!(html "table") || p == expanded_name!(html "td") || p == expanded_name!(html "th")
    || p == expanded_name!(html "marquee") || p == expanded_name!(html "object") || p == expanded_name!(html "select")
    || p == expanded_name!(html "template")
    || w_mathml_text_ip(p) || p == expanded_name!(mathml "annotation-xml") || w_svg_html_ip(p)
}
pub open spec fn w_list_item_scope(p: ExpandedName) -> bool { w_default_scope(p) || p == expanded_name!(html "ol") || p == expanded_name!(html "ul") }
pub open spec fn w_button_scope(p: ExpandedName) -> bool { w_default_scope(p) || p == expanded_name!(html "button") }
pub open spec fn w_table_scope(p: ExpandedName) -> bool {
    p == expanded_name!(html "html") || p == expanded_name!(html "table") || p == expanded_name!(html "template")
}
pub open spec fn w_table_body_context(p: ExpandedName) -> bool {
    p == expanded_name!(html "tbody") || p == expanded_name!(html "tfoot") || p == expanded_name!(html "thead")
    || p == expanded_name!(html "template") || p == expanded_name!(html "html")
}
pub open spec fn w_table_row_context(p: ExpandedName) -> bool {
    p == expanded_name!(html "tr") || p == expanded_name!(html "template") || p == expanded_name!(html "html")
}
pub open spec fn w_td_th(p: ExpandedName) -> bool { p == expanded_name!(html "td") || p == expanded_name!(html "th") }
pub open spec fn w_cursory_implied_end(p: ExpandedName) -> bool {
    p == expanded_name!(html "dd") || p == expanded_name!(html "dt") || p == expanded_name!(html "li") || p == expanded_name!(html "optgroup")
    || p == expanded_name!(html "option") || p == expanded_name!(html "p") || p == expanded_name!(html "rb") || p == expanded_name!(html "rp")
    || p == expanded_name!(html "rt") || p == expanded_name!(html "rtc")
}
pub open spec fn w_thorough_implied_end(p: ExpandedName) -> bool {
    w_cursory_implied_end(p) || p == expanded_name!(html "caption") || p == expanded_name!(html "colgroup") || p == expanded_name!(html "tbody")
    || p == expanded_name!(html "td") || p == expanded_name!(html "tfoot") || p == expanded_name!(html "th") || p == expanded_name!(html "thead")
    || p == expanded_name!(html "tr")
}
pub open spec fn w_heading(p: ExpandedName) -> bool {
    p == expanded_name!(html "h1") || p == expanded_name!(html "h2") || p == expanded_name!(html "h3") || p == expanded_name!(html "h4")
    || p == expanded_name!(html "h5") || p == expanded_name!(html "h6")
}
/// the "special" category
pub open spec fn w_special(p: ExpandedName) -> bool {
    p == expanded_name!(html "address") || p == expanded_name!(html "applet") || p == expanded_name!(html "area") || p == expanded_name!(html "article")
    || p == expanded_name!(html "aside") || p == expanded_name!(html "base") || p == expanded_name!(html "basefont") || p == expanded_name!(html "bgsound")
    || p == expanded_name!(html "blockquote") || p == expanded_name!(html "body") || p == expanded_name!(html "br") || p == expanded_name!(html "button")
    || p == expanded_name!(html "caption") || p == expanded_name!(html "center") || p == expanded_name!(html "col") || p == expanded_name!(html "colgroup")
    || p == expanded_name!(html "dd") || p == expanded_name!(html "details") || p == expanded_name!(html "dir") || p == expanded_name!(html "div")
    || p == expanded_name!(html "dl") || p == expanded_name!(html "dt") || p == expanded_name!(html "embed") || p == expanded_name!(html "fieldset")
    || p == expanded_name!(html "figcaption") || p == expanded_name!(html "figure") || p == expanded_name!(html "footer") || p == expanded_name!(html "form")
    || p == expanded_name!(html "frame") || p == expanded_name!(html "frameset") || w_heading(p) || p == expanded_name!(html "head")
    || p == expanded_name!(html "header") || p == expanded_name!(html "hgroup") || p == expanded_name!(html "hr") || p == expanded_name!(html "html")
    || p == expanded_name!(html "iframe") || p == expanded_name!(html "img") || p == expanded_name!(html "input") || p == expanded_name!(html "keygen")
    || p == expanded_name!(html "li") || p == expanded_name!(html "link") || p == expanded_name!(html "listing") || p == expanded_name!(html "main")
    || p == expanded_name!(html "marquee") || p == expanded_name!(html "menu") || p == expanded_name!(html "meta") || p == expanded_name!(html "nav")
    || p == expanded_name!(html "noembed") || p == expanded_name!(html "noframes") || p == expanded_name!(html "noscript") || p == expanded_name!(html "object")
    || p == expanded_name!(html "ol") || p == expanded_name!(html "p") || p == expanded_name!(html "param") || p == expanded_name!(html "plaintext")
    || p == expanded_name!(html "pre") || p == expanded_name!(html "script") || p == expanded_name!(html "search") || p == expanded_name!(html "section")
    || p == expanded_name!(html "select") || p == expanded_name!(html "source") || p == expanded_name!(html "style") || p == expanded_name!(html "summary")
    || p == expanded_name!(html "table") || p == expanded_name!(html "tbody") || p == expanded_name!(html "td") || p == expanded_name!(html "template")
    || p == expanded_name!(html "textarea") || p == expanded_name!(html "tfoot") || p == expanded_name!(html "th") || p == expanded_name!(html "thead")
    || p == expanded_name!(html "title") || p == expanded_name!(html "tr") || p == expanded_name!(html "track") || p == expanded_name!(html "ul")
    || p == expanded_name!(html "wbr") || p == expanded_name!(html "xmp")
    || w_mathml_text_ip(p) || p == expanded_name!(mathml "annotation-xml") || w_svg_html_ip(p)
}

// ======== obligations: each predicate of tag_sets.rs equals its list for EVERY expanded name
// (except on the names listed as known deviations in known_findings.txt) ========
pub proof fn check_mathml_text_integration_point() ensures forall|p: ExpandedName| mathml_text_integration_point(p) == w_mathml_text_ip(p) {}
pub proof fn check_svg_html_integration_point() ensures forall|p: ExpandedName| svg_html_integration_point(p) == w_svg_html_ip(p) {}
pub proof fn check_default_scope() ensures forall|p: ExpandedName| !known_dev_default_scope(p) ==> default_scope(p) == w_default_scope(p) {}
pub proof fn check_list_item_scope() ensures forall|p: ExpandedName| !known_dev_default_scope(p) && !known_dev_list_item_scope(p) ==> list_item_scope(p) == w_list_item_scope(p) {}
pub proof fn check_button_scope() ensures forall|p: ExpandedName| !known_dev_default_scope(p) && !known_dev_button_scope(p) ==> button_scope(p) == w_button_scope(p) {}
pub proof fn check_table_scope() ensures forall|p: ExpandedName| !known_dev_table_scope(p) ==> table_scope(p) == w_table_scope(p) {}
pub proof fn check_table_body_context() ensures forall|p: ExpandedName| !known_dev_table_body_context(p) ==> table_body_context(p) == w_table_body_context(p) {}
pub proof fn check_table_row_context() ensures forall|p: ExpandedName| !known_dev_table_row_context(p) ==> table_row_context(p) == w_table_row_context(p) {}
pub proof fn check_td_th() ensures forall|p: ExpandedName| !known_dev_td_th(p) ==> td_th(p) == w_td_th(p) {}
pub proof fn check_cursory_implied_end() ensures forall|p: ExpandedName| !known_dev_cursory_implied_end(p) ==> cursory_implied_end(p) == w_cursory_implied_end(p) {}
pub proof fn check_thorough_implied_end() ensures forall|p: ExpandedName| !known_dev_thorough_implied_end(p) ==> thorough_implied_end(p) == w_thorough_implied_end(p) {}
pub proof fn check_heading_tag() ensures forall|p: ExpandedName| !known_dev_heading_tag(p) ==> heading_tag(p) == w_heading(p) {}
pub proof fn check_special_tag() ensures forall|p: ExpandedName| !known_dev_special_tag(p) ==> special_tag(p) == w_special(p) {}
