// ---- model of BTreeMap<Option<Prefix>, Option<Namespace>> (ASSUMED contracts): a finite map plus the sequence of its
//      entries in key order (what iter() yields) ----
pub struct NsScope { pub entries: Vec<(Option<Prefix>, Option<Namespace>)> }
pub open spec fn entries_map(e: Seq<(Option<Prefix>, Option<Namespace>)>) -> Map<Option<Prefix>, Option<Namespace>>
    decreases e.len()
{
    if e.len() == 0 { Map::empty() } else { entries_map(e.drop_last()).insert(e.last().0, e.last().1) }
}
impl NsScope {
    pub open spec fn view(&self) -> Map<Option<Prefix>, Option<Namespace>> { entries_map(self.entries@) }
    /// keys are distinct (a map), so every entry is what get() returns for its key
    pub open spec fn wf(&self) -> bool {
        forall|i: int| 0 <= i < self.entries@.len() ==> self@.dom().contains(#[trigger] self.entries@[i].0) && self@[self.entries@[i].0] == self.entries@[i].1
    }
    #[verifier::external_body]
    pub fn new() -> (r: NsScope) ensures r.entries@.len() == 0, r@ == Map::<Option<Prefix>, Option<Namespace>>::empty(), r.wf() { unimplemented!() }
    #[verifier::external_body]
    pub fn get(&self, k: &Option<Prefix>) -> (r: Option<&Option<Namespace>>)
        ensures self@.dom().contains(*k) ==> r.is_some() && *r.unwrap() == self@[*k], !self@.dom().contains(*k) ==> r.is_none(),
    { unimplemented!() }
    #[verifier::external_body]
    pub fn insert(&mut self, k: Option<Prefix>, v: Option<Namespace>) -> (r: Option<Option<Namespace>>)
        requires old(self).wf(),
        ensures final(self)@ == old(self)@.insert(k, v), final(self).wf(),
    { unimplemented!() }
    #[verifier::external_body]
    pub fn contains_key(&self, k: &Option<Prefix>) -> (r: bool) ensures r == self@.dom().contains(*k) { unimplemented!() }
}
