// ---- U-tbtok prelude (hand-written): model types for TreeBuilder::process_token (the tree builder's token entry point) ----
pub struct Handle { pub id: u64 }
pub struct StrTendril { pub s: Seq<char> }
impl View for StrTendril { type V = Seq<char>; open spec fn view(&self) -> Seq<char> { self.s } }
impl StrTendril {
    #[verifier::external_body]
    pub fn new() -> (r: StrTendril) ensures r@ == Seq::<char>::empty() { unimplemented!() }
    #[verifier::external_body]
    pub fn starts_with(&self, p: &str) -> (r: bool) ensures r == (p@.len() <= self@.len() && forall|i: int| 0 <= i < p@.len() ==> self@[i] == p@[i]) { unimplemented!() }
    /// pop_front(n) removes n BYTES; the one call site removes the single byte of a leading U+000A
    #[verifier::external_body]
    pub fn pop_front(&mut self, n: u32)
        requires n == 1, old(self)@.len() > 0, old(self)@[0] == '\n',
        ensures final(self)@ == old(self)@.drop_first(),
    { unimplemented!() }
    #[verifier::external_body]
    pub fn is_empty(&self) -> (r: bool) ensures r == (self@.len() == 0) { unimplemented!() }
}
pub struct Cow { pub x: u8 }
impl Cow {
    #[verifier::external_body]
    pub fn msg() -> Cow { unimplemented!() }
}
pub struct Tag { pub id: u64 }
#[derive(PartialEq, Eq, Clone, Copy, Structural)]
pub enum QuirksMode { Quirks, LimitedQuirks, NoQuirks }
pub struct TreeBuilderOpts { pub exact_errors: bool, pub scripting_enabled: bool, pub iframe_srcdoc: bool, pub drop_doctype: bool, pub quirks_mode: QuirksMode }
pub struct FormatEntry { pub x: u8 }
impl Cell<bool> {
    /// Cell::take: the value is replaced by the default
    pub fn take(&mut self) -> (r: bool) ensures r == old(self).v, final(self).v == false { let x = self.v; self.v = false; x }
}
pub mod states { #[derive(PartialEq, Eq, Clone, Copy)] pub enum RawKind { Rcdata, Rawtext, ScriptData } }
