// ---- U-stack specification (hand-written from the WHATWG text; included after the extracted TreeBuilder struct) ----
impl Tag {
    /// #[derive(Clone)] (ASSUMED to copy)
    #[verifier::external_body]
    pub fn clone(&self) -> (r: Tag) ensures r == *self { unimplemented!() }
}
/// ASSUMED machine fact (used wherever `small()` is required): a Vec of handles / entries has at most isize::MAX bytes, hence fewer
/// than usize::MAX elements
pub broadcast axiom fn axiom_small(tb: &TreeBuilder)
    ensures #[trigger] tb.small();
/// no DOM operation was asked of the sink, no element created
pub open spec fn sink_quiet(a: Sink, b: Sink) -> bool { a.dom == b.dom && a.created == b.created }
pub open spec fn html_named(h: Handle, name: LocalName) -> bool { elem_name_of(h) == (ExpandedName { ns: ns!(html), local: name }) }
impl TreeBuilder {
    pub open spec fn stack(&self) -> Seq<Handle> { self.open_elems.v@ }
    pub open spec fn list(&self) -> Seq<FormatEntry> { self.active_formatting.v@ }
    /// everything but the stack of open elements and the sink's notification log
    pub open spec fn same_but_stack(&self, o: &TreeBuilder) -> bool {
        *self == (TreeBuilder { open_elems: self.open_elems, sink: self.sink, ..*o })
    }
    /// everything but the stack of open elements, the list of active formatting elements and the sink's log
    pub open spec fn same_but_stack_list(&self, o: &TreeBuilder) -> bool {
        *self == (TreeBuilder { open_elems: self.open_elems, active_formatting: self.active_formatting, sink: self.sink, ..*o })
    }
    /// ASSUMPTION (machine arithmetic): fewer than 2^31 open elements (the adoption agency algorithm counts them in an i32) and
    /// fewer than usize::MAX - 16 entries in the list of active formatting elements (a Vec has at most isize::MAX bytes)
    pub open spec fn small(&self) -> bool { self.open_elems.v@.len() < 0x7fff_fff0 && self.active_formatting.v@.len() < usize::MAX - 16 }
}

/// "has an element in the specific scope consisting of a list of element types list": 1. node := current node;
/// 2. if node is target, match; 3. if node is one of list, fail; 4. node := previous entry, back to 2
pub open spec fn w_in_scope(st: Seq<Handle>, n: int, target: spec_fn(Handle) -> bool, scope: spec_fn(ExpandedName) -> bool) -> bool
    decreases n
{
    if n <= 0 { false }
    else if target(st[n - 1]) { true }
    else if scope(elem_name_of(st[n - 1])) { false }
    else { w_in_scope(st, n - 1, target, scope) }
}
/// "generate implied end tags": while the current node is one of the listed elements, pop it
pub open spec fn w_implied(st: Seq<Handle>, set: spec_fn(ExpandedName) -> bool) -> Seq<Handle>
    decreases st.len()
{
    if st.len() > 0 && set(elem_name_of(st.last())) { w_implied(st.drop_last(), set) } else { st }
}
/// index of the topmost of the first n entries whose name satisfies pred (-1: none)
pub open spec fn top_match(st: Seq<Handle>, n: int, pred: spec_fn(ExpandedName) -> bool) -> int
    decreases n
{
    if n <= 0 { -1 } else if pred(elem_name_of(st[n - 1])) { n - 1 } else { top_match(st, n - 1, pred) }
}
/// "pop elements from the stack until an X element has been popped"
pub open spec fn w_pop_until(st: Seq<Handle>, pred: spec_fn(ExpandedName) -> bool) -> Seq<Handle> {
    let k = top_match(st, st.len() as int, pred);
    if k < 0 { Seq::<Handle>::empty() } else { st.take(k) }
}
pub proof fn lemma_top_match(st: Seq<Handle>, n: int, pred: spec_fn(ExpandedName) -> bool)
    requires 0 <= n <= st.len(),
    ensures ({
        let k = top_match(st, n, pred);
        -1 <= k < n && (k >= 0 ==> pred(elem_name_of(st[k]))) && forall|j: int| k < j < n ==> !pred(elem_name_of(#[trigger] st[j]))
    }),
    decreases n,
{
    if n > 0 && !pred(elem_name_of(st[n - 1])) { lemma_top_match(st, n - 1, pred); }
}
/// the topmost match is where the first match from the top is
pub proof fn lemma_top_match_at(st: Seq<Handle>, n: int, k: int, pred: spec_fn(ExpandedName) -> bool)
    requires 0 <= k <= n <= st.len(), forall|j: int| k <= j < n ==> !pred(elem_name_of(#[trigger] st[j])), k > 0 ==> pred(elem_name_of(st[k - 1])),
    ensures top_match(st, n, pred) == k - 1,
    decreases n,
{
    if n > k { lemma_top_match_at(st, n - 1, k, pred); }
}

/// "reset the insertion mode appropriately" (13.2.4.1), steps 1-18; `n` entries of the stack are still to be looked at
pub open spec fn w_reset(st: Seq<Handle>, n: int, ctx: Option<Handle>, head: bool, tmpl: InsertionMode) -> InsertionMode
    decreases n
{
    if n <= 0 { InsertionMode::InBody } else {
        // 3. if node is the first node in the stack, set last to true and, in the fragment case, node to the context element
        let last = n == 1;
        let node = if last && ctx is Some { ctx.unwrap() } else { st[n - 1] };
        let nm = elem_name_of(node);
        let html = nm.ns == ns!(html);
        if html && (nm.local == local_name!("td") || nm.local == local_name!("th")) && !last { InsertionMode::InCell }
        else if html && nm.local == local_name!("tr") { InsertionMode::InRow }
        else if html && (nm.local == local_name!("tbody") || nm.local == local_name!("thead") || nm.local == local_name!("tfoot")) { InsertionMode::InTableBody }
        else if html && nm.local == local_name!("caption") { InsertionMode::InCaption }
        else if html && nm.local == local_name!("colgroup") { InsertionMode::InColumnGroup }
        else if html && nm.local == local_name!("table") { InsertionMode::InTable }
        else if html && nm.local == local_name!("template") { tmpl }
        else if html && nm.local == local_name!("head") && !last { InsertionMode::InHead }
        else if html && nm.local == local_name!("body") { InsertionMode::InBody }
        else if html && nm.local == local_name!("frameset") { InsertionMode::InFrameset }
        else if html && nm.local == local_name!("html") { if head { InsertionMode::AfterHead } else { InsertionMode::BeforeHead } }
        // 16. if last is true, switch to "in body" (fragment case)
        else if last { InsertionMode::InBody }
        // 17./18. node := the node before node in the stack; back to the step labeled loop
        else { w_reset(st, n - 1, ctx, head, tmpl) }
    }
}
/// some node the loop can reach is an HTML template element (then the stack of template insertion modes is consulted)
pub open spec fn reset_sees_template(st: Seq<Handle>, ctx: Option<Handle>) -> bool {
    (exists|i: int| 0 <= i < st.len() && html_named(#[trigger] st[i], local_name!("template")))
    || (ctx is Some && html_named(ctx.unwrap(), local_name!("template")))
}

// ---- "reconstruct the active formatting elements" (13.2.4.3) ----
pub open spec fn entry_open(e: FormatEntry, st: Seq<Handle>) -> bool {
    e is Marker || seq_any(st, is_handle(e->Element_0))
}
/// steps 4-7 (rewind / advance): the index of the first entry to re-create among the first n entries = one past the last
/// entry that is a marker or open
pub open spec fn rewind_to(l: Seq<FormatEntry>, n: int, st: Seq<Handle>) -> int
    decreases n
{
    if n <= 0 { 0 } else if entry_open(l[n - 1], st) { n } else { rewind_to(l, n - 1, st) }
}
pub proof fn lemma_rewind(l: Seq<FormatEntry>, n: int, st: Seq<Handle>)
    requires 0 <= n <= l.len(),
    ensures ({
        let e = rewind_to(l, n, st);
        0 <= e <= n && (e > 0 ==> entry_open(l[e - 1], st)) && forall|j: int| e <= j < n ==> !entry_open(#[trigger] l[j], st)
    }),
    decreases n,
{
    if n > 0 && !entry_open(l[n - 1], st) { lemma_rewind(l, n - 1, st); }
}

/// the local tag set of close_p_element: `declare_tag_set!(implied = [cursory_implied_end] - "p")` (rule R39; ASSUMED to be
/// what the macro generates - its expansion for the global sets is checked by U-tagsets)
#[verifier::external_body]
pub fn implied(p: ExpandedName) -> (r: bool)
    ensures r == (p != (ExpandedName { ns: ns!(html), local: local_name!("p") }) && ts_cursory_implied_end(p)),
{ unimplemented!() }

// ---- function arguments (tag sets, predicates) as the verifier sees them ----
// Verus knows of a function argument f: f.requires(args) (it can be called) and f.ensures(args, r) ==> <its postcondition>.
// `agrees(f, s)`: every answer f can give is the value of the spec function s.  The contracts below are stated for every
// spec function the argument agrees with.
pub open spec fn name_fn_ok<F: Fn(ExpandedName) -> bool>(f: F) -> bool { forall|e: ExpandedName| #[trigger] f.requires((e,)) }
pub open spec fn handle_fn_ok<F: Fn(Handle) -> bool>(f: F) -> bool { forall|h: Handle| #[trigger] f.requires((h,)) }
pub open spec fn name_agrees<F: Fn(ExpandedName) -> bool>(f: F, s: spec_fn(ExpandedName) -> bool) -> bool {
    forall|e: ExpandedName, r: bool| #[trigger] f.ensures((e,), r) ==> r == s(e)
}
pub open spec fn handle_agrees<F: Fn(Handle) -> bool>(f: F, t: spec_fn(Handle) -> bool) -> bool {
    forall|h: Handle, r: bool| #[trigger] f.ensures((h,), r) ==> r == t(h)
}
/// named function values (lambdas cannot occur in triggers)
pub open spec fn is_html_named(name: LocalName) -> spec_fn(Handle) -> bool { |h: Handle| html_named(h, name) }
pub open spec fn name_is_html(name: LocalName) -> spec_fn(ExpandedName) -> bool { |p: ExpandedName| p == (ExpandedName { ns: ns!(html), local: name }) }
/// the tag set "cursory implied end, except `except`" (generate implied end tags, except for X elements)
pub open spec fn implied_except(except: LocalName) -> spec_fn(ExpandedName) -> bool {
    |p: ExpandedName| p != (ExpandedName { ns: ns!(html), local: except }) && ts_cursory_implied_end(p)
}
pub open spec fn is_handle(x: Handle) -> spec_fn(Handle) -> bool { |h: Handle| h == x }
pub open spec fn set_button_scope() -> spec_fn(ExpandedName) -> bool { |p: ExpandedName| ts_button_scope(p) }
/// what pop_until returns: the number of pops, counting the one that found the stack empty
pub open spec fn popped_count(st: Seq<Handle>, pred: spec_fn(ExpandedName) -> bool) -> int {
    let k = top_match(st, st.len() as int, pred);
    if k < 0 { st.len() as int + 1 } else { st.len() as int - k }
}
/// pop_until: the stack left and the number returned
pub open spec fn pop_until_res(st: Seq<Handle>, pred: spec_fn(ExpandedName) -> bool) -> (Seq<Handle>, int) { (w_pop_until(st, pred), popped_count(st, pred)) }
/// the specs depend on their function arguments only through their values
pub proof fn lemma_in_scope_ext(st: Seq<Handle>, n: int, t1: spec_fn(Handle) -> bool, s1: spec_fn(ExpandedName) -> bool, t2: spec_fn(Handle) -> bool, s2: spec_fn(ExpandedName) -> bool)
    requires n <= st.len(), forall|h: Handle| #[trigger] t1(h) == t2(h), forall|e: ExpandedName| #[trigger] s1(e) == s2(e),
    ensures w_in_scope(st, n, t1, s1) == w_in_scope(st, n, t2, s2),
    decreases n,
{
    if n > 0 { lemma_in_scope_ext(st, n - 1, t1, s1, t2, s2); }
}
pub proof fn lemma_implied_ext(st: Seq<Handle>, s1: spec_fn(ExpandedName) -> bool, s2: spec_fn(ExpandedName) -> bool)
    requires forall|e: ExpandedName| #[trigger] s1(e) == s2(e),
    ensures w_implied(st, s1) == w_implied(st, s2),
    decreases st.len(),
{
    if st.len() > 0 { lemma_implied_ext(st.drop_last(), s1, s2); }
}
pub proof fn lemma_top_match_ext(st: Seq<Handle>, n: int, s1: spec_fn(ExpandedName) -> bool, s2: spec_fn(ExpandedName) -> bool)
    requires n <= st.len(), forall|e: ExpandedName| #[trigger] s1(e) == s2(e),
    ensures top_match(st, n, s1) == top_match(st, n, s2),
    decreases n,
{
    if n > 0 { lemma_top_match_ext(st, n - 1, s1, s2); }
}

/// "reconstruct the active formatting elements": nothing to do if the list is empty or its last entry is a marker or
/// open; otherwise every entry after the last marker-or-open entry is replaced, in order, by a new element created for the
/// same token and pushed onto the stack
pub open spec fn reconstructed(a: &TreeBuilder, b: &TreeBuilder) -> bool {
    let l0 = a.list();
    let st0 = a.stack();
    let n = l0.len() as int;
    if n == 0 || entry_open(l0[n - 1], st0) { b.list() == l0 && b.stack() == st0 && b.same_but_stack_list(a) }
    else {
        let e = rewind_to(l0, n, st0);
        &&& b.same_but_stack_list(a)
        &&& b.list().len() == n
        &&& b.stack().len() == st0.len() + (n - e)
        &&& b.stack().take(st0.len() as int) == st0
        &&& forall|i: int| 0 <= i < e ==> #[trigger] b.list()[i] == l0[i]
        &&& forall|i: int| e <= i < n ==> recon_entry(a, b, i)
    }
}
/// entry i was re-created: same token, a new html element of the token's name, which is on the stack at the matching position
pub open spec fn recon_entry(a: &TreeBuilder, b: &TreeBuilder, i: int) -> bool {
    let l0 = a.list();
    let e = rewind_to(l0, l0.len() as int, a.stack());
    &&& b.list()[i] is Element && l0[i] is Element
    &&& b.list()[i]->Element_1 == l0[i]->Element_1
    &&& b.list()[i]->Element_0 == b.stack()[a.stack().len() + i - e]
    &&& elem_name_of(b.list()[i]->Element_0) == (ExpandedName { ns: ns!(html), local: l0[i]->Element_1.name })
}

pub proof fn lemma_rewind_at(l: Seq<FormatEntry>, n: int, st: Seq<Handle>, e: int)
    requires 0 <= e <= n <= l.len(), forall|j: int| e <= j < n ==> !entry_open(#[trigger] l[j], st), e > 0 ==> entry_open(l[e - 1], st),
    ensures rewind_to(l, n, st) == e,
    decreases n,
{
    if n > e { lemma_rewind_at(l, n - 1, st, e); }
}
pub proof fn lemma_rposition(s: Seq<Handle>, t: spec_fn(Handle) -> bool, n: int)
    requires 0 <= n <= s.len(), n <= usize::MAX,
    ensures match seq_rposition(s, t, n) {
        Some(k) => k < n && t(s[k as int]) && forall|j: int| k < j < n ==> !t(#[trigger] s[j]),
        None => forall|j: int| 0 <= j < n ==> !t(#[trigger] s[j]),
    },
    decreases n,
{
    if n > 0 && !t(s[n - 1]) { lemma_rposition(s, t, n - 1); }
}

/// top_match looks only at the first n entries
pub proof fn lemma_top_match_prefix(a: Seq<Handle>, b: Seq<Handle>, n: int, pred: spec_fn(ExpandedName) -> bool)
    requires 0 <= n <= a.len(), n <= b.len(), forall|j: int| 0 <= j < n ==> a[j] == b[j],
    ensures top_match(a, n, pred) == top_match(b, n, pred),
    decreases n,
{
    if n > 0 { lemma_top_match_prefix(a, b, n - 1, pred); }
}

impl TreeBuilder {
    /// unexpected (ASSUMED frame): reports one parse error
    #[verifier::external_body]
    pub fn unexpected<T>(&mut self, _thing: &T) -> (r: ProcessResult)
        ensures r is Done, *final(self) == (TreeBuilder { sink: Sink { errs: Ghost(old(self).sink.errs@ + 1), ..old(self).sink }, ..*old(self) }),
    { unimplemented!() }
}
/// the local tag set of appropriate_place_for_insertion (rule R39, ASSUMED as for `implied`)
#[verifier::external_body]
pub fn foster_target(p: ExpandedName) -> (r: bool)
    ensures r == (p.ns == ns!(html) && (p.local == local_name!("table") || p.local == local_name!("tbody") || p.local == local_name!("tfoot")
                  || p.local == local_name!("thead") || p.local == local_name!("tr"))),
{ unimplemented!() }

// ---- "any other end tag" in body (13.2.6.4.7) ----
/// 1. node := current node; 2. if node is an HTML element with the token's tag name: found; 3. if node is special: parse
/// error, ignore the token; 4. node := previous entry, again from 2
pub open spec fn w_other_end(st: Seq<Handle>, n: int, name: LocalName) -> Option<int>
    decreases n
{
    if n <= 0 { None }
    else if html_named(st[n - 1], name) { Some(n - 1) }
    else if ts_special_tag(elem_name_of(st[n - 1])) { None }
    else { w_other_end(st, n - 1, name) }
}
pub proof fn lemma_other_end(st: Seq<Handle>, n: int, name: LocalName)
    requires 0 <= n <= st.len(),
    ensures w_other_end(st, n, name) is Some ==> 0 <= w_other_end(st, n, name).unwrap() < n && html_named(st[w_other_end(st, n, name).unwrap()], name),
    decreases n,
{
    if n > 0 { lemma_other_end(st, n - 1, name); }
}
/// generating implied end tags except for `name` never pops an element named `name`
pub proof fn lemma_implied_keeps(st: Seq<Handle>, name: LocalName, k: int)
    requires 0 <= k < st.len(), html_named(st[k], name),
    ensures w_implied(st, implied_except(name)).len() > k, w_implied(st, implied_except(name)) == st.take(w_implied(st, implied_except(name)).len() as int),
            w_implied(st, implied_except(name)).len() <= st.len(),
    decreases st.len(),
{
    if st.len() > 0 && implied_except(name)(elem_name_of(st.last())) {
        lemma_implied_keeps(st.drop_last(), name, k);
        let r = w_implied(st.drop_last(), implied_except(name));
        assert(st.drop_last().take(r.len() as int) =~= st.take(r.len() as int));
    } else {
        assert(st.take(st.len() as int) =~= st);
    }
}

// ---- "the appropriate place for inserting a node" (13.2.6.1) ----
pub open spec fn is_foster_target(p: ExpandedName) -> bool {
    p.ns == ns!(html) && (p.local == local_name!("table") || p.local == local_name!("tbody") || p.local == local_name!("tfoot")
        || p.local == local_name!("thead") || p.local == local_name!("tr"))
}
/// step 2, foster parenting: the last template and the last table in the stack decide
pub open spec fn w_foster_place(st: Seq<Handle>) -> InsertionPoint {
    let lt = top_match(st, st.len() as int, name_is_html(local_name!("template")));
    let ltab = top_match(st, st.len() as int, name_is_html(local_name!("table")));
    if lt >= 0 && (ltab < 0 || lt > ltab) { InsertionPoint::LastChild(template_contents_of(st[lt])) }
    else if ltab < 0 { InsertionPoint::LastChild(st[0]) }
    // "if last table has a parent node, immediately before last table; otherwise inside previous element, after its last
    // child": the choice is the sink's (append_based_on_parent_node), the two nodes are fixed here
    else { InsertionPoint::TableFosterParenting { element: st[ltab], prev_element: st[ltab - 1] } }
}
pub open spec fn w_place(tb: &TreeBuilder, override_target: Option<Handle>) -> InsertionPoint {
    let target = match override_target { Some(t) => t, None => tb.stack().last() };
    if tb.foster_parenting.v && is_foster_target(elem_name_of(target)) { w_foster_place(tb.stack()) }
    // 3. if the adjusted insertion location is inside a template element, let it instead be inside its template contents
    else if html_named(target, local_name!("template")) { InsertionPoint::LastChild(template_contents_of(target)) }
    else { InsertionPoint::LastChild(target) }
}

// ---- "insert a foreign element" / "insert an HTML element" (13.2.6.1): create, associate with the form owner, insert ----
pub open spec fn is_form_associatable(p: ExpandedName) -> bool {
    p.ns == ns!(html) && (p.local == local_name!("button") || p.local == local_name!("fieldset") || p.local == local_name!("input") || p.local == local_name!("object")
        || p.local == local_name!("output") || p.local == local_name!("select") || p.local == local_name!("textarea") || p.local == local_name!("img"))
}
pub open spec fn is_form_attr() -> spec_fn(Attribute) -> bool { |a: Attribute| a.name.ns == ns!() && a.name.local == local_name!("form") }
pub open spec fn has_form_attr(attrs: Seq<Attribute>) -> bool { seq_any(attrs, is_form_attr()) }
/// "if the element is a form-associated element, the form element pointer is not null, there is no template element on the
/// stack of open elements, the element is either not listed or doesn't have a form attribute": associate it with the form
pub open spec fn w_form_assoc(tb: &TreeBuilder, ns: Namespace, name: LocalName, attrs: Seq<Attribute>) -> bool {
    let p = ExpandedName { ns: ns, local: name };
    is_form_associatable(p) && tb.form_elem.v is Some && !seq_any(tb.stack(), is_html_named(local_name!("template")))
        && !((is_form_associatable(p) && p.local != local_name!("img")) && has_form_attr(attrs))
}
/// the DOM operations of insert_element: create, (associate), insert at the appropriate place
pub open spec fn w_insert_dom(tb: &TreeBuilder, r: Handle, ns: Namespace, name: LocalName, attrs: Seq<Attribute>, dup: bool) -> Seq<DomOp> {
    let ip = w_place(tb, None);
    let d1 = tb.sink.dom@.push(DomOp::Create(r, ExpandedName { ns: ns, local: name }, attrs, dup));
    let d2 = if w_form_assoc(tb, ns, name, attrs) {
        d1.push(DomOp::AssociateWithForm(r, tb.form_elem.v.unwrap(), insertion_node1(ip), insertion_node2(ip)))
    } else { d1 };
    d2.push(place_op(ip, NodeOrText::AppendNode(r)))
}
pub open spec fn insertion_node1(ip: InsertionPoint) -> Handle {
    match ip { InsertionPoint::LastChild(p) => p, InsertionPoint::BeforeSibling(p) => p, InsertionPoint::TableFosterParenting { element, prev_element } => element }
}
pub open spec fn insertion_node2(ip: InsertionPoint) -> Option<Handle> {
    match ip { InsertionPoint::TableFosterParenting { element, prev_element } => Some(prev_element), _ => None }
}
