// ---- U-xns: models and specification for the XML tree builder's namespace handling (hand-written) ----
/// model of HashSet<(Namespace, LocalName)> (ASSUMED contracts): a ghost set
pub struct PresentSet { pub s: Ghost<Set<(Namespace, LocalName)>> }
impl PresentSet {
    #[verifier::external_body]
    pub fn new() -> (r: PresentSet) ensures r.s@ == Set::<(Namespace, LocalName)>::empty() { unimplemented!() }
    #[verifier::external_body]
    pub fn contains(&self, k: &(Namespace, LocalName)) -> (r: bool) ensures r == self.s@.contains(*k) { unimplemented!() }
    #[verifier::external_body]
    pub fn insert(&mut self, k: (Namespace, LocalName)) -> (r: bool) ensures final(self).s@ == old(self).s@.insert(k) { unimplemented!() }
}
/// the tree sink: only parse errors are reported from the namespace code (no effect on names)
pub struct TreeSink { pub x: u8 }
impl TreeSink {
    #[verifier::external_body]
    pub fn parse_error(&mut self, msg: Cow) { unimplemented!() }
}
pub open spec fn bytes_of(s: &str) -> Seq<u8> { s.spec_bytes() }

// ---- specification (Namespaces in XML 1.0/1.1) ----
pub type NsMap = Map<Option<Prefix>, Option<Namespace>>;
/// What one namespace declaration attribute does to the declarations of its tag (`None`: the declaration is rejected).
///  * nothing may be bound to the xmlns namespace name; the prefix xmlns is never declared;
///  * the prefix xml may only be (re)declared with its own namespace name, which changes nothing;
///  * xmlns="v" declares the default namespace, xmlns:p="v" the prefix p; an empty value un-declares;
///  * a tag declares a prefix at most once (a second non-empty declaration is rejected).
pub open spec fn decl_effect(m: NsMap, prefix: Option<Prefix>, local: LocalName, value: Seq<char>) -> Option<NsMap> {
    if value == XMLNS_URI@ { None }
    else if prefix == Some(namespace_prefix!("xmlns")) && local == local_name!("xml") {
        if value == XML_URI@ { Some(m) } else { None }
    }
    else if prefix == Some(namespace_prefix!("xmlns")) && local == local_name!("xmlns") { None }
    else if prefix == Some(namespace_prefix!("xmlns")) || (prefix is None && local == local_name!("xmlns")) {
        let p = if local == local_name!("xmlns") { None } else { Some(Prefix(prefix_atom(local_bytes(local.0)))) };
        let uri = if value.len() == 0 { None } else { Some(Namespace(ns_atom(utf8(value)))) };
        if uri is Some && m.dom().contains(p) { None } else { Some(m.insert(p, uri)) }
    }
    else { None }
}
/// innermost-first search of the enclosing declarations
pub open spec fn stack_lookup(stack: Seq<NamespaceMap>, n: int, p: Option<Prefix>) -> Option<Option<Namespace>>
    decreases n
{
    if n <= 0 { None }
    else if stack[n - 1].scope@.dom().contains(p) { Some(stack[n - 1].scope@[p]) }
    else { stack_lookup(stack, n - 1, p) }
}
/// the binding of prefix `p` (None: the default namespace) in scope: the tag's own declarations first, then the open
/// elements' from the innermost outwards.  Some(None) = un-declared, None = never declared.
pub open spec fn scope_lookup(stack: Seq<NamespaceMap>, cur: NamespaceMap, p: Option<Prefix>) -> Option<Option<Namespace>> {
    if cur.scope@.dom().contains(p) { Some(cur.scope@[p]) } else { stack_lookup(stack, stack.len() as int, p) }
}
/// the namespace a name with prefix `p` gets (`old` if the prefix is not bound at all: a parse error)
pub open spec fn resolved_ns(stack: Seq<NamespaceMap>, cur: NamespaceMap, p: Option<Prefix>, old: Namespace) -> Namespace {
    match scope_lookup(stack, cur, p) { Some(Some(u)) => u, Some(None) => ns!(), None => old }
}
impl XmlTreeBuilder {
    pub open spec fn stack(&self) -> Seq<NamespaceMap> { self.namespace_stack.v.0@ }
    pub open spec fn cur(&self) -> NamespaceMap { self.current_namespace.v }
    pub open spec fn same_scopes(&self, o: &XmlTreeBuilder) -> bool { self.stack() == o.stack() && self.cur() == o.cur() }
    /// the stack of open elements and the phase are untouched (what the tree-construction rules of U-xtb need of the namespace code)
    pub open spec fn same_tree(&self, o: &XmlTreeBuilder) -> bool { self.open_elems == o.open_elems && self.phase == o.phase && self.doc_handle == o.doc_handle }
}

/// `&mut v[i]` (ASSUMED contract of IndexMut for Vec)
#[verifier::external_body]
pub fn vec_index_mut<T>(v: &mut Vec<T>, i: usize) -> (r: &mut T)
    requires i < old(v)@.len(),
    ensures *r == old(v)@[i as int], final(v)@ == old(v)@.update(i as int, *final(r)),
{ unimplemented!() }
/// std::mem::replace on the per-tag declarations (rule R16)
pub fn replace_nsmap(dst: &mut NamespaceMap, src: NamespaceMap) -> (r: NamespaceMap)
    ensures r == *old(dst), *final(dst) == src,
{
    let mut s = src; std::mem::swap(dst, &mut s); s
}

// ---- what processing the namespaces of one tag must do ----
pub open spec fn is_decl(q: QualName) -> bool { q.prefix == Some(namespace_prefix!("xmlns")) || q.local == local_name!("xmlns") }
/// the declarations of the tag after the first n attributes have been looked at (rejected declarations change nothing)
pub open spec fn declare_all(m: NsMap, attrs: Seq<Attribute>, n: int) -> NsMap
    decreases n
{
    if n <= 0 { m } else {
        let m1 = declare_all(m, attrs, n - 1);
        let a = attrs[n - 1];
        if is_decl(a.name) { match decl_effect(m1, a.name.prefix, a.name.local, a.value@) { Some(m2) => m2, None => m1 } } else { m1 }
    }
}
pub struct AbsAttr { pub name: QualName, pub value: Seq<char> }
pub open spec fn abs_attrs(v: Seq<Attribute>) -> Seq<AbsAttr> { Seq::new(v.len(), |i: int| AbsAttr { name: v[i].name, value: v[i].value@ }) }
/// the attributes kept out of the first n (and the expanded names of the prefixed ones among them): declarations are not
/// attributes of the element; an unprefixed attribute is in no namespace and kept; a prefixed one gets the namespace its
/// prefix is bound to and is dropped exactly if an earlier kept prefixed attribute has the same expanded name
pub open spec fn bound_attrs(stack: Seq<NamespaceMap>, cur: NamespaceMap, attrs: Seq<Attribute>, n: int) -> (Seq<AbsAttr>, Set<(Namespace, LocalName)>)
    decreases n
{
    if n <= 0 { (Seq::<AbsAttr>::empty(), Set::<(Namespace, LocalName)>::empty()) } else {
        let (k, p) = bound_attrs(stack, cur, attrs, n - 1);
        let a = attrs[n - 1];
        if is_decl(a.name) { (k, p) }
        else if a.name.prefix is None { (k.push(AbsAttr { name: a.name, value: a.value@ }), p) }
        else {
            let ns = resolved_ns(stack, cur, a.name.prefix, a.name.ns);
            if p.contains((ns, a.name.local)) { (k, p) }
            else { (k.push(AbsAttr { name: QualName { ns, ..a.name }, value: a.value@ }), p.insert((ns, a.name.local))) }
        }
    }
}
