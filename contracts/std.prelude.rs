// ======== std assumptions (hand-written; ASSUMED contracts on the standard library) ========
// ======== std assumptions (VecDeque parts missing from vstd) ========
pub assume_specification<T, A: std::alloc::Allocator> [std::collections::VecDeque::<T, A>::is_empty] (v: &VecDeque<T, A>) -> (r: bool)
    ensures r == (v@.len() == 0);
pub assume_specification<T, A: std::alloc::Allocator> [std::collections::VecDeque::<T, A>::front] (v: &VecDeque<T, A>) -> (r: Option<&T>)
    ensures v@.len() == 0 ==> r.is_none(), v@.len() > 0 ==> r.is_some() && *r.unwrap() == v@[0];
pub assume_specification<T, A: std::alloc::Allocator> [std::collections::VecDeque::<T, A>::front_mut] (v: &mut VecDeque<T, A>) -> (r: Option<&mut T>)
    ensures old(v)@.len() == 0 ==> r.is_none() && final(v)@ == old(v)@,
            old(v)@.len() > 0 ==> r.is_some() && *r.unwrap() == old(v)@[0] && final(v)@ == old(v)@.update(0, *final(r.unwrap()));


// ---- std assumptions ----
pub assume_specification<T> [std::mem::drop] (_0: T) where T: std::marker::Destruct;
pub open spec fn spec_lower(c: char) -> char {
    if 'A' <= c && c <= 'Z' { ((c as u32) + 32) as char } else { c }
}
pub assume_specification [char::to_ascii_lowercase] (c: &char) -> (r: char)
    ensures r == spec_lower(*c);
pub open spec fn spec_alnum(c: char) -> bool {
    ('0' <= c && c <= '9') || ('a' <= c && c <= 'z') || ('A' <= c && c <= 'Z')
}
pub assume_specification [char::is_ascii_alphanumeric] (c: &char) -> (r: bool)
    ensures r == spec_alnum(*c);
pub open spec fn lower_u8(a: u8) -> u8 { if 65 <= a && a <= 90 { (a + 32) as u8 } else { a } }
pub assume_specification [u8::eq_ignore_ascii_case] (a: &u8, b: &u8) -> (r: bool)
    ensures r == (lower_u8(*a) == lower_u8(*b));
pub open spec fn spec_to_digit(c: char, base: u32) -> Option<u32> {
    if '0' <= c && c <= '9' && (c as u32 - 48) < base { Some((c as u32 - 48) as u32) }
    else if base > 10 && 'a' <= c && (c as u32) < 97 + (base - 10) { Some((c as u32 - 97 + 10) as u32) }
    else if base > 10 && 'A' <= c && (c as u32) < 65 + (base - 10) { Some((c as u32 - 65 + 10) as u32) }
    else { None }
}
pub assume_specification [char::to_digit] (c: char, base: u32) -> (r: Option<u32>)
    requires 2 <= base <= 36,
    ensures r == spec_to_digit(c, base);
pub open spec fn spec_from_u32(n: u32) -> Option<char> {
    if n <= 0x10FFFF && !(0xD800 <= n && n <= 0xDFFF) { Some(n as char) } else { None }
}
pub assume_specification [std::char::from_u32] (n: u32) -> (r: Option<char>)
    ensures r == spec_from_u32(n);

// further ASCII classification methods of char / u8 (so that code using them stays within the accepted subset)
pub open spec fn spec_alpha(c: char) -> bool { ('a' <= c && c <= 'z') || ('A' <= c && c <= 'Z') }
pub assume_specification [char::is_ascii_alphabetic] (c: &char) -> (r: bool)
    ensures r == spec_alpha(*c);
pub assume_specification [char::is_ascii_digit] (c: &char) -> (r: bool)
    ensures r == ('0' <= *c && *c <= '9');
pub assume_specification [char::is_ascii_hexdigit] (c: &char) -> (r: bool)
    ensures r == (('0' <= *c && *c <= '9') || ('a' <= *c && *c <= 'f') || ('A' <= *c && *c <= 'F'));
pub assume_specification [char::is_ascii_uppercase] (c: &char) -> (r: bool)
    ensures r == ('A' <= *c && *c <= 'Z');
pub assume_specification [char::is_ascii_lowercase] (c: &char) -> (r: bool)
    ensures r == ('a' <= *c && *c <= 'z');
pub assume_specification [char::is_ascii] (c: &char) -> (r: bool)
    ensures r == ((*c as u32) < 128);
pub assume_specification [char::is_ascii_whitespace] (c: &char) -> (r: bool)
    ensures r == (*c == ' ' || *c == '\t' || *c == '\n' || *c == '\x0C' || *c == '\r');
