// ---- U-frag: the set-up of the tree builder ----
/// `vec![x]`
pub fn vec_one<T>(x: T) -> (r: Vec<T>) ensures r@ == seq![x] { let mut v = Vec::new(); v.push(x); v }
/// a freshly created tree builder: nothing open, nothing pending, the "initial" insertion mode
pub open spec fn fresh_builder(tb: &TreeBuilder, sink: Sink, opts: TreeBuilderOpts) -> bool {
    &&& tb.sink == sink && tb.doc_handle == doc_of(sink)
    &&& tb.stack().len() == 0 && tb.list().len() == 0 && tb.template_modes.v@.len() == 0
    &&& tb.mode.v == InsertionMode::Initial && tb.orig_mode.v is None
    &&& tb.head_elem.v is None && tb.form_elem.v is None && tb.context_elem.v is None
    &&& tb.frameset_ok.v && !tb.ignore_lf.v && !tb.foster_parenting.v && tb.quirks_mode.v == opts.quirks_mode
}
