// ======================================================================================
// U-htok specification layer (hand-written).
// ======================================================================================
pub struct ProfileMap { pub x: u8 }
impl ProfileMap {
    #[verifier::external_body]
    pub fn get_mut(&mut self, k: &State) -> (r: Option<&mut u64>) { unimplemented!() }
    #[verifier::external_body]
    pub fn insert(&mut self, k: State, v: u64) { unimplemented!() }
}
// profiling clock: values are irrelevant to every property
pub struct Instant { pub x: u8 }
pub struct Duration { pub x: u8 }
impl Instant {
    #[verifier::external_body]
    pub fn now() -> Instant { unimplemented!() }
    #[verifier::external_body]
    pub fn elapsed(&self) -> Duration { unimplemented!() }
}
impl Duration {
    #[verifier::external_body]
    pub fn as_nanos(&self) -> u128 { unimplemented!() }
}
pub struct SmallCharSetDummy { pub x: u8 }

impl BufferQueue {
    #[verifier::external_body]
    pub fn default() -> (r: BufferQueue) ensures r.wf(), r.view() == Seq::<char>::empty() { unimplemented!() }
}

impl Doctype {
    pub fn default() -> (r: Doctype)
        ensures r.name.is_none(), r.public_id.is_none(), r.system_id.is_none(), !r.force_quirks,
    { Doctype { name: None, public_id: None, system_id: None, force_quirks: false } }
}
impl RefCell<Doctype> {
    pub fn take(&mut self) -> (r: Doctype) ensures r == old(self).v,
        final(self).v.name.is_none(), final(self).v.public_id.is_none(), final(self).v.system_id.is_none(), !final(self).v.force_quirks,
    {
        let mut x = Doctype::default(); std::mem::swap(&mut self.v, &mut x); x
    }
}
#[verifier::external_body]
pub fn take_attrs(v: &mut Vec<Attribute>) -> (r: Vec<Attribute>)
    ensures r@ == old(v)@, final(v)@ == Seq::<Attribute>::empty(),
{ unimplemented!() }

/// R18 model of `.iter().any(|a| a.name.local == name)` (ASSUMED)
#[verifier::external_body]
pub fn attrs_contain(attrs: &Vec<Attribute>, name: &LocalName) -> (r: bool)
    ensures r == (exists|i: int| 0 <= i < attrs@.len() && (#[trigger] attrs@[i]).name.local@ == name@),
{ unimplemented!() }

// (named character references: ent_value / ent_prefix / named_entities_get are in enttab.prelude.rs)
