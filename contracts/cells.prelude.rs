// ======== Cell / RefCell model (rule R1/R3) ========
// ---- Cell / RefCell (rule R1: interior mutability made explicit; single-threaded, non-re-entrant) ----
pub struct Cell<T> { pub v: T }
impl<T: Copy> Cell<T> {
    pub fn get(&self) -> (r: T) ensures r == self.v { self.v }
    pub fn set(&mut self, x: T) ensures final(self).v == x { self.v = x; }
}
impl<T: Copy> Cell<Option<T>> {
    /// Cell::take: the value is replaced by the default (None)
    pub fn take(&mut self) -> (r: Option<T>) ensures r == old(self).v, final(self).v == None::<T> { let x = self.v; self.v = None; x }
}
impl<T> Cell<T> {
    pub fn new(x: T) -> (r: Cell<T>) ensures r.v == x { Cell { v: x } }
}
pub struct RefCell<T> { pub v: T }
impl<T> RefCell<T> {
    pub fn new(x: T) -> (r: RefCell<T>) ensures r.v == x { RefCell { v: x } }
    pub fn borrow(&self) -> (r: &T) ensures *r == self.v { &self.v }
    pub fn borrow_mut(&mut self) -> (r: &mut T) ensures *r == old(self).v, *final(r) == final(self).v { &mut self.v }
}
impl<T> RefCell<Option<T>> {
    pub fn take(&mut self) -> (r: Option<T>) ensures r == old(self).v, final(self).v == None::<T> {
        let mut x = None; std::mem::swap(&mut self.v, &mut x); x
    }
    /// rule R30: the content moved out for the scope of a RefMut is moved back when the RefMut is dropped
    pub fn put_back(&mut self, x: Option<T>) ensures final(self).v == x { self.v = x; }
}
