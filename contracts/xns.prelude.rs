// ======================================================================================
// U-xns prelude (hand-written; not code from /repo): names, attributes and the tendril operations the XML
// qualified-name / namespace code uses.  Strings of atoms are byte strings (UTF-8).
// ======================================================================================
#[derive(PartialEq, Eq, Clone, Copy, Structural)]
pub struct LocalName(pub u64);
#[derive(PartialEq, Eq, Clone, Copy, Structural)]
pub struct Namespace(pub u64);
#[derive(PartialEq, Eq, Clone, Copy, Structural)]
pub struct Prefix(pub u64);
/// the string of an atom (rule R4)
pub uninterp spec fn local_bytes(id: u64) -> Seq<u8>;
pub uninterp spec fn ns_bytes(id: u64) -> Seq<u8>;
pub uninterp spec fn prefix_bytes(id: u64) -> Seq<u8>;
/// the atom of a string (interning)
pub uninterp spec fn local_atom(b: Seq<u8>) -> u64;
pub uninterp spec fn ns_atom(b: Seq<u8>) -> u64;
pub uninterp spec fn prefix_atom(b: Seq<u8>) -> u64;
/// ASSUMED (string_cache): interning is a bijection between strings and atoms (atoms are equal iff their strings are)
#[verifier::external_body]
pub proof fn axiom_atoms()
    ensures
        forall|a: u64| #[trigger] local_atom(local_bytes(a)) == a, forall|b: Seq<u8>| #[trigger] local_bytes(local_atom(b)) == b,
        forall|a: u64| #[trigger] ns_atom(ns_bytes(a)) == a, forall|b: Seq<u8>| #[trigger] ns_bytes(ns_atom(b)) == b,
        forall|a: u64| #[trigger] prefix_atom(prefix_bytes(a)) == a, forall|b: Seq<u8>| #[trigger] prefix_bytes(prefix_atom(b)) == b,
{}
impl LocalName {
    /// LocalName::from(&*tendril): interning (ASSUMED)
    #[verifier::external_body]
    pub fn from_tendril(t: &StrTendril) -> (r: LocalName) ensures r.0 == local_atom(utf8(t@)) { unimplemented!() }
}
impl Prefix {
    #[verifier::external_body]
    pub fn from_tendril(t: &StrTendril) -> (r: Prefix) ensures r.0 == prefix_atom(utf8(t@)) { unimplemented!() }
    /// Prefix::from(&*local): the prefix atom with the string of a local-name atom (ASSUMED)
    #[verifier::external_body]
    pub fn from_local(l: &LocalName) -> (r: Prefix) ensures r.0 == prefix_atom(local_bytes(l.0)) { unimplemented!() }
}
impl Namespace {
    #[verifier::external_body]
    pub fn from_tendril(t: &StrTendril) -> (r: Namespace) ensures r.0 == ns_atom(utf8(t@)) { unimplemented!() }
}
#[derive(Clone, Copy)]
pub struct QualName { pub prefix: Option<Prefix>, pub ns: Namespace, pub local: LocalName }
impl QualName {
    pub fn new(prefix: Option<Prefix>, ns: Namespace, local: LocalName) -> (r: QualName)
        ensures r.prefix == prefix, r.ns == ns, r.local == local,
    { QualName { prefix, ns, local } }
}
pub struct Attribute { pub name: QualName, pub value: StrTendril }
impl Attribute {
    #[verifier::external_body]
    pub fn clone(&self) -> (r: Attribute) ensures r.name == self.name, r.value@ == self.value@ { unimplemented!() }
}
/// qualified name of an attribute / element as the tokenizer sees it: (prefix string, local string)
pub open spec fn qn_key(q: QualName) -> (Option<Seq<u8>>, Seq<u8>) {
    (match q.prefix { Some(p) => Some(prefix_bytes(p.0)), None => None }, local_bytes(q.local.0))
}

// ---- tendril: byte-offset slicing (ASSUMED contract, stated on the UTF-8 bytes) ----
impl StrTendril {
    #[verifier::external_body]
    pub fn subtendril(&self, offset: u32, length: u32) -> (r: StrTendril)
        requires offset as nat + length as nat <= utf8(self@).len(), is_boundary(self@, offset as nat), is_boundary(self@, (offset + length) as nat),
        ensures utf8(r@) == utf8(self@).subrange(offset as int, offset as int + length as int),
    { unimplemented!() }
}

// ---- specification of qualified-name splitting (Namespaces in XML: QName ::= Prefix ':' LocalPart, both NCNames) ----
/// `i` is the position of the one colon of a prefixed name: not first, not last, and there is no other colon
pub open spec fn is_split(s: Seq<u8>, i: int) -> bool {
    0 < i < s.len() - 1 && s[i] == 58u8 && forall|j: int| 0 <= j < s.len() && j != i ==> #[trigger] s[j] != 58u8
}
/// (prefix, local) of the raw name `s`
pub open spec fn spec_qname(s: Seq<u8>) -> (Option<Seq<u8>>, Seq<u8>) {
    if exists|i: int| is_split(s, i) {
        let i = choose|i: int| is_split(s, i);
        (Some(s.subrange(0, i)), s.subrange(i + 1, s.len() as int))
    } else { (None, s) }
}
pub proof fn lemma_split_unique(s: Seq<u8>, i: int, j: int)
    requires is_split(s, i), is_split(s, j),
    ensures i == j,
{}
/// an ASCII byte of a UTF-8 string is a whole character: both sides of it are character boundaries
pub proof fn lemma_ascii_byte_boundary(s: Seq<char>, i: nat)
    requires i < utf8(s).len(), utf8(s)[i as int] < 128,
    ensures is_boundary(s, i), is_boundary(s, i + 1),
    decreases s.len(),
{
    lemma_utf8_empty(s);
    let c = s[0];
    let r = s.drop_first();
    let l = enc_len(c);
    lemma_enc(c);
    assert(utf8(s) =~= enc(c) + utf8(r));
    if i < l {
        assert(utf8(s)[i as int] == enc(c)[i as int]);
        assert(l == 1 && i == 0);
        assert(s.take(0) =~= Seq::<char>::empty());
        assert(cidx(s, 0) == 0);
        assert(cidx(s, 1) >= 1);
        lemma_utf8_empty(r);
        if r.len() == 0 { assert(cidx(r, 0) == 0); } else { lemma_enc(r[0]); assert(cidx(r, 0) == 0); }
        assert(cidx(s, 1) == 1);
        assert(s.take(1) =~= seq![c]);
        assert(seq![c].drop_first() =~= Seq::<char>::empty());
        assert(utf8(seq![c]) =~= enc(c));
    } else {
        assert(utf8(s)[i as int] == utf8(r)[i - l]);
        lemma_ascii_byte_boundary(r, (i - l) as nat);
        lemma_boundary_cons(s, (i - l) as nat);
        lemma_boundary_cons(s, (i - l + 1) as nat);
    }
}
pub proof fn lemma_cidx_le(s: Seq<char>, n: nat)
    ensures cidx(s, n) <= s.len(),
    decreases s.len(),
{
    if s.len() > 0 && enc_len(s[0]) <= n { lemma_cidx_le(s.drop_first(), (n - enc_len(s[0])) as nat); }
}
/// the two ends of a string are character boundaries
pub proof fn lemma_boundary_ends(s: Seq<char>)
    ensures is_boundary(s, 0), is_boundary(s, utf8(s).len()), cidx(s, utf8(s).len()) == s.len(),
    decreases s.len(),
{
    assert(s.take(0) =~= Seq::<char>::empty());
    if s.len() == 0 {
        assert(s.take(0) =~= s);
    } else {
        lemma_enc(s[0]);
        assert(cidx(s, 0) == 0);
        let r = s.drop_first();
        lemma_boundary_ends(r);
        assert(utf8(s) =~= enc(s[0]) + utf8(r));
        assert(cidx(s, utf8(s).len()) == 1 + cidx(r, utf8(r).len()));
        assert(s.take(s.len() as int) =~= s);
    }
}
/// a boundary of the tail is a boundary of the whole string
pub proof fn lemma_boundary_cons(s: Seq<char>, n: nat)
    requires s.len() > 0, is_boundary(s.drop_first(), n),
    ensures is_boundary(s, n + enc_len(s[0])),
{
    let c = s[0];
    let r = s.drop_first();
    let k = cidx(r, n);
    lemma_enc(c);
    lemma_cidx_le(r, n);
    assert(cidx(s, n + enc_len(c)) == 1 + k);
    assert(s.take(1 + k as int) =~= seq![c] + r.take(k as int));
    assert((seq![c] + r.take(k as int)).drop_first() =~= r.take(k as int));
    assert(utf8(seq![c] + r.take(k as int)) =~= enc(c) + utf8(r.take(k as int)));
}

/// the names of a tag's attributes are what process_qname produces: an unprefixed name is not splittable
pub open spec fn attrs_canonical(attrs: Seq<Attribute>) -> bool {
    forall|i: int| 0 <= i < attrs.len() ==> qn_key((#[trigger] attrs[i]).name) == spec_qname(qn_raw(attrs[i].name))
}
/// the raw (source) spelling of a qualified name
pub open spec fn qn_raw(q: QualName) -> Seq<u8> {
    match q.prefix { Some(p) => prefix_bytes(p.0) + seq![58u8] + local_bytes(q.local.0), None => local_bytes(q.local.0) }
}
pub proof fn lemma_qname_canonical(raw: Seq<u8>, q: QualName)
    requires qn_key(q) == spec_qname(raw),
    ensures qn_raw(q) == raw,
{
    if exists|i: int| is_split(raw, i) {
        let i = choose|i: int| is_split(raw, i);
        assert(raw.subrange(0, i) + seq![58u8] + raw.subrange(i + 1, raw.len() as int) =~= raw);
    }
}

// ---- models of the iterator adaptor used by XmlTokenizer::finish_attribute (rule R18; ASSUMED contracts) ----
/// `.iter().any(|a| &*a.name.local == name)`
#[verifier::external_body]
pub fn attrs_any_local_eq(attrs: &Vec<Attribute>, name: &StrTendril) -> (r: bool)
    ensures r == (exists|i: int| 0 <= i < attrs@.len() && local_bytes((#[trigger] attrs@[i]).name.local.0) == utf8(name@)),
{ unimplemented!() }
/// `.iter().any(|a| a.name.prefix.is_none() && &*a.name.local == name)`
#[verifier::external_body]
pub fn attrs_any_unprefixed_local_eq(attrs: &Vec<Attribute>, name: &StrTendril) -> (r: bool)
    ensures r == (exists|i: int| 0 <= i < attrs@.len() && (#[trigger] attrs@[i]).name.prefix is None && local_bytes(attrs@[i].name.local.0) == utf8(name@)),
{ unimplemented!() }
/// `Vec::insert(0, x)`
#[verifier::external_body]
pub fn attrs_insert0(v: &mut Vec<Attribute>, a: Attribute) ensures final(v)@ == seq![a] + old(v)@ { unimplemented!() }
/// std::mem::replace(dst, StrTendril::new()) (rule R16)
pub fn replace_tendril(dst: &mut StrTendril, src: StrTendril) -> (r: StrTendril)
    ensures r@ == old(dst)@, final(dst)@ == src@,
{
    let mut s = src; std::mem::swap(dst, &mut s); s
}
pub struct Cow { pub x: u8 }
impl Cow {
    #[verifier::external_body]
    pub fn msg() -> Cow { unimplemented!() }
}
pub struct Handle { pub id: u64 }
