// ---- U-inbody: models for the "in body" insertion mode (13.2.6.4.7) ----
#[verifier::opaque]
pub open spec fn ts_heading_tag(p: ExpandedName) -> bool { ts::heading_tag(p) }
#[verifier::opaque]
pub open spec fn ts_list_item_scope(p: ExpandedName) -> bool { ts::list_item_scope(p) }
#[verifier::external_body]
pub fn heading_tag(p: ExpandedName) -> (r: bool) ensures r == ts_heading_tag(p) { unimplemented!() }
#[verifier::external_body]
pub fn list_item_scope(p: ExpandedName) -> (r: bool) ensures r == ts_list_item_scope(p) { unimplemented!() }
/// local tag sets of the <li>/<dd>/<dt> rule (rule R39, ASSUMED as for `implied`)
#[verifier::external_body]
pub fn close_list(p: ExpandedName) -> (r: bool) ensures r == (p == html_name(local_name!("li"))) { unimplemented!() }
#[verifier::external_body]
pub fn close_defn(p: ExpandedName) -> (r: bool) ensures r == (p == html_name(local_name!("dd")) || p == html_name(local_name!("dt"))) { unimplemented!() }
#[verifier::external_body]
pub fn extra_special(p: ExpandedName) -> (r: bool)
    ensures r == (ts_special_tag(p) && p != html_name(local_name!("address")) && p != html_name(local_name!("div")) && p != html_name(local_name!("p"))),
{ unimplemented!() }
/// tree_builder::html_elem: the first entry of the stack
pub fn html_elem(open_elems: &Vec<Handle>) -> (r: &Handle)
    requires open_elems@.len() > 0,
    ensures *r == open_elems@[0],
{ &open_elems[0] }
/// `opt.as_deref().cloned()` / `opt.map(|b| b.clone())` on the Option<&Handle> body_elem returns (rule R38)
pub fn opt_cloned(o: Option<&Handle>) -> (r: Option<Handle>)
    ensures match o { Some(h) => r == Some(*h), None => r is None },
{ match o { Some(h) => Some(h.clone()), None => None } }
/// `v.iter().find(f).cloned()`: the first entry that satisfies f (rule R37, ASSUMED)
#[verifier::external_body]
pub fn vec_find_cloned<F: Fn(&Handle) -> bool>(v: &Vec<Handle>, f: F) -> (r: Option<Handle>)
    requires forall|i: int| 0 <= i < v@.len() ==> f.requires((&#[trigger] v@[i],)),
    ensures forall|t: spec_fn(Handle) -> bool| ref_agrees(f, t) ==> #[trigger] seq_position(v@, t, 0) == (match r { Some(h) => seq_position(v@, t, 0), None => None::<usize> })
                && (r is Some <==> seq_position(v@, t, 0) is Some) && (r is Some ==> r.unwrap() == v@[seq_position(v@, t, 0).unwrap() as int]),
{ unimplemented!() }
pub uninterp spec fn w_is_type_hidden(tag: Tag) -> bool;
pub uninterp spec fn w_noah(l: Seq<FormatEntry>, tag: Tag) -> Seq<FormatEntry>;
pub uninterp spec fn w_clear_to_marker(l: Seq<FormatEntry>) -> Seq<FormatEntry>;
/// rule R36/R37: `self.active_formatting_end_to_marker().iter().find(|&(_, n, _)| self.html_elem_named(n, NAME)).map(|(_, n, _)| n.clone())`:
/// from the end of the list down to (not including) the last marker, the first entry whose element is an HTML element of that name
pub open spec fn fmt_elem_for(l: Seq<FormatEntry>, name: LocalName, n: int) -> Option<int>
    decreases n
{
    if n <= 0 { None } else if l[n - 1] is Marker { None } else if html_named(l[n - 1]->Element_0, name) { Some(n - 1) } else { fmt_elem_for(l, name, n - 1) }
}
pub proof fn lemma_fmt_elem(l: Seq<FormatEntry>, name: LocalName, n: int)
    requires 0 <= n <= l.len(),
    ensures fmt_elem_for(l, name, n) matches Some(i) ==> 0 <= i < n && l[i] is Element && html_named(l[i]->Element_0, name),
    decreases n,
{
    if n > 0 && !(l[n - 1] is Marker) && !html_named(l[n - 1]->Element_0, name) { lemma_fmt_elem(l, name, n - 1); }
}
/// (ASSUMED to be what the adaptor chain computes; the iterator's text is checked as in U-fmt)
#[verifier::external_body]
pub fn fmt_elem_named(l: &Vec<FormatEntry>, name: LocalName) -> (r: Option<Handle>)
    ensures match fmt_elem_for(l@, name, l@.len() as int) { Some(i) => 0 <= i < l@.len() && l@[i] is Element && r == Some(l@[i]->Element_0), None => r is None },
{ unimplemented!() }
/// "if the list of active formatting elements contains an a element between the end of the list and the last marker ..: parse
/// error; run the adoption agency algorithm for the token, then remove that element from the list of active formatting elements
/// and the stack of open elements if the adoption agency algorithm didn't already remove it"
pub open spec fn w_misnested(a: Aaa, name: LocalName, foster: bool) -> Aaa {
    match fmt_elem_for(a.list, name, a.list.len() as int) {
        None => a,
        Some(i) => {
            let node = a.list[i]->Element_0;
            let v1 = w_aaa(erred_view(a), name, foster);
            let l2 = match list_pos(v1.list, node) { Some(p) => v1.list.remove(p as int), None => v1.list };
            let s2 = match seq_rposition(v1.stack, is_handle(node), v1.stack.len() as int) { Some(k) => v1.stack.remove(k as int), None => v1.stack };
            Aaa { stack: s2, list: l2, ..v1 }
        },
    }
}
pub open spec fn erred_view(a: Aaa) -> Aaa { Aaa { errs: a.errs + 1, ..a } }
pub open spec fn rpos_or0(s: Seq<Handle>, h: Handle) -> int { match seq_rposition(s, is_handle(h), s.len() as int) { Some(k) => k as int, None => 0int } }
pub open spec fn lpos_or0(l: Seq<FormatEntry>, h: Handle) -> int { match list_pos(l, h) { Some(p) => p as int, None => 0int } }
/// ASSUMED (not proved: it needs "no entry of the list is for a template element", which aaa_inv does not carry, and an induction
/// over the whole adoption agency specification): the adoption agency algorithm does not put a template element on the stack
#[verifier::external_body]
pub proof fn axiom_aaa_no_new_templates(a: Aaa, subject: LocalName, foster: bool)
    requires aaa_inv(a),
    ensures count_templates(w_aaa(a, subject, foster).stack, w_aaa(a, subject, foster).stack.len() as int) <= count_templates(a.stack, a.stack.len() as int),
{}
/// removing one entry from the stack does not add a template
pub proof fn lemma_count_remove(st: Seq<Handle>, k: int, n: int)
    requires 0 <= k < st.len(), 0 <= n <= st.len() - 1,
    ensures count_templates(st.remove(k), n) <= count_templates(st, n + 1),
            n <= k ==> count_templates(st.remove(k), n) == count_templates(st, n),
    decreases n,
{
    let r = st.remove(k);
    if n > 0 {
        lemma_count_remove(st, k, n - 1);
        if n - 1 < k {
            assert(r[n - 1] == st[n - 1]);
            assert(count_templates(r, n) == count_templates(st, n));
        } else {
            assert(r[n - 1] == st[n]);
            assert(count_templates(r, n) <= count_templates(st, n) + (if html_named(st[n], local_name!("template")) { 1int } else { 0int }));
        }
    }
    assert(count_templates(st, n + 1) == count_templates(st, n) + (if html_named(st[n], local_name!("template")) { 1int } else { 0int }));
}
/// removing an element other than the root from the stack, and possibly one entry from the list, keeps the invariant
pub proof fn lemma_inv_remove(a: Aaa, b: Aaa, k: int, drop: int)
    requires aaa_inv(a), b.created == a.created,
             b.stack == a.stack || (1 <= k < a.stack.len() && b.stack == a.stack.remove(k)),
             b.list == a.list || (0 <= drop < a.list.len() && b.list == a.list.remove(drop)),
    ensures aaa_inv(b),
{
    reveal(aaa_inv);
    if b.stack != a.stack {
        assert(b.stack[0] == a.stack[0]);
        assert forall|i: int| 0 <= i < b.stack.len() implies (#[trigger] b.stack[i]).id@ < b.created by {
            if i < k { assert(b.stack[i] == a.stack[i]); } else { assert(b.stack[i] == a.stack[i + 1]); }
        }
    }
    if b.list != a.list {
        assert forall|i: int| 0 <= i < b.list.len() && (#[trigger] b.list[i]) is Element implies b.list[i]->Element_0.id@ < b.created
            && elem_name_of(b.list[i]->Element_0) == html_name(b.list[i]->Element_1.name) by {
            if i < drop { assert(b.list[i] == a.list[i]); } else { assert(b.list[i] == a.list[i + 1]); }
        }
    }
}
impl TreeBuilder {
    /// is_type_hidden (ASSUMED: an uninterpreted function of the tag; the body compares the `type` attribute with "hidden")
    #[verifier::external_body]
    pub fn is_type_hidden(&self, tag: &Tag) -> (r: bool) ensures r == w_is_type_hidden(*tag) { unimplemented!() }
    /// check_body_end (ASSUMED frame): reports at most one parse error
    #[verifier::external_body]
    pub fn check_body_end(&mut self)
        ensures final(self).same_but_stack(old(self)), final(self).stack() == old(self).stack(), sink_quiet(final(self).sink, old(self).sink),
                final(self).sink.pops == old(self).sink.pops, old(self).sink.errs@ <= final(self).sink.errs@ <= old(self).sink.errs@ + 1,
    { unimplemented!() }
    /// create_formatting_element_for (contract proved in U-fmt over its own model): Noah's Ark clause, then insert and append
    #[verifier::external_body]
    pub fn create_formatting_element_for(&mut self, tag: Tag) -> (r: Handle)
        requires old(self).stack().len() > 0, !html_named(old(self).stack()[0], local_name!("table")),
        ensures final(self).same_but_stack_list(old(self)), final(self).stack() == old(self).stack().push(r),
                r == fresh_handle(old(self).sink.created@), elem_name_of(r) == html_name(tag.name),
                final(self).list() == w_noah(old(self).list(), tag).push(FormatEntry::Element(r, tag)),
                final(self).sink == (Sink { created: Ghost(old(self).sink.created@ + 1), dom: Ghost(w_insert_dom(old(self), r, ns!(html), tag.name, tag.attrs@, tag.had_duplicate_attributes)), ..old(self).sink }),
    { unimplemented!() }
    /// clear_active_formatting_to_marker (contract proved in U-fmt)
    #[verifier::external_body]
    pub fn clear_active_formatting_to_marker(&mut self)
        ensures final(self).same_but_stack_list(old(self)), final(self).stack() == old(self).stack(), final(self).sink == old(self).sink,
                final(self).list() == w_clear_to_marker(old(self).list()),
    { unimplemented!() }
}
/// what the "in body" rules need of the tree builder's state (ASSUMED at entry: an invariant of the tree builder)
pub open spec fn inbody_pre(tb: &TreeBuilder) -> bool {
    &&& aaa_inv(tb.aaa_view())
}

// ---- the stack of template insertion modes ----
#[verifier::opaque]
pub open spec fn ts_thorough_implied_end(p: ExpandedName) -> bool { ts::thorough_implied_end(p) }
#[verifier::external_body]
pub fn thorough_implied_end(p: ExpandedName) -> (r: bool) ensures r == ts_thorough_implied_end(p) { unimplemented!() }
pub open spec fn set_thorough() -> spec_fn(ExpandedName) -> bool { |p: ExpandedName| ts_thorough_implied_end(p) }
/// number of HTML template elements among the first n entries of the stack
pub open spec fn count_templates(st: Seq<Handle>, n: int) -> int
    decreases n
{
    if n <= 0 { 0 } else { count_templates(st, n - 1) + (if html_named(st[n - 1], local_name!("template")) { 1int } else { 0int }) }
}
/// ASSUMED at entry (an invariant of the tree builder): every open template element - and a template context element - has
/// its entry on the stack of template insertion modes
pub open spec fn tmpl_inv(tb: &TreeBuilder) -> bool {
    count_templates(tb.stack(), tb.stack().len() as int)
        + (if tb.context_elem.v is Some && html_named(tb.context_elem.v.unwrap(), local_name!("template")) { 1int } else { 0int })
        <= tb.template_modes.v@.len()
}
pub open spec fn tmpl_mode(tb: &TreeBuilder) -> InsertionMode { if tb.template_modes.v@.len() > 0 { tb.template_modes.v@.last() } else { InsertionMode::InBody } }
pub proof fn lemma_count_templates(st: Seq<Handle>, n: int)
    requires 0 <= n <= st.len(),
    ensures
        0 <= count_templates(st, n) <= n,
        (count_templates(st, n) > 0) == (exists|i: int| 0 <= i < n && html_named(#[trigger] st[i], local_name!("template"))),
    decreases n,
{
    if n > 0 {
        lemma_count_templates(st, n - 1);
        if html_named(st[n - 1], local_name!("template")) { assert(html_named(st[n - 1], local_name!("template"))); }
    }
}
/// popping down to (and including) the topmost template removes exactly one template
pub proof fn lemma_count_after_pop(st: Seq<Handle>, n: int, k: int)
    requires 0 <= k < n <= st.len(), html_named(st[k], local_name!("template")), forall|j: int| k < j < n ==> !html_named(#[trigger] st[j], local_name!("template")),
    ensures count_templates(st, n) == count_templates(st.take(k), k) + 1,
    decreases n,
{
    if n - 1 > k { lemma_count_after_pop(st, n - 1, k); }
    else { lemma_count_prefix(st, st.take(k), k); }
}
pub proof fn lemma_count_prefix(a: Seq<Handle>, b: Seq<Handle>, n: int)
    requires 0 <= n <= a.len(), n <= b.len(), forall|j: int| 0 <= j < n ==> a[j] == b[j],
    ensures count_templates(a, n) == count_templates(b, n),
    decreases n,
{
    if n > 0 { lemma_count_prefix(a, b, n - 1); }
}
/// the rule for `</template>` (in head) and for EOF inside a template: pop down to the template, clear the list to the last
/// marker, pop the template insertion mode, reset the insertion mode
pub open spec fn w_close_template(a: &TreeBuilder, st1: Seq<Handle>, b: &TreeBuilder) -> bool {
    &&& b.stack() == w_pop_until(st1, name_is_html(local_name!("template")))
    &&& b.list() == w_clear_to_marker(a.list())
    &&& b.template_modes.v@ == a.template_modes.v@.drop_last()
    &&& b.mode.v == w_reset(b.stack(), b.stack().len() as int, a.context_elem.v, a.head_elem.v is Some, tmpl_mode(b))
    &&& tmpl_inv(b)
}
/// facts about tag sets used here (PROVED from the repository's own tag-set text, module `ts`)
pub proof fn lemma_tagset_facts()
    ensures !ts_thorough_implied_end(html_name(local_name!("template"))),
{
    reveal(ts_thorough_implied_end);
    reveal(ts_cursory_implied_end);
}
pub proof fn lemma_implied_prefix(st: Seq<Handle>, set: spec_fn(ExpandedName) -> bool)
    ensures w_implied(st, set).len() <= st.len(), w_implied(st, set) == st.take(w_implied(st, set).len() as int),
            w_implied(st, set).len() > 0 ==> !set(elem_name_of(w_implied(st, set).last())),
    decreases st.len(),
{
    if st.len() > 0 && set(elem_name_of(st.last())) {
        lemma_implied_prefix(st.drop_last(), set);
        let r = w_implied(st.drop_last(), set);
        assert(st.drop_last().take(r.len() as int) =~= st.take(r.len() as int));
    } else {
        assert(st.take(st.len() as int) =~= st);
    }
}
/// an element that is not in the set survives "generate implied end tags"
pub proof fn lemma_implied_keeps_at(st: Seq<Handle>, set: spec_fn(ExpandedName) -> bool, k: int)
    requires 0 <= k < st.len(), !set(elem_name_of(st[k])),
    ensures w_implied(st, set).len() > k,
    decreases st.len(),
{
    if st.len() > 0 && set(elem_name_of(st.last())) { lemma_implied_keeps_at(st.drop_last(), set, k); }
}
pub proof fn lemma_count_mono(st: Seq<Handle>, m: int, n: int)
    requires 0 <= m <= n <= st.len(),
    ensures count_templates(st, m) <= count_templates(st, n),
    decreases n - m,
{
    if m < n { lemma_count_mono(st, m, n - 1); }
}
/// closing a template keeps the invariant and makes reset_insertion_mode's look-up safe
pub proof fn lemma_close_template(a: &TreeBuilder, st1: Seq<Handle>)
    requires tmpl_inv(a), st1.len() <= a.stack().len(), st1 == a.stack().take(st1.len() as int), seq_any(st1, is_html_named(local_name!("template"))),
    ensures ({
        let st2 = w_pop_until(st1, name_is_html(local_name!("template")));
        let c = if a.context_elem.v is Some && html_named(a.context_elem.v.unwrap(), local_name!("template")) { 1int } else { 0int };
        &&& a.template_modes.v@.len() > 0
        &&& count_templates(st2, st2.len() as int) + c <= a.template_modes.v@.len() - 1
        &&& (reset_sees_template(st2, a.context_elem.v) ==> a.template_modes.v@.len() - 1 > 0)
    }),
{
    let st0 = a.stack();
    let n1 = st1.len() as int;
    let p = name_is_html(local_name!("template"));
    lemma_top_match(st1, n1, p);
    let w = choose|i: int| 0 <= i < st1.len() && is_html_named(local_name!("template"))(#[trigger] st1[i]);
    let k = top_match(st1, n1, p);
    if k < 0 { assert(!p(elem_name_of(st1[w]))); }
    assert(k >= 0);
    assert(html_named(st1[k], local_name!("template")));
    assert forall|j: int| k < j < n1 implies !html_named(#[trigger] st1[j], local_name!("template")) by { assert(!p(elem_name_of(st1[j]))); }
    lemma_count_after_pop(st1, n1, k);
    let st2 = st1.take(k);
    assert(st2 == w_pop_until(st1, p));
    lemma_count_prefix(st1, st0, n1);
    lemma_count_mono(st0, n1, st0.len() as int);
    lemma_count_templates(st2, k);
    if reset_sees_template(st2, a.context_elem.v) {
        if exists|i: int| 0 <= i < st2.len() && html_named(#[trigger] st2[i], local_name!("template")) { assert(count_templates(st2, k) > 0); }
    }
}
