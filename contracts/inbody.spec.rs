// ---- U-inbody: models for the "in body" insertion mode (13.2.6.4.7) ----
#[verifier::opaque]
pub open spec fn ts_heading_tag(p: ExpandedName) -> bool { ts::heading_tag(p) }
#[verifier::opaque]
pub open spec fn ts_list_item_scope(p: ExpandedName) -> bool { ts::list_item_scope(p) }
#[verifier::external_body]
pub fn heading_tag(p: ExpandedName) -> (r: bool) ensures r == ts_heading_tag(p) { unimplemented!() }
#[verifier::external_body]
pub fn list_item_scope(p: ExpandedName) -> (r: bool) ensures r == ts_list_item_scope(p) { unimplemented!() }
/// local tag sets of the <li>/<dd>/<dt> rule (rule R39, ASSUMED as for `implied`)
#[verifier::external_body]
pub fn close_list(p: ExpandedName) -> (r: bool) ensures r == (p == html_name(local_name!("li"))) { unimplemented!() }
#[verifier::external_body]
pub fn close_defn(p: ExpandedName) -> (r: bool) ensures r == (p == html_name(local_name!("dd")) || p == html_name(local_name!("dt"))) { unimplemented!() }
#[verifier::external_body]
pub fn extra_special(p: ExpandedName) -> (r: bool)
    ensures r == (ts_special_tag(p) && p != html_name(local_name!("address")) && p != html_name(local_name!("div")) && p != html_name(local_name!("p"))),
{ unimplemented!() }
/// tree_builder::html_elem: the first entry of the stack
pub fn html_elem(open_elems: &Vec<Handle>) -> (r: &Handle)
    requires open_elems@.len() > 0,
    ensures *r == open_elems@[0],
{ &open_elems[0] }
/// `opt.as_deref().cloned()` / `opt.map(|b| b.clone())` on the Option<&Handle> body_elem returns (rule R38)
pub fn opt_cloned(o: Option<&Handle>) -> (r: Option<Handle>)
    ensures match o { Some(h) => r == Some(*h), None => r is None },
{ match o { Some(h) => Some(h.clone()), None => None } }
/// `v.iter().find(f).cloned()`: the first entry that satisfies f (rule R37, ASSUMED)
#[verifier::external_body]
pub fn vec_find_cloned<F: Fn(&Handle) -> bool>(v: &Vec<Handle>, f: F) -> (r: Option<Handle>)
    requires forall|i: int| 0 <= i < v@.len() ==> f.requires((&#[trigger] v@[i],)),
    ensures forall|t: spec_fn(Handle) -> bool| ref_agrees(f, t) ==> #[trigger] seq_position(v@, t, 0) == (match r { Some(h) => seq_position(v@, t, 0), None => None::<usize> })
                && (r is Some <==> seq_position(v@, t, 0) is Some) && (r is Some ==> r.unwrap() == v@[seq_position(v@, t, 0).unwrap() as int]),
{ unimplemented!() }
pub uninterp spec fn w_is_type_hidden(tag: Tag) -> bool;
pub uninterp spec fn w_noah(l: Seq<FormatEntry>, tag: Tag) -> Seq<FormatEntry>;
pub uninterp spec fn w_clear_to_marker(l: Seq<FormatEntry>) -> Seq<FormatEntry>;
pub uninterp spec fn w_enter_foreign(tb: TreeBuilder, tag: Tag, ns: Namespace) -> (TreeBuilder, ProcessResult);
pub uninterp spec fn w_misnested_a(tb: TreeBuilder, tag: Tag) -> TreeBuilder;
impl TreeBuilder {
    /// is_type_hidden (ASSUMED: an uninterpreted function of the tag; the body compares the `type` attribute with "hidden")
    #[verifier::external_body]
    pub fn is_type_hidden(&self, tag: &Tag) -> (r: bool) ensures r == w_is_type_hidden(*tag) { unimplemented!() }
    /// check_body_end (ASSUMED frame): reports at most one parse error
    #[verifier::external_body]
    pub fn check_body_end(&mut self)
        ensures final(self).same_but_stack(old(self)), final(self).stack() == old(self).stack(), sink_quiet(final(self).sink, old(self).sink),
                final(self).sink.pops == old(self).sink.pops, old(self).sink.errs@ <= final(self).sink.errs@ <= old(self).sink.errs@ + 1,
    { unimplemented!() }
    /// create_formatting_element_for (contract proved in U-fmt over its own model): Noah's Ark clause, then insert and append
    #[verifier::external_body]
    pub fn create_formatting_element_for(&mut self, tag: Tag) -> (r: Handle)
        requires old(self).stack().len() > 0, !html_named(old(self).stack()[0], local_name!("table")),
        ensures final(self).same_but_stack_list(old(self)), final(self).stack() == old(self).stack().push(r),
                r == fresh_handle(old(self).sink.created@), elem_name_of(r) == html_name(tag.name),
                final(self).list() == w_noah(old(self).list(), tag).push(FormatEntry::Element(r, tag)),
                final(self).sink == (Sink { created: Ghost(old(self).sink.created@ + 1), dom: Ghost(w_insert_dom(old(self), r, ns!(html), tag.name, tag.attrs@, tag.had_duplicate_attributes)), ..old(self).sink }),
    { unimplemented!() }
    /// clear_active_formatting_to_marker (contract proved in U-fmt)
    #[verifier::external_body]
    pub fn clear_active_formatting_to_marker(&mut self)
        ensures final(self).same_but_stack_list(old(self)), final(self).stack() == old(self).stack(), final(self).sink == old(self).sink,
                final(self).list() == w_clear_to_marker(old(self).list()),
    { unimplemented!() }
    /// handle_misnested_a_tags (ASSUMED: an uninterpreted state transformer - it runs the adoption agency algorithm for "a" and
    /// removes the element from the list and the stack - that keeps the tree builder's invariants)
    #[verifier::external_body]
    pub fn handle_misnested_a_tags(&mut self, tag: &Tag)
        requires aaa_inv(old(self).aaa_view()),
        ensures *final(self) == w_misnested_a(*old(self), *tag), aaa_inv(final(self).aaa_view()),
                final(self).template_modes == old(self).template_modes, final(self).context_elem == old(self).context_elem,
                count_templates(final(self).stack(), final(self).stack().len() as int) <= count_templates(old(self).stack(), old(self).stack().len() as int),
    { unimplemented!() }
    /// enter_foreign (ASSUMED: an uninterpreted state transformer: adjust attributes, insert a foreign element)
    #[verifier::external_body]
    pub fn enter_foreign(&mut self, tag: Tag, ns: Namespace) -> (r: ProcessResult)
        ensures (*final(self), r) == w_enter_foreign(*old(self), tag, ns),
    { unimplemented!() }
}
/// what the "in body" rules need of the tree builder's state (ASSUMED at entry: an invariant of the tree builder)
pub open spec fn inbody_pre(tb: &TreeBuilder) -> bool {
    &&& aaa_inv(tb.aaa_view())
}

// ---- the stack of template insertion modes ----
#[verifier::opaque]
pub open spec fn ts_thorough_implied_end(p: ExpandedName) -> bool { ts::thorough_implied_end(p) }
#[verifier::external_body]
pub fn thorough_implied_end(p: ExpandedName) -> (r: bool) ensures r == ts_thorough_implied_end(p) { unimplemented!() }
pub open spec fn set_thorough() -> spec_fn(ExpandedName) -> bool { |p: ExpandedName| ts_thorough_implied_end(p) }
/// number of HTML template elements among the first n entries of the stack
pub open spec fn count_templates(st: Seq<Handle>, n: int) -> int
    decreases n
{
    if n <= 0 { 0 } else { count_templates(st, n - 1) + (if html_named(st[n - 1], local_name!("template")) { 1int } else { 0int }) }
}
/// ASSUMED at entry (an invariant of the tree builder): every open template element - and a template context element - has
/// its entry on the stack of template insertion modes
pub open spec fn tmpl_inv(tb: &TreeBuilder) -> bool {
    count_templates(tb.stack(), tb.stack().len() as int)
        + (if tb.context_elem.v is Some && html_named(tb.context_elem.v.unwrap(), local_name!("template")) { 1int } else { 0int })
        <= tb.template_modes.v@.len()
}
pub open spec fn tmpl_mode(tb: &TreeBuilder) -> InsertionMode { if tb.template_modes.v@.len() > 0 { tb.template_modes.v@.last() } else { InsertionMode::InBody } }
pub proof fn lemma_count_templates(st: Seq<Handle>, n: int)
    requires 0 <= n <= st.len(),
    ensures
        0 <= count_templates(st, n) <= n,
        (count_templates(st, n) > 0) == (exists|i: int| 0 <= i < n && html_named(#[trigger] st[i], local_name!("template"))),
    decreases n,
{
    if n > 0 {
        lemma_count_templates(st, n - 1);
        if html_named(st[n - 1], local_name!("template")) { assert(html_named(st[n - 1], local_name!("template"))); }
    }
}
/// popping down to (and including) the topmost template removes exactly one template
pub proof fn lemma_count_after_pop(st: Seq<Handle>, n: int, k: int)
    requires 0 <= k < n <= st.len(), html_named(st[k], local_name!("template")), forall|j: int| k < j < n ==> !html_named(#[trigger] st[j], local_name!("template")),
    ensures count_templates(st, n) == count_templates(st.take(k), k) + 1,
    decreases n,
{
    if n - 1 > k { lemma_count_after_pop(st, n - 1, k); }
    else { lemma_count_prefix(st, st.take(k), k); }
}
pub proof fn lemma_count_prefix(a: Seq<Handle>, b: Seq<Handle>, n: int)
    requires 0 <= n <= a.len(), n <= b.len(), forall|j: int| 0 <= j < n ==> a[j] == b[j],
    ensures count_templates(a, n) == count_templates(b, n),
    decreases n,
{
    if n > 0 { lemma_count_prefix(a, b, n - 1); }
}
/// the rule for `</template>` (in head) and for EOF inside a template: pop down to the template, clear the list to the last
/// marker, pop the template insertion mode, reset the insertion mode
pub open spec fn w_close_template(a: &TreeBuilder, st1: Seq<Handle>, b: &TreeBuilder) -> bool {
    &&& b.stack() == w_pop_until(st1, name_is_html(local_name!("template")))
    &&& b.list() == w_clear_to_marker(a.list())
    &&& b.template_modes.v@ == a.template_modes.v@.drop_last()
    &&& b.mode.v == w_reset(b.stack(), b.stack().len() as int, a.context_elem.v, a.head_elem.v is Some, tmpl_mode(b))
    &&& tmpl_inv(b)
}
/// facts about tag sets used here (PROVED from the repository's own tag-set text, module `ts`)
pub proof fn lemma_tagset_facts()
    ensures !ts_thorough_implied_end(html_name(local_name!("template"))),
{
    reveal(ts_thorough_implied_end);
    reveal(ts_cursory_implied_end);
}
pub proof fn lemma_implied_prefix(st: Seq<Handle>, set: spec_fn(ExpandedName) -> bool)
    ensures w_implied(st, set).len() <= st.len(), w_implied(st, set) == st.take(w_implied(st, set).len() as int),
            w_implied(st, set).len() > 0 ==> !set(elem_name_of(w_implied(st, set).last())),
    decreases st.len(),
{
    if st.len() > 0 && set(elem_name_of(st.last())) {
        lemma_implied_prefix(st.drop_last(), set);
        let r = w_implied(st.drop_last(), set);
        assert(st.drop_last().take(r.len() as int) =~= st.take(r.len() as int));
    } else {
        assert(st.take(st.len() as int) =~= st);
    }
}
/// an element that is not in the set survives "generate implied end tags"
pub proof fn lemma_implied_keeps_at(st: Seq<Handle>, set: spec_fn(ExpandedName) -> bool, k: int)
    requires 0 <= k < st.len(), !set(elem_name_of(st[k])),
    ensures w_implied(st, set).len() > k,
    decreases st.len(),
{
    if st.len() > 0 && set(elem_name_of(st.last())) { lemma_implied_keeps_at(st.drop_last(), set, k); }
}
pub proof fn lemma_count_mono(st: Seq<Handle>, m: int, n: int)
    requires 0 <= m <= n <= st.len(),
    ensures count_templates(st, m) <= count_templates(st, n),
    decreases n - m,
{
    if m < n { lemma_count_mono(st, m, n - 1); }
}
/// closing a template keeps the invariant and makes reset_insertion_mode's look-up safe
pub proof fn lemma_close_template(a: &TreeBuilder, st1: Seq<Handle>)
    requires tmpl_inv(a), st1.len() <= a.stack().len(), st1 == a.stack().take(st1.len() as int), seq_any(st1, is_html_named(local_name!("template"))),
    ensures ({
        let st2 = w_pop_until(st1, name_is_html(local_name!("template")));
        let c = if a.context_elem.v is Some && html_named(a.context_elem.v.unwrap(), local_name!("template")) { 1int } else { 0int };
        &&& a.template_modes.v@.len() > 0
        &&& count_templates(st2, st2.len() as int) + c <= a.template_modes.v@.len() - 1
        &&& (reset_sees_template(st2, a.context_elem.v) ==> a.template_modes.v@.len() - 1 > 0)
    }),
{
    let st0 = a.stack();
    let n1 = st1.len() as int;
    let p = name_is_html(local_name!("template"));
    lemma_top_match(st1, n1, p);
    let w = choose|i: int| 0 <= i < st1.len() && is_html_named(local_name!("template"))(#[trigger] st1[i]);
    let k = top_match(st1, n1, p);
    if k < 0 { assert(!p(elem_name_of(st1[w]))); }
    assert(k >= 0);
    assert(html_named(st1[k], local_name!("template")));
    assert forall|j: int| k < j < n1 implies !html_named(#[trigger] st1[j], local_name!("template")) by { assert(!p(elem_name_of(st1[j]))); }
    lemma_count_after_pop(st1, n1, k);
    let st2 = st1.take(k);
    assert(st2 == w_pop_until(st1, p));
    lemma_count_prefix(st1, st0, n1);
    lemma_count_mono(st0, n1, st0.len() as int);
    lemma_count_templates(st2, k);
    if reset_sees_template(st2, a.context_elem.v) {
        if exists|i: int| 0 <= i < st2.len() && html_named(#[trigger] st2[i], local_name!("template")) { assert(count_templates(st2, k) > 0); }
    }
}
