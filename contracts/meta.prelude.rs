// ---- U-meta prelude (hand-written): what the in-head rule for <base>/<basefont>/<bgsound>/<link>/<meta> needs ----
#[derive(PartialEq, Eq, Clone, Copy, Structural)]
pub struct LocalName(pub u64);
pub struct Handle { pub id: u64 }
/// model of tokenizer::Tag: its name and an attribute lookup (Tag::get_attribute: first attribute in no namespace with
/// that local name; ASSUMED to implement the uninterpreted lookup below)
pub struct Tag { pub name: LocalName, pub id: u64 }
pub uninterp spec fn tag_attr(tag: Tag, name: LocalName) -> Option<Seq<u8>>;
impl Tag {
    #[verifier::external_body]
    pub fn get_attribute(&self, name: &LocalName) -> (r: Option<StrTendril>)
        ensures match tag_attr(*self, *name) { Some(v) => r is Some && r.unwrap()@ == v, None => r is None },
    { unimplemented!() }
    #[verifier::external_body]
    pub fn clone(&self) -> (r: Tag) ensures r == *self { unimplemented!() }
}
/// `value.eq_ignore_ascii_case("content-type")` through Deref<Target = str> (ASSUMED std contract)
#[verifier::external_body]
pub fn tendril_eq_ignore_ascii_case(t: &StrTendril, s: &str) -> (r: bool)
    ensures r == lower_eq(t@, s.spec_bytes()),
{ unimplemented!() }
/// ASSUMED: the bytes of the literal "content-type"
#[verifier::external_body]
pub proof fn axiom_content_type_lit() ensures "content-type".spec_bytes() == content_type_kw() {}
pub open spec fn content_type_kw() -> Seq<u8> { seq![99u8, 111, 110, 116, 101, 110, 116, 45, 116, 121, 112, 101] }
pub struct TreeBuilder { pub x: u8 }
impl TreeBuilder {
    /// insert_and_pop_element_for (ASSUMED: inserts the element; no encoding decision is taken there)
    #[verifier::external_body]
    pub fn insert_and_pop_element_for(&mut self, tag: Tag) -> (r: Handle) { unimplemented!() }
}
pub enum ProcessResult { Done, DoneAckSelfClosing, EncodingIndicator(StrTendril) }

// ---- specification: WHATWG 13.2.6.4.4 "in head", a start tag whose tag name is "meta", steps 1-2 ----
/// the label extracted from a content attribute value
pub open spec fn content_label(c: Seq<u8>) -> Option<Seq<u8>> {
    match extract(c, 0) { Some((s, e)) => Some(c.subrange(s, e)), None => None }
}
/// the encoding label a start tag declares (None: no indicator)
pub open spec fn meta_label(tag: Tag) -> Option<Seq<u8>> {
    if tag.name != local_name!("meta") { None }
    else if tag_attr(tag, local_name!("charset")) is Some { tag_attr(tag, local_name!("charset")) }
    else if tag_attr(tag, local_name!("http-equiv")) is Some && lower_eq(tag_attr(tag, local_name!("http-equiv")).unwrap(), content_type_kw())
            && tag_attr(tag, local_name!("content")) is Some { content_label(tag_attr(tag, local_name!("content")).unwrap()) }
    else { None }
}
