// ======== U-enc prelude (hand-written; not code from /repo) ========
// StrTendril at the byte level: the view is the UTF-8 text.
pub struct StrTendril { pub b: Vec<u8> }
impl View for StrTendril { type V = Seq<u8>; open spec fn view(&self) -> Seq<u8> { self.b@ } }
/// a byte that does not continue a multi-byte sequence (str::is_char_boundary looks at exactly this)
pub open spec fn is_start(x: u8) -> bool { !(0x80 <= x && x < 0xC0) }
pub open spec fn boundary(b: Seq<u8>, i: int) -> bool { i == 0 || i == b.len() || (0 < i < b.len() && is_start(b[i])) }
impl StrTendril {
    #[verifier::external_body]
    pub fn as_bytes(&self) -> (r: &[u8]) ensures r@ == self@ { unimplemented!() }
    #[verifier::external_body]
    pub fn len(&self) -> (r: usize) ensures r == self@.len() { unimplemented!() }
    /// ASSUMED contract of Tendril::subtendril on a UTF-8 tendril: panics (precondition) unless the range is in
    /// bounds and, when non-empty, both ends are character boundaries; the result views the sub-range
    #[verifier::external_body]
    pub fn subtendril(&self, offset: u32, length: u32) -> (r: StrTendril)
        requires offset as int + length as int <= self@.len(),
            length > 0 ==> boundary(self@, offset as int) && boundary(self@, offset as int + length as int),
        ensures r@ == self@.subrange(offset as int, offset as int + length as int),
    { unimplemented!() }
}
/// ASSUMED (machine limit): a tendril is shorter than 2^32 bytes
#[verifier::external_body]
pub proof fn axiom_tendril_len(t: &StrTendril) ensures t@.len() <= u32::MAX {}

// ---- std slice / iterator adapters used by the function, as model functions with ASSUMED contracts ----
pub open spec fn is_ws(x: u8) -> bool { x == 9 || x == 10 || x == 12 || x == 13 || x == 32 }
pub open spec fn lower8(a: u8) -> u8 { if 65 <= a && a <= 90 { (a + 32) as u8 } else { a } }
/// `s.get(a..b)`
#[verifier::external_body]
pub fn slice_get_range(s: &[u8], a: usize, b: usize) -> (r: Option<&[u8]>)
    ensures a <= b && b <= s@.len() ==> r.is_some() && r.unwrap()@ == s@.subrange(a as int, b as int),
            !(a <= b && b <= s@.len()) ==> r.is_none(),
{ unimplemented!() }
/// `s.get(i)`
#[verifier::external_body]
pub fn slice_get(s: &[u8], i: usize) -> (r: Option<&u8>)
    ensures i < s@.len() ==> r.is_some() && *r.unwrap() == s@[i as int], i >= s@.len() ==> r.is_none(),
{ unimplemented!() }
/// `&s[a..]` (panics, i.e. has the precondition, a <= len)
#[verifier::external_body]
pub fn slice_from(s: &[u8], a: usize) -> (r: &[u8])
    requires a <= s@.len(),
    ensures r@ == s@.skip(a as int),
{ unimplemented!() }
/// `a.eq_ignore_ascii_case(b)` on byte slices
#[verifier::external_body]
pub fn eq_ignore_ascii_case(a: &[u8], b: &[u8]) -> (r: bool)
    ensures r == lower_eq(a@, b@),
{ unimplemented!() }
/// `s.iter().take_while(|b| b.is_ascii_whitespace()).count()`
#[verifier::external_body]
pub fn count_while_ws(s: &[u8]) -> (r: usize)
    ensures r <= s@.len(), forall|i: int| 0 <= i < r ==> is_ws(#[trigger] s@[i]), r < s@.len() ==> !is_ws(s@[r as int]),
{ unimplemented!() }
/// `s.iter().position(|b| b == q)`
#[verifier::external_body]
pub fn position_eq(s: &[u8], q: &u8) -> (r: Option<usize>)
    ensures match r {
        Some(k) => k < s@.len() && s@[k as int] == *q && forall|i: int| 0 <= i < k ==> #[trigger] s@[i] != *q,
        None => forall|i: int| 0 <= i < s@.len() ==> #[trigger] s@[i] != *q,
    }
{ unimplemented!() }
/// `s.iter().position(|b| b.is_ascii_whitespace() || *b == b';')`
#[verifier::external_body]
pub fn position_ws_or_semi(s: &[u8]) -> (r: Option<usize>)
    ensures match r {
        Some(k) => k < s@.len() && (is_ws(s@[k as int]) || s@[k as int] == 59) && forall|i: int| 0 <= i < k ==> !(is_ws(#[trigger] s@[i]) || s@[i] == 59),
        None => forall|i: int| 0 <= i < s@.len() ==> !(is_ws(#[trigger] s@[i]) || s@[i] == 59),
    }
{ unimplemented!() }
/// ASSUMED: contents of the byte-string literal
#[verifier::external_body]
pub proof fn axiom_charset_lit() ensures b"charset"@ == kw() {}

// ---- WHATWG "algorithm for extracting a character encoding from a meta element", transcribed ----
pub open spec fn kw() -> Seq<u8> { seq![99u8, 104, 97, 114, 115, 101, 116] }   // "charset"
/// an ASCII case-insensitive match for the word "charset" starts at i
pub open spec fn lower_eq(x: Seq<u8>, y: Seq<u8>) -> bool {
    x.len() == y.len() && forall|i: int| 0 <= i < x.len() ==> lower8(#[trigger] x[i]) == lower8(y[i])
}
pub open spec fn kw_at(b: Seq<u8>, i: int) -> bool {
    0 <= i && i + 7 <= b.len() && lower_eq(b.subrange(i, i + 7), kw())
}
/// Step 2: the first match at or after pos
pub open spec fn find_kw(b: Seq<u8>, pos: int) -> Option<int>
    decreases b.len() - pos
{
    if pos < 0 || pos + 7 > b.len() { None } else if kw_at(b, pos) { Some(pos) } else { find_kw(b, pos + 1) }
}
/// Steps 3 / 5: skip ASCII whitespace
pub open spec fn skip_ws(b: Seq<u8>, pos: int) -> int
    decreases b.len() - pos
{
    if 0 <= pos < b.len() && is_ws(b[pos]) { skip_ws(b, pos + 1) } else { pos }
}
/// first index >= pos holding q, or None
pub open spec fn find_byte(b: Seq<u8>, pos: int, q: u8) -> Option<int>
    decreases b.len() - pos
{
    if pos < 0 || pos >= b.len() { None } else if b[pos] == q { Some(pos) } else { find_byte(b, pos + 1, q) }
}
/// first index >= pos holding ASCII whitespace or ';', or the end of the string
pub open spec fn find_end(b: Seq<u8>, pos: int) -> int
    decreases b.len() - pos
{
    if pos < 0 || pos >= b.len() { b.len() as int } else if is_ws(b[pos]) || b[pos] == 59 { pos } else { find_end(b, pos + 1) }
}
/// Step 6 at position q (just after the equals sign and the white space following it): (start, end) of the label
pub open spec fn step6(b: Seq<u8>, q: int) -> Option<(int, int)> {
    if q >= b.len() { None }
    else if b[q] == 34 || b[q] == 39 {
        match find_byte(b, q + 1, b[q]) { Some(k) => Some((q + 1, k)), None => None }
    } else { Some((q, find_end(b, q))) }
}
/// the whole algorithm from position pos (Step 1: pos = 0)
pub open spec fn extract(b: Seq<u8>, pos: int) -> Option<(int, int)>
    decreases b.len() - pos
{
    match find_kw(b, pos) {
        None => None,
        Some(i) => {
            let p = skip_ws(b, i + 7);
            if p <= pos { None }    // never: p >= i + 7 > pos (keeps the recursion well-founded)
            else if p >= b.len() { None }
            else if b[p] != 61 { extract(b, p) }       // Step 4: not '=': back to Step 2 from here
            else { step6(b, skip_ws(b, p + 1)) }
        },
    }
}
pub proof fn lemma_find_kw(b: Seq<u8>, pos: int)
    requires 0 <= pos,
    ensures match find_kw(b, pos) {
        Some(i) => pos <= i && kw_at(b, i) && forall|j: int| pos <= j < i ==> !kw_at(b, j),
        None => forall|j: int| pos <= j ==> !kw_at(b, j),
    },
    decreases b.len() - pos,
{
    if pos + 7 <= b.len() && !kw_at(b, pos) { lemma_find_kw(b, pos + 1); }
}
pub proof fn lemma_skip_ws(b: Seq<u8>, pos: int)
    requires 0 <= pos <= b.len(),
    ensures pos <= skip_ws(b, pos) <= b.len(), forall|j: int| pos <= j < skip_ws(b, pos) ==> is_ws(#[trigger] b[j]),
        skip_ws(b, pos) < b.len() ==> !is_ws(b[skip_ws(b, pos)]),
    decreases b.len() - pos,
{
    if pos < b.len() && is_ws(b[pos]) { lemma_skip_ws(b, pos + 1); }
}
/// skip_ws is determined by: all of [pos, r) is white space and r is the end or not white space
pub proof fn lemma_skip_ws_is(b: Seq<u8>, pos: int, r: int)
    requires 0 <= pos <= r <= b.len(), forall|j: int| pos <= j < r ==> is_ws(#[trigger] b[j]), r < b.len() ==> !is_ws(b[r]),
    ensures skip_ws(b, pos) == r,
    decreases r - pos,
{
    if pos < r { assert(is_ws(b[pos])); lemma_skip_ws_is(b, pos + 1, r); }
}
pub proof fn lemma_find_byte_is(b: Seq<u8>, pos: int, q: u8, k: int)
    requires 0 <= pos <= k < b.len(), b[k] == q, forall|j: int| pos <= j < k ==> #[trigger] b[j] != q,
    ensures find_byte(b, pos, q) == Some(k),
    decreases k - pos,
{
    if pos < k { assert(b[pos] != q); lemma_find_byte_is(b, pos + 1, q, k); }
}
pub proof fn lemma_find_byte_none(b: Seq<u8>, pos: int, q: u8)
    requires 0 <= pos, forall|j: int| pos <= j < b.len() ==> #[trigger] b[j] != q,
    ensures find_byte(b, pos, q).is_none(),
    decreases b.len() - pos,
{
    if pos < b.len() { lemma_find_byte_none(b, pos + 1, q); }
}
pub proof fn lemma_find_end_is(b: Seq<u8>, pos: int, k: int)
    requires 0 <= pos <= k <= b.len(), k < b.len() ==> is_ws(b[k]) || b[k] == 59, forall|j: int| pos <= j < k ==> !(is_ws(#[trigger] b[j]) || b[j] == 59),
    ensures find_end(b, pos) == k,
    decreases k - pos,
{
    if pos < k { assert(!(is_ws(b[pos]) || b[pos] == 59)); lemma_find_end_is(b, pos + 1, k); }
}
/// ASSUMED (the tendril holds valid UTF-8): a continuation byte never follows an ASCII byte
#[verifier::external_body]
pub proof fn axiom_utf8_after_ascii(t: &StrTendril)
    ensures forall|i: int| 0 <= i < t@.len() - 1 && #[trigger] t@[i] < 0x80 ==> is_start(t@[i + 1]),
{}
