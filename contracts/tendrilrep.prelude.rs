// ======================================================================================
// U-tendril: model of the REPRESENTATION LAYER of tendril::Tendril (hand-written; every contract in this file is
// ASSUMED - it describes what the raw-pointer code of tendril.rs / buf32.rs is trusted to do).  The functions that are
// VERIFIED against it are the ones built on top: length / bounds / validation logic, the choice between the inline,
// owned and shared forms, offset arithmetic, and the zero-copy merge of push_tendril.
//
//   tag            the value of `ptr`: 0xF = empty, 1..=8 = inline length, otherwise the header address, bit 0 = shared
//   hlen, haux     Heap { len, aux }: aux is the capacity when owned, the offset into the buffer when shared
//   inl            the 8 bytes of the inline buffer (ghost; they overlap Heap { len, aux }, so they are arbitrary for a heap
//                  tendril); an inline tendril of length n stands for the first n of them
//   data           the initialised bytes of the heap buffer the tendril points to (ghost).  A buffer whose shared bit is
//                  set is never written again (every mutation goes through make_owned, which copies), so all tendrils
//                  that view one shared buffer see the same `data` (axiom_shared_buffer).
// ======================================================================================
pub const MAX_INLINE_LEN: usize = 8;
pub mod buf32 { pub const MAX_LEN: usize = u32::MAX as usize; }
pub const MAX_INLINE_TAG: usize = 0xF;
pub const EMPTY_TAG: usize = 0xF;
pub const OFLOW: &'static str = "tendril: overflow in buffer arithmetic";
pub struct Tendril {
    pub tag: usize,
    pub hlen: u32,
    pub haux: u32,
    pub inl: Ghost<Seq<u8>>,
    pub data: Ghost<Seq<u8>>,
}
/// model of Buf32<Header<A>> as returned by assume_buf
pub struct Buf32 { pub ptr: usize, pub len: u32, pub cap: u32, pub data: Ghost<Seq<u8>> }
impl Buf32 {
    /// the address of the first data byte: a fixed offset behind the header
    #[verifier::external_body]
    pub fn data_ptr(&self) -> (r: usize) ensures r as int == self.ptr as int + 16 { unimplemented!() }
}
impl Tendril {
    pub open spec fn is_heap(&self) -> bool { self.tag > MAX_INLINE_TAG }
    pub open spec fn shared_bit(&self) -> bool { self.tag % 2 == 1 }
    /// the bytes the tendril stands for
    pub open spec fn view(&self) -> Seq<u8> {
        if self.tag == EMPTY_TAG { Seq::<u8>::empty() }
        else if self.tag <= MAX_INLINE_LEN { self.inl@.take(self.tag as int) }
        else if self.shared_bit() { self.data@.subrange(self.haux as int, self.haux as int + self.hlen as int) }
        else { self.data@.subrange(0, self.hlen as int) }
    }
    /// representation invariant
    pub open spec fn wf(&self) -> bool {
        &&& self.tag != 0
        &&& self.inl@.len() == MAX_INLINE_LEN
        &&& (self.tag <= MAX_INLINE_TAG ==> self.tag == EMPTY_TAG || 1 <= self.tag <= MAX_INLINE_LEN)
        &&& (self.is_heap() ==> self.data@.len() <= u32::MAX
              && (if self.shared_bit() { self.haux as int + self.hlen as int <= self.data@.len() } else { self.hlen as int <= self.data@.len() }))
    }
    // ---- raw accessors (ASSUMED) ----
    /// `self.ptr.get().get()`
    #[verifier::external_body]
    pub fn tag(&self) -> (r: usize) ensures r == self.tag { unimplemented!() }
    /// `self.ptr.set(NonZeroUsize::new_unchecked(t))`
    #[verifier::external_body]
    pub fn set_tag(&mut self, t: usize) requires t != 0 ensures *final(self) == (Tendril { tag: t, ..*old(self) }) { unimplemented!() }
    #[verifier::external_body]
    pub unsafe fn raw_len(&self) -> (r: u32) requires self.is_heap() ensures r == self.hlen { unimplemented!() }
    #[verifier::external_body]
    pub unsafe fn aux(&self) -> (r: u32) requires self.is_heap() ensures r == self.haux { unimplemented!() }
    #[verifier::external_body]
    pub unsafe fn set_len(&mut self, len: u32)
        requires old(self).is_heap(),
        ensures *final(self) == (Tendril { hlen: len, ..*old(self) }),
    { unimplemented!() }
    #[verifier::external_body]
    pub unsafe fn set_aux(&mut self, aux: u32)
        requires old(self).is_heap(),
        ensures *final(self) == (Tendril { haux: aux, ..*old(self) }),
    { unimplemented!() }
    #[verifier::external_body]
    pub unsafe fn assume_buf(&self) -> (r: (Buf32, bool, u32))
        requires self.is_heap(),
        ensures r.1 == self.shared_bit(), r.2 == (if self.shared_bit() { self.haux } else { 0u32 }),
                r.0.ptr == (if self.shared_bit() { (self.tag - 1) as usize } else { self.tag }),
                r.0.len as int == r.2 as int + self.hlen as int, r.0.data@ == self.data@,
    { unimplemented!() }
    /// sets the shared bit of an owned buffer (aux becomes the offset 0); the bytes seen do not change
    #[verifier::external_body]
    pub unsafe fn make_buf_shared(&mut self)
        requires old(self).is_heap(), old(self).wf(),
        ensures final(self).wf(), final(self).is_heap(), final(self).shared_bit(), final(self).view() == old(self).view(),
                final(self).hlen == old(self).hlen, final(self).data@ == old(self).data@,
                old(self).shared_bit() ==> *final(self) == *old(self),
                !old(self).shared_bit() ==> final(self).haux == 0 && final(self).tag == old(self).tag + 1,
    { unimplemented!() }
    /// one more tendril views the buffer (reference count; not modelled)
    #[verifier::external_body]
    pub unsafe fn incref(&mut self) ensures *final(self) == *old(self) { unimplemented!() }
    #[verifier::external_body]
    pub unsafe fn inline(x: &[u8]) -> (r: Tendril)
        requires x@.len() <= MAX_INLINE_LEN,
        ensures r.wf(), !r.is_heap(), r.view() == x@,
    { unimplemented!() }
    #[verifier::external_body]
    pub unsafe fn shared(buf: Buf32, off: u32, len: u32) -> (r: Tendril)
        requires buf.ptr % 2 == 0, buf.ptr > MAX_INLINE_TAG,
        ensures r.tag == buf.ptr + 1, r.haux == off, r.hlen == len, r.data@ == buf.data@, r.inl@.len() == MAX_INLINE_LEN,
    { unimplemented!() }
    /// un-shares / grows: afterwards the tendril owns a buffer of at least `cap` bytes that starts with the same content
    #[verifier::external_body]
    pub unsafe fn make_owned_with_capacity(&mut self, cap: u32)
        requires old(self).wf(),
        ensures final(self).wf(), final(self).is_heap(), !final(self).shared_bit(), final(self).view() == old(self).view(),
                final(self).data@.len() >= cap, final(self).hlen as int == old(self).view().len(),
    { unimplemented!() }
    #[verifier::external_body]
    pub fn new() -> (r: Tendril) ensures r.wf(), r.tag == EMPTY_TAG { unimplemented!() }
    /// a fresh heap buffer holding a copy of the bytes (ASSUMED: representation layer)
    #[verifier::external_body]
    pub unsafe fn owned_copy(x: &[u8]) -> (r: Tendril)
        requires x@.len() <= u32::MAX,
        ensures r.wf(), r.is_heap(), !r.shared_bit(), r.view() == x@,
    { unimplemented!() }
    #[verifier::external_body]
    pub fn as_byte_slice(&self) -> (r: &[u8]) requires self.wf() ensures r@ == self.view() { unimplemented!() }
    /// appends (copy on write; grows / un-shares as needed).  Stated for formats without concatenation fix-ups
    /// (Bytes, UTF8, ASCII, Latin1).
    #[verifier::external_body]
    pub unsafe fn push_bytes_without_validating(&mut self, buf: &[u8])
        requires old(self).wf(), old(self).view().len() + buf@.len() <= u32::MAX,
        ensures final(self).wf(), final(self).view() == old(self).view() + buf@,
    { unimplemented!() }
}
/// ASSUMED heap invariant: a shared buffer is immutable, so two tendrils that view the same one see the same bytes
#[verifier::external_body]
pub proof fn axiom_shared_buffer(a: &Tendril, b: &Tendril)
    requires a.is_heap(), b.is_heap(), a.shared_bit(), b.shared_bit(), a.tag == b.tag,
    ensures a.data@ == b.data@,
{}
/// ASSUMED: header addresses are even and above the inline tags
#[verifier::external_body]
pub proof fn axiom_header_address(t: &Tendril)
    requires t.is_heap(),
    ensures (if t.shared_bit() { t.tag - 1 } else { t.tag as int }) % 2 == 0, t.tag > MAX_INLINE_TAG + 1,
{}
/// util::unsafe_slice: its bounds are an OBLIGATION of the caller
#[verifier::external_body]
pub unsafe fn unsafe_slice(buf: &[u8], start: usize, new_len: usize) -> (r: &[u8])
    requires start + new_len <= buf@.len(),
    ensures r@ == buf@.subrange(start as int, start + new_len),
{ unimplemented!() }
// ---- the format F: what is valid is an uninterpreted predicate; the checks must be called on the right slices ----
pub uninterp spec fn fmt_valid(b: Seq<u8>) -> bool;
pub uninterp spec fn fmt_valid_prefix(b: Seq<u8>) -> bool;
pub uninterp spec fn fmt_valid_suffix(b: Seq<u8>) -> bool;
pub uninterp spec fn fmt_valid_subseq(b: Seq<u8>) -> bool;
#[verifier::external_body]
pub fn f_validate(b: &[u8]) -> (r: bool) ensures r == fmt_valid(b@) { unimplemented!() }
#[verifier::external_body]
pub fn f_validate_prefix(b: &[u8]) -> (r: bool) ensures r == fmt_valid_prefix(b@) { unimplemented!() }
#[verifier::external_body]
pub fn f_validate_suffix(b: &[u8]) -> (r: bool) ensures r == fmt_valid_suffix(b@) { unimplemented!() }
#[verifier::external_body]
pub fn f_validate_subseq(b: &[u8]) -> (r: bool) ensures r == fmt_valid_subseq(b@) { unimplemented!() }
// ---- the format's character iterator (F::char_indices), for pop_front_char ----
/// the characters of the content with the byte offset each starts at (ASSUMED: what `F::char_indices` yields; for UTF-8 the
/// code points of the valid string; offsets start at 0, increase strictly and stay below the length; no characters iff no bytes)
pub uninterp spec fn fmt_chars(b: Seq<u8>) -> Seq<(usize, char)>;
#[verifier::external_body]
pub proof fn axiom_fmt_chars(b: Seq<u8>)
    ensures
        (fmt_chars(b).len() == 0) == (b.len() == 0),
        fmt_chars(b).len() > 0 ==> fmt_chars(b)[0].0 == 0,
        forall|i: int, j: int| 0 <= i < j < fmt_chars(b).len() ==> (#[trigger] fmt_chars(b)[i]).0 < (#[trigger] fmt_chars(b)[j]).0,
        forall|i: int| 0 <= i < fmt_chars(b).len() ==> (#[trigger] fmt_chars(b)[i]).0 < b.len(),
{}
pub struct CharIndices { pub items: Ghost<Seq<(usize, char)>>, pub pos: Ghost<int> }
impl CharIndices {
    #[verifier::external_body]
    pub fn next(&mut self) -> (r: Option<(usize, char)>)
        requires 0 <= old(self).pos@ <= old(self).items@.len(),
        ensures final(self).items == old(self).items,
                old(self).pos@ < old(self).items@.len() ==> r == Some(old(self).items@[old(self).pos@]) && final(self).pos@ == old(self).pos@ + 1,
                old(self).pos@ >= old(self).items@.len() ==> r is None && final(self).pos == old(self).pos,
    { unimplemented!() }
}
#[verifier::external_body]
pub fn f_char_indices(b: &[u8]) -> (r: CharIndices) ensures r.items@ == fmt_chars(b@), r.pos@ == 0 { unimplemented!() }
