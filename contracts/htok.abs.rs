// ======================================================================================
// abstraction function, well-formedness and simulation measure for the real Tokenizer
// (hand-written specification; mentions only fields of the extracted struct)
// ======================================================================================
pub open spec fn abs_attrs(v: Seq<Attribute>) -> Seq<AbsAttr> {
    Seq::new(v.len(), |i: int| AbsAttr { name: v[i].name.local@, value: v[i].value@ })
}
pub open spec fn abs_opt(o: Option<StrTendril>) -> Option<Seq<char>> {
    match o { Some(t) => Some(t@), None => None }
}
pub open spec fn abs_doctype(d: Doctype) -> AbsDoctype {
    AbsDoctype { name: abs_opt(d.name), public_id: abs_opt(d.public_id), system_id: abs_opt(d.system_id), force_quirks: d.force_quirks }
}
impl CharRefTokenizer {
    /// abstraction: the saturated reference code stands for (num, num_too_big); name_match / name_len are
    /// bookkeeping described by wf(), not part of the abstract state
    pub closed spec fn abs(&self) -> AbsCr {
        AbsCr { state: self.state,
                val: if self.num_too_big || self.num > 0x10FFFF { 0x110000int } else { self.num as int },
                seen_digit: self.seen_digit, hex_marker: self.hex_marker,
                name: match self.name_buf_opt { Some(t) => t@, None => Seq::<char>::empty() } }
    }
    pub closed spec fn in_attr(&self) -> bool { self.is_consumed_in_attribute }
    /// characters held that may still be pushed back (termination measure)
    pub closed spec fn kret(&self) -> int {
        match self.state {
            CrState::Begin => 0,
            CrState::Octothorpe => 1,
            CrState::Numeric(_) | CrState::NumericSemicolon => 1 + (if self.hex_marker is Some { 1int } else { 0int }),
            CrState::Named | CrState::BogusName => match self.name_buf_opt { Some(t) => t@.len() as int, None => 0 },
        }
    }
    /// steps that do not consume move down this order
    pub closed spec fn crrank(&self) -> int {
        match self.state { CrState::Begin => 3, CrState::Octothorpe => 2, CrState::Numeric(_) => 1, _ => 0 }
    }
    /// representation invariant of the character-reference tokenizer
    #[verifier::opaque]
    pub closed spec fn wf(&self) -> bool {
        let name = self.abs().name;
        // the accumulator cannot have wrapped while the overflow latch is still clear
        &&& (!self.num_too_big ==> self.num <= 0x10FFFF + 15)
        &&& (self.state is Named || self.state is BogusName ==> self.name_buf_opt is Some)
        &&& (self.state is Begin ==> self.name_len == 0 && self.name_match is None)
        &&& (self.state is Named ==> ent_prefix(name)
                && self.name_len as int == longest_match(name, name.len() as int)
                && (self.name_len == 0 ==> self.name_match is None)
                && (self.name_len > 0 ==> self.name_match == ent_value(name.take(self.name_len as int))))
        &&& (self.state is BogusName ==> forall|i: int| 0 <= i < name.len() ==> spec_alnum(#[trigger] name[i]) || name[i] == ';')
        &&& (self.state matches CrState::Numeric(b) ==> (b == 10 && self.hex_marker is None)
                || (b == 16 && self.hex_marker is Some && (self.hex_marker.unwrap() == 'x' || self.hex_marker.unwrap() == 'X')))
    }
}
pub open spec fn abs_cr_opt(o: Option<CharRefTokenizer>) -> Option<AbsCr> {
    match o { Some(t) => Some(t.abs()), None => None }
}
/// states in which the temporary buffer is known to be empty
pub open spec fn temp_free(s: State) -> bool {
    !(s is RawData || s is RawLessThanSign || s is RawEndTagOpen || s is RawEndTagName
      || s is ScriptDataEscapeStart || s is ScriptDataEscapeStartDash || s is ScriptDataEscapedDash
      || s is ScriptDataEscapedDashDash || s is ScriptDataDoubleEscapeEnd || s is MarkupDeclarationOpen
      || s is AfterDoctypeName || s is CdataSection || s is CdataSectionBracket || s is CdataSectionEnd
      || s is Plaintext)
}
/// states in which no comment token is under construction
pub open spec fn comment_free(s: State) -> bool {
    !(s is BogusComment || s is CommentStart || s is CommentStartDash || s is Comment || s is CommentLessThanSign
      || s is CommentLessThanSignBang || s is CommentLessThanSignBangDash || s is CommentLessThanSignBangDashDash
      || s is CommentEndDash || s is CommentEnd || s is CommentEndBang)
}
/// height in the graph of "reconsume in state X" edges: a state that is entered by re-consuming and never re-consumes
/// itself is at 0
pub open spec fn rrank(s: State) -> int {
    if s is CommentLessThanSignBangDashDash { 2 }
    else if s is Data || s is RawData || s is BogusComment || s is AttributeValue || s is BeforeAttributeName || s is Comment
        || s is CommentEndDash || s is BeforeDoctypeName || s is BogusDoctype || s is CdataSection || s is Plaintext { 0 }
    else { 1 }
}
pub open spec fn cr_host_state(s: State) -> bool {
    s == State::Data || s == State::RawData(RawKind::Rcdata) || s is AttributeValue
}
/// what the EOF steps of end() rely on
pub open spec fn wf_eof(a: AbsTok) -> bool {
    &&& a.cr is None
    &&& !(a.state is MarkupDeclarationOpen)
    &&& (a.state is AfterDoctypeName ==> a.temp.len() == 0)
    &&& forall|i: int| 0 <= i < a.temp.len() ==> #[trigger] a.temp[i] != '\0'
}
/// representation invariant, stated on the abstract state
pub open spec fn wf_abs(a: AbsTok) -> bool {
    &&& temp_free(a.state) ==> a.temp.len() == 0
    &&& forall|i: int| 0 <= i < a.temp.len() ==> #[trigger] a.temp[i] != '\0'
    &&& a.cr.is_some() ==> cr_host_state(a.state) && !a.recons
    &&& (comment_free(a.state) ==> a.comment.len() == 0)
    &&& (a.state is MarkupDeclarationOpen ==> mdo_viable(a, a.temp) && !a.recons)
    &&& (a.state is AfterDoctypeName ==> adn_viable(a.temp) && !a.recons)
}
impl Tokenizer {
    pub closed spec fn abs(&self) -> AbsTok {
        AbsTok {
            state: self.state.v,
            recons: self.reconsume.v,
            temp: self.temp_buf.v@,
            tag_kind: self.current_tag_kind.v,
            tag_name: self.current_tag_name.v@,
            self_closing: self.current_tag_self_closing.v,
            dup: self.current_tag_had_duplicate_attributes.v,
            attrs: abs_attrs(self.current_tag_attrs.v@),
            attr_name: self.current_attr_name.v@,
            attr_value: self.current_attr_value.v@,
            comment: self.current_comment.v@,
            doctype: abs_doctype(self.current_doctype.v),
            last_start: match self.last_start_tag_name.v { Some(n) => Some(n@), None => None },
            cr: abs_cr_opt(self.char_ref_tokenizer.v),
            line: self.current_line.v as int,
            out: self.sink.out@,
        }
    }
    /// the normalised, not yet consumed input (chunk boundaries do not appear in it)
    pub closed spec fn npend(&self, q: &BufferQueue) -> Seq<char> { norm(self.ignore_lf.v, q.view()) }
    /// configuration / housekeeping fields that no step may change
    pub closed spec fn same_config(&self, o: &Tokenizer) -> bool {
        self.opts == o.opts && self.at_eof.v == o.at_eof.v && self.discard_bom.v == o.discard_bom.v
    }
    pub closed spec fn wf(&self) -> bool {
        &&& wf_abs(self.abs())
        // a pending CR was the last character consumed: the look-ahead buffer is empty and a re-consumed
        // character is that line break
        &&& (self.ignore_lf.v && (self.state.v is MarkupDeclarationOpen || self.state.v is AfterDoctypeName) ==> self.temp_buf.v@.len() == 0)
        &&& (self.ignore_lf.v ==> self.current_char.v == '\n')
        // while a character reference is being consumed: no CR is pending (the '&' was the last character read),
        // its tokenizer is well-formed and knows whether the return state is an attribute value state
        &&& self.cr_ok()
    }
    pub closed spec fn cr_ok(&self) -> bool {
        match self.char_ref_tokenizer.v {
            Some(t) => t.wf() && !self.ignore_lf.v && t.in_attr() == (self.state.v is AttributeValue),
            None => true,
        }
    }
    /// the BOM flag is still set only while nothing has been consumed
    pub closed spec fn fresh(&self) -> bool { self.discard_bom.v ==> !self.ignore_lf.v && !self.reconsume.v }
    pub closed spec fn bom(&self) -> bool { self.discard_bom.v }
    /// everything of same_config except the BOM flag
    pub closed spec fn same_config_but_bom(&self, o: &Tokenizer) -> bool { self.opts == o.opts && self.at_eof.v == o.at_eof.v }
    /// the pending input as feed() sees it: a U+FEFF that is the very first character of the stream is not input
    pub closed spec fn sim_feed(&self, q: &BufferQueue) -> AbsTok {
        let p = self.npend(q);
        if self.discard_bom.v && p.len() > 0 && p[0] == '\u{feff}' { run(self.abs(), p.drop_first()) } else { self.sim(q) }
    }
    /// The simulation measure: the final abstract state the WHATWG machine reaches on everything
    /// that is still pending.  Every operation of the tokenizer must leave it unchanged.
    pub closed spec fn sim(&self, q: &BufferQueue) -> AbsTok {
        if self.reconsume.v { run(spec_step(self.abs(), self.current_char.v), self.npend(q)) }
        else { run(self.abs(), self.npend(q)) }
    }
    /// termination measure of the loops inside `step`: characters still to be delivered
    pub closed spec fn fuel(&self, q: &BufferQueue) -> int {
        (if self.reconsume.v { 1int } else { 0int }) + q.view().len()
            + (if self.state.v is MarkupDeclarationOpen || self.state.v is AfterDoctypeName { self.temp_buf.v@.len() as int } else { 0int })
    }
    // ---- termination measure of the run() loop: lexicographic (phi, fuel, third) ----
    /// twice the characters still to be delivered, plus what a character reference in progress may push back
    pub closed spec fn phi(&self, q: &BufferQueue) -> int {
        2 * self.fuel(q) + (match self.char_ref_tokenizer.v { Some(t) => 2 * t.kret() + 1, None => 0 })
    }
    /// steps that do not consume: a re-consumed character moves down the re-consume order; a failed look-ahead leaves
    /// the markup-declaration-open state; the character-reference tokenizer moves down its own order
    pub closed spec fn third(&self) -> int {
        match self.char_ref_tokenizer.v {
            Some(t) => t.crrank(),
            None => if self.reconsume.v { rrank(self.state.v) } else if self.state.v is MarkupDeclarationOpen { 4 } else { 3 },
        }
    }
    /// strictly smaller measure
    pub closed spec fn mlt(&self, q: &BufferQueue, o: &Tokenizer, oq: &BufferQueue) -> bool {
        self.phi(q) < o.phi(oq) || (self.phi(q) == o.phi(oq) && (self.fuel(q) < o.fuel(oq) || (self.fuel(q) == o.fuel(oq) && self.third() < o.third())))
    }
    pub closed spec fn is_at_eof(&self) -> bool { self.at_eof.v }
    /// fields outside the abstraction that steps may change
    pub closed spec fn aux(&self) -> Aux {
        Aux { cur: self.current_char.v, ig: self.ignore_lf.v }
    }
    /// the simulation measure including, once end() has been called, what end of input still produces
    pub closed spec fn simx(&self, q: &BufferQueue) -> AbsTok {
        if self.at_eof.v { eof_close(self.sim(q)) } else { self.sim(q) }
    }
    /// line-counter head-room (machine arithmetic): the line counter cannot overflow on the pending input
    pub closed spec fn line_ok(&self, q: &BufferQueue) -> bool {
        self.current_line.v as int + q.view().len() < u64::MAX as int
    }
}

pub struct Aux { pub cur: char, pub ig: bool }

/// How one call of step() makes progress, in terms that are cheap for the proofs of the state arms:
///  * a character reference is in progress: its own measure (unit u_hcr);
///  * something was consumed (possibly starting a character reference with the '&');
///  * the consumed character is re-consumed in a state further down the re-consume order;
///  * a failed look-ahead leaves the markup-declaration-open state.
pub open spec fn step_progress(t1: &Tokenizer, q1: &BufferQueue, t0: &Tokenizer, q0: &BufferQueue) -> bool {
    if t0.abs().cr is Some { t1.mlt(q1, t0, q0) }
    else {
        ||| (t1.fuel(q1) < t0.fuel(q0) && (t1.abs().cr is None || t1.abs().cr == Some(cr_new())))
        ||| (t1.fuel(q1) == t0.fuel(q0) && t1.abs().cr is None && t1.abs().recons
             && (t0.abs().recons ==> rrank(t1.abs().state) < rrank(t0.abs().state)))
        ||| (t1.fuel(q1) == t0.fuel(q0) && t1.abs().cr is None && !t1.abs().recons && !t0.abs().recons
             && t0.abs().state is MarkupDeclarationOpen && !(t1.abs().state is MarkupDeclarationOpen))
    }
}
/// progress makes the lexicographic termination measure (phi, fuel, third) of the driving loop strictly smaller
pub proof fn lemma_progress_decreases(t0: &Tokenizer, q0: &BufferQueue)
    ensures forall|t1: &Tokenizer, q1: &BufferQueue| #[trigger] step_progress(t1, q1, t0, q0) ==>
        t1.phi(q1) < t0.phi(q0) || (t1.phi(q1) == t0.phi(q0) && (t1.fuel(q1) < t0.fuel(q0) || (t1.fuel(q1) == t0.fuel(q0) && t1.third() < t0.third()))),
{
}
// ---- token sink model: a ghost log of the flattened tokens; replies are an arbitrary function of it ----
pub struct Sink { pub out: Ghost<Seq<Out>> }
/// the sink's ghost log after receiving token `t` on line `line` (character tokens flattened,
/// parse errors not logged)
pub open spec fn log_tok(out: Seq<Out>, t: Token, line: int) -> Seq<Out> {
    match t {
        Token::DoctypeToken(d) => out.push(Out { tok: OutTok::Doctype(abs_doctype(d)), line }),
        Token::TagToken(t) => out.push(Out { tok: OutTok::Tag { kind: t.kind, name: t.name@, self_closing: t.self_closing,
                                        attrs: abs_attrs(t.attrs@), dup: t.had_duplicate_attributes }, line }),
        Token::CommentToken(c) => out.push(Out { tok: OutTok::Comment(c@), line }),
        Token::CharacterTokens(b) => out + chars_out(b@),
        Token::NullCharacterToken => out.push(Out { tok: OutTok::Null, line }),
        Token::EOFToken => out.push(Out { tok: OutTok::Eof, line }),
        Token::ParseError(_) => out,
    }
}
pub open spec fn reply_matches(r: TokenSinkResult<Handle>, s: SinkReply) -> bool {
    match r {
        TokenSinkResult::Continue => s == SinkReply::Continue,
        TokenSinkResult::Script(_) => s == SinkReply::Script,
        TokenSinkResult::Plaintext => s == SinkReply::Plaintext,
        TokenSinkResult::RawData(k) => s == SinkReply::RawData(k),
        TokenSinkResult::EncodingIndicator(_) => s == SinkReply::EncodingIndicator,
    }
}
impl Sink {
    /// ASSUMED sink behaviour ("contract-abiding sink"): the token is appended to the log; only a tag
    /// token may be answered with anything but Continue, and the answer is a function of the log.
    #[verifier::external_body]
    pub fn process_token(&mut self, token: Token, line_number: u64) -> (r: TokenSinkResult<Handle>)
        ensures
            final(self).out@ == log_tok(old(self).out@, token, line_number as int),
            token is TagToken ==> reply_matches(r, sink_reply(final(self).out@)),
            !(token is TagToken) ==> r is Continue,
    { unimplemented!() }
    #[verifier::external_body]
    pub fn end(&mut self) ensures final(self).out@ == old(self).out@ { unimplemented!() }
    #[verifier::external_body]
    pub fn adjusted_current_node_present_but_not_in_html_namespace(&self) -> (r: bool)
        ensures r == sink_cdata_ok(self.out@)
    { unimplemented!() }
}

/// ASSUMED (machine arithmetic): the u64 line counter does not reach 2^64 - 1.
#[verifier::external_body]
pub proof fn axiom_line_counter_bounded(t: &Tokenizer)
    ensures t.abs().line < u64::MAX as int,
{}

// ---- lemmas about the spec machine (proved; no code involved) ----
pub proof fn lemma_run_cons(a: AbsTok, c: char, s: Seq<char>)
    ensures run(a, seq![c] + s) == run(spec_step(a, c), s),
{
    reveal_with_fuel(run, 2);
    assert((seq![c] + s).drop_first() =~= s);
}
pub proof fn lemma_run_concat(a: AbsTok, x: Seq<char>, y: Seq<char>)
    ensures run(a, x + y) == run(run(a, x), y),
    decreases x.len(),
{
    reveal_with_fuel(run, 2);
    if x.len() == 0 {
        assert(x + y =~= y);
    } else {
        assert((x + y).drop_first() =~= x.drop_first() + y);
        lemma_run_concat(spec_step(a, x[0]), x.drop_first(), y);
    }
}
pub open spec fn no_crlf(s: Seq<char>) -> bool {
    forall|i: int| 0 <= i < s.len() ==> #[trigger] s[i] != '\r' && s[i] != '\n'
}
pub proof fn lemma_norm_plain(s: Seq<char>, rest: Seq<char>)
    requires no_crlf(s),
    ensures norm(false, s + rest) == s + norm(false, rest),
    decreases s.len(),
{
    reveal_with_fuel(norm, 2);
    if s.len() == 0 {
        assert(s + rest =~= rest);
        assert(s + norm(false, rest) =~= norm(false, rest));
    } else {
        assert((s + rest).drop_first() =~= s.drop_first() + rest);
        assert(s[0] != '\r' && s[0] != '\n');
        lemma_norm_plain(s.drop_first(), rest);
        assert(seq![s[0]] + (s.drop_first() + norm(false, rest)) =~= s + norm(false, rest));
    }
}

// ---- small-character-set facts (bit-vector proofs) ----
pub open spec fn scs3(a: u64, b: u64, c: u64) -> u64 { (1u64 << a) | (1u64 << b) | (1u64 << c) }
pub open spec fn scs4(a: u64, b: u64, c: u64, d: u64) -> u64 { (1u64 << a) | (1u64 << b) | (1u64 << c) | (1u64 << d) }
pub open spec fn scs5(a: u64, b: u64, c: u64, d: u64, e: u64) -> u64 { (1u64 << a) | (1u64 << b) | (1u64 << c) | (1u64 << d) | (1u64 << e) }
pub open spec fn scs8(a: u64, b: u64, c: u64, d: u64, e: u64, f: u64, g: u64, h: u64) -> u64 {
    (1u64 << a) | (1u64 << b) | (1u64 << c) | (1u64 << d) | (1u64 << e) | (1u64 << f) | (1u64 << g) | (1u64 << h)
}
pub proof fn lemma_scs3(a: u64, b: u64, c: u64)
    requires a < 64, b < 64, c < 64,
    ensures forall|x: u8| #[trigger] set_has(scs3(a, b, c), x) <==> (x as u64 == a || x as u64 == b || x as u64 == c),
{
    assert forall|x: u8| #[trigger] set_has(scs3(a, b, c), x) <==> (x as u64 == a || x as u64 == b || x as u64 == c) by {
        let y = x as u64;
        assert(a < 64 && b < 64 && c < 64 && y < 256 ==>
            ((y < 64 && ((((1u64 << a) | (1u64 << b) | (1u64 << c)) >> y) & 1u64) == 1u64) <==> (y == a || y == b || y == c))) by (bit_vector);
    }
}
pub proof fn lemma_scs4(a: u64, b: u64, c: u64, d: u64)
    requires a < 64, b < 64, c < 64, d < 64,
    ensures forall|x: u8| #[trigger] set_has(scs4(a, b, c, d), x) <==> (x as u64 == a || x as u64 == b || x as u64 == c || x as u64 == d),
{
    assert forall|x: u8| #[trigger] set_has(scs4(a, b, c, d), x) <==> (x as u64 == a || x as u64 == b || x as u64 == c || x as u64 == d) by {
        let y = x as u64;
        assert(a < 64 && b < 64 && c < 64 && d < 64 && y < 256 ==>
            ((y < 64 && ((((1u64 << a) | (1u64 << b) | (1u64 << c) | (1u64 << d)) >> y) & 1u64) == 1u64) <==> (y == a || y == b || y == c || y == d))) by (bit_vector);
    }
}
pub proof fn lemma_scs5(a: u64, b: u64, c: u64, d: u64, e: u64)
    requires a < 64, b < 64, c < 64, d < 64, e < 64,
    ensures forall|x: u8| #[trigger] set_has(scs5(a, b, c, d, e), x) <==> (x as u64 == a || x as u64 == b || x as u64 == c || x as u64 == d || x as u64 == e),
{
    assert forall|x: u8| #[trigger] set_has(scs5(a, b, c, d, e), x) <==> (x as u64 == a || x as u64 == b || x as u64 == c || x as u64 == d || x as u64 == e) by {
        let y = x as u64;
        assert(a < 64 && b < 64 && c < 64 && d < 64 && e < 64 && y < 256 ==>
            ((y < 64 && ((((1u64 << a) | (1u64 << b) | (1u64 << c) | (1u64 << d) | (1u64 << e)) >> y) & 1u64) == 1u64) <==> (y == a || y == b || y == c || y == d || y == e))) by (bit_vector);
    }
}
pub proof fn lemma_scs8(a: u64, b: u64, c: u64, d: u64, e: u64, f: u64, g: u64, h: u64)
    requires a < 64, b < 64, c < 64, d < 64, e < 64, f < 64, g < 64, h < 64,
    ensures forall|x: u8| #[trigger] set_has(scs8(a, b, c, d, e, f, g, h), x) <==>
        (x as u64 == a || x as u64 == b || x as u64 == c || x as u64 == d || x as u64 == e || x as u64 == f || x as u64 == g || x as u64 == h),
{
    assert forall|x: u8| #[trigger] set_has(scs8(a, b, c, d, e, f, g, h), x) <==>
        (x as u64 == a || x as u64 == b || x as u64 == c || x as u64 == d || x as u64 == e || x as u64 == f || x as u64 == g || x as u64 == h) by {
        let y = x as u64;
        assert(a < 64 && b < 64 && c < 64 && d < 64 && e < 64 && f < 64 && g < 64 && h < 64 && y < 256 ==>
            ((y < 64 && ((((1u64 << a) | (1u64 << b) | (1u64 << c) | (1u64 << d) | (1u64 << e) | (1u64 << f) | (1u64 << g) | (1u64 << h)) >> y) & 1u64) == 1u64)
             <==> (y == a || y == b || y == c || y == d || y == e || y == f || y == g || y == h))) by (bit_vector);
    }
}

// ---- runs of ordinary characters ----
pub open spec fn is_text_state(s: State) -> bool { s == State::Data || s == State::Plaintext || s is RawData }
/// c is a character that text state `s` just emits
pub open spec fn plain_text(s: State, c: char) -> bool {
    c != '\r' && c != '\n' && c != '\0' && match s {
        State::Data => c != '&' && c != '<',
        State::RawData(RawKind::Rcdata) => c != '&' && c != '<',
        State::RawData(RawKind::Rawtext) => c != '<',
        State::RawData(RawKind::ScriptData) => c != '<',
        State::RawData(RawKind::ScriptDataEscaped(_)) => c != '-' && c != '<',
        _ => true,
    }
}
pub open spec fn all_plain_text(s: State, x: Seq<char>) -> bool {
    forall|i: int| 0 <= i < x.len() ==> plain_text(s, #[trigger] x[i])
}
pub proof fn lemma_run_text(a: AbsTok, x: Seq<char>)
    requires is_text_state(a.state), a.cr is None, !a.recons, all_plain_text(a.state, x),
    ensures run(a, x) == emit_seq(a, x),
    decreases x.len(),
{
    reveal_with_fuel(run, 2);
    reveal(spec_step); reveal(s_simple); reveal(s_data); reveal(s_rcdata); reveal(s_rawtext); reveal(s_script_escaped);
    reveal(s_rawdata); reveal(s_plaintext);
    if x.len() > 0 {
        assert(plain_text(a.state, x[0]));
        assert(spec_step(a, x[0]) == emit_ch(a, x[0]));
        assert forall|i: int| 0 <= i < x.drop_first().len() implies plain_text(a.state, #[trigger] x.drop_first()[i]) by {
            assert(x.drop_first()[i] == x[i + 1]);
        }
        lemma_run_text(emit_ch(a, x[0]), x.drop_first());
        assert(a.out.push(Out { tok: OutTok::Char(x[0]), line: 0 }) + chars_out(x.drop_first()) =~= a.out + chars_out(x));
    } else {
        assert(a.out + chars_out(x) =~= a.out);
    }
}
pub open spec fn plain_attr(k: AttrValueKind, c: char) -> bool {
    c != '\r' && c != '\n' && c != '\0' && c != '&' && match k {
        AttrValueKind::DoubleQuoted => c != '"',
        AttrValueKind::SingleQuoted => c != '\'',
        AttrValueKind::Unquoted => c != '\t' && c != '\x0C' && c != ' ' && c != '>',
    }
}
pub open spec fn all_plain_attr(k: AttrValueKind, x: Seq<char>) -> bool {
    forall|i: int| 0 <= i < x.len() ==> plain_attr(k, #[trigger] x[i])
}
pub proof fn lemma_run_attr(a: AbsTok, k: AttrValueKind, x: Seq<char>)
    requires a.state == State::AttributeValue(k), a.cr is None, !a.recons, all_plain_attr(k, x),
    ensures run(a, x) == (AbsTok { attr_value: a.attr_value + x, ..a }),
    decreases x.len(),
{
    reveal_with_fuel(run, 2);
    reveal(spec_step); reveal(s_simple); reveal(s_attr_value);
    if x.len() == 0 {
        assert(a.attr_value + x =~= a.attr_value);
    } else {
        assert(plain_attr(k, x[0]));
        assert(spec_step(a, x[0]) == push_value(a, x[0]));
        assert forall|i: int| 0 <= i < x.drop_first().len() implies plain_attr(k, #[trigger] x.drop_first()[i]) by {
            assert(x.drop_first()[i] == x[i + 1]);
        }
        lemma_run_attr(push_value(a, x[0]), k, x.drop_first());
        assert(a.attr_value.push(x[0]) + x.drop_first() =~= a.attr_value + x);
    }
}

// ======================================================================================
// look-ahead (markup declaration open / after DOCTYPE name): relating Tokenizer::eat to s_mdo / s_after_doctype_name
// ======================================================================================
pub open spec fn ch_eq(c: char, p: char, ci: bool) -> bool { if ci { lower(c) == p } else { c == p } }
/// the stream n begins with a full match of p
pub open spec fn m_true(n: Seq<char>, p: Seq<char>, ci: bool) -> bool { n.len() >= p.len() && full_match(n.take(p.len() as int), p, ci) }
/// n is a proper prefix of a match of p (more input is needed)
pub open spec fn m_none(n: Seq<char>, p: Seq<char>, ci: bool) -> bool { n.len() < p.len() && pre_match(n, p, ci) }
/// n differs from p at some position
pub open spec fn m_false(n: Seq<char>, p: Seq<char>, ci: bool) -> bool { !m_true(n, p, ci) && !m_none(n, p, ci) }
/// position of the first mismatch
pub open spec fn first_mismatch(n: Seq<char>, p: Seq<char>, ci: bool) -> int
    decreases n.len()
{
    if n.len() == 0 || p.len() == 0 || !ch_eq(n[0], p[0], ci) { 0 } else { 1 + first_mismatch(n.drop_first(), p.drop_first(), ci) }
}
pub open spec fn pat_ok(p: Seq<char>) -> bool {
    p.len() > 0 && forall|i: int| 0 <= i < p.len() ==> (#[trigger] p[i] as u32) < 128 && p[i] != '\n' && p[i] != '\r' && p[i] != '>'
        && p[i] != '\t' && p[i] != ' ' && p[i] != '\x0C'
}
/// a pattern compared ASCII-case-insensitively is written in lower case
pub open spec fn pat_lower(p: Seq<char>) -> bool { forall|i: int| 0 <= i < p.len() ==> !is_upper(#[trigger] p[i]) }
pub proof fn lemma_pre_match_take(l: Seq<char>, p: Seq<char>, ci: bool, k: int)
    requires pre_match(l, p, ci), 0 <= k <= l.len(),
    ensures pre_match(l.take(k), p, ci),
{
    assert forall|i: int| 0 <= i < l.take(k).len() implies (if ci { lower(#[trigger] l.take(k)[i]) == p[i] } else { l.take(k)[i] == p[i] }) by {
        assert(l.take(k)[i] == l[i]);
    }
}

#[verifier::opaque]
pub open spec fn mdo_viable(a: AbsTok, l: Seq<char>) -> bool {
    (l.len() < 2 && pre_match(l, pat_dashdash(), false)) || (l.len() < 7 && pre_match(l, pat_doctype(), true))
    || (sink_cdata_ok(a.out) && l.len() < 7 && pre_match(l, pat_cdata(), false))
}
pub open spec fn mdo_hit(a: AbsTok, l: Seq<char>) -> bool {
    full_match(l, pat_dashdash(), false) || full_match(l, pat_doctype(), true) || (sink_cdata_ok(a.out) && full_match(l, pat_cdata(), false))
}
pub open spec fn bogus_init(a: AbsTok) -> AbsTok { st(clear_comment(clear_temp(a)), State::BogusComment) }
pub open spec fn mdo_target(a: AbsTok, l: Seq<char>) -> AbsTok {
    if full_match(l, pat_dashdash(), false) { st(clear_comment(clear_temp(a)), State::CommentStart) }
    else if full_match(l, pat_doctype(), true) { st(clear_temp(a), State::Doctype) }
    else { st(clear_temp(a), State::CdataSection) }
}
pub proof fn lemma_pats()
    ensures
        pat_dashdash().len() == 2, pat_dashdash()[0] == '-', pat_dashdash()[1] == '-',
        pat_doctype().len() == 7, pat_doctype()[0] == 'd', pat_doctype()[1] == 'o', pat_doctype()[2] == 'c', pat_doctype()[3] == 't',
        pat_doctype()[4] == 'y', pat_doctype()[5] == 'p', pat_doctype()[6] == 'e',
        pat_cdata().len() == 7, pat_cdata()[0] == '[', pat_cdata()[1] == 'C', pat_cdata()[2] == 'D', pat_cdata()[3] == 'A',
        pat_cdata()[4] == 'T', pat_cdata()[5] == 'A', pat_cdata()[6] == '[',
        pat_public().len() == 6, pat_public()[0] == 'p', pat_public()[1] == 'u', pat_public()[2] == 'b', pat_public()[3] == 'l',
        pat_public()[4] == 'i', pat_public()[5] == 'c',
        pat_system().len() == 6, pat_system()[0] == 's', pat_system()[1] == 'y', pat_system()[2] == 's', pat_system()[3] == 't',
        pat_system()[4] == 'e', pat_system()[5] == 'm',
        pat_ok(pat_dashdash()), pat_ok(pat_doctype()), pat_ok(pat_cdata()), pat_ok(pat_public()), pat_ok(pat_system()),
        pat_lower(pat_dashdash()), pat_lower(pat_doctype()), pat_lower(pat_public()), pat_lower(pat_system()),
{
}
/// a viable look-ahead contains only pattern characters: none of them is '\n', '\r', '>' or NUL
pub proof fn lemma_viable_chars(l: Seq<char>, p: Seq<char>, ci: bool, i: int)
    requires pre_match(l, p, ci), 0 <= i < l.len(),
        forall|j: int| 0 <= j < p.len() ==> #[trigger] p[j] != '\n' && p[j] != '\r' && p[j] != '>' && p[j] != '\0' && (ci ==> !is_upper(p[j])),
    ensures l[i] != '\n', l[i] != '\r', l[i] != '>', l[i] != '\0',
{
    assert(if ci { lower(l[i]) == p[i] } else { l[i] == p[i] });
}
pub proof fn lemma_mdo_feed(a: AbsTok, p: Seq<char>)
    requires a.state == State::MarkupDeclarationOpen, a.cr is None, !a.recons, mdo_viable(a, a.temp + p),
    ensures run(a, p) == (AbsTok { temp: a.temp + p, ..a }),
    decreases p.len(),
{
    reveal(mdo_viable); reveal(adn_viable);
    reveal_with_fuel(run, 2);
    lemma_pats();
    if p.len() == 0 {
        assert(a.temp + p =~= a.temp);
    } else {
        let c = p[0];
        let n = a.temp + p;
        let l = a.temp.push(c);
        assert(l =~= n.take((a.temp.len() + 1) as int));
        if pre_match(n, pat_dashdash(), false) && n.len() < 2 {
            lemma_pre_match_take(n, pat_dashdash(), false, (a.temp.len() + 1) as int);
            lemma_viable_chars(n, pat_dashdash(), false, a.temp.len() as int);
        } else if pre_match(n, pat_doctype(), true) && n.len() < 7 {
            lemma_pre_match_take(n, pat_doctype(), true, (a.temp.len() + 1) as int);
            lemma_viable_chars(n, pat_doctype(), true, a.temp.len() as int);
        } else {
            lemma_pre_match_take(n, pat_cdata(), false, (a.temp.len() + 1) as int);
            lemma_viable_chars(n, pat_cdata(), false, a.temp.len() as int);
        }
        assert(n[a.temp.len() as int] == c);
        assert(c != '\n');
        reveal(spec_step); reveal(s_mdo);
        assert(mdo_viable(a, l));
        assert(!mdo_hit(a, l)) by {
            assert(l[0] == n[0]);
        }
        assert(spec_step(a, c) == push_temp(a, c));
        assert(push_temp(a, c).temp + p.drop_first() =~= a.temp + p);
        lemma_mdo_feed(push_temp(a, c), p.drop_first());
    }
}

pub proof fn lemma_mdo_hit(a: AbsTok, p: Seq<char>)
    requires a.state == State::MarkupDeclarationOpen, a.cr is None, !a.recons, p.len() > 0,
        mdo_viable(a, a.temp), mdo_hit(a, a.temp + p),
    ensures run(a, p) == mdo_target(a, a.temp + p),
{
    reveal(mdo_viable); reveal(adn_viable);
    lemma_pats();
    let n = a.temp + p;
    let q = p.drop_last();
    let c = p.last();
    assert(p =~= q + seq![c]);
    assert(a.temp + q =~= n.take(n.len() - 1));
    // n.take(len-1) is a proper viable prefix of the pattern n matches
    if full_match(n, pat_dashdash(), false) { lemma_pre_match_take(n, pat_dashdash(), false, n.len() - 1); }
    else if full_match(n, pat_doctype(), true) { lemma_pre_match_take(n, pat_doctype(), true, n.len() - 1); }
    else { lemma_pre_match_take(n, pat_cdata(), false, n.len() - 1); }
    lemma_mdo_feed(a, q);
    let b = AbsTok { temp: a.temp + q, ..a };
    lemma_run_concat(a, q, seq![c]);
    reveal_with_fuel(run, 2);
    assert(seq![c].drop_first() =~= Seq::<char>::empty());
    assert(b.temp.push(c) =~= n);
    assert(n[n.len() - 1] == c);
    assert(c != '\n') by {
        if full_match(n, pat_dashdash(), false) { lemma_viable_chars(n, pat_dashdash(), false, n.len() - 1); }
        else if full_match(n, pat_doctype(), true) { lemma_viable_chars(n, pat_doctype(), true, n.len() - 1); }
        else { lemma_viable_chars(n, pat_cdata(), false, n.len() - 1); }
    }
    reveal(spec_step); reveal(s_mdo);
    assert(n[0] == n[0]);
    assert(spec_step(b, c) == mdo_target(a, n));
}

/// in the bogus comment state, characters that were already consumed (and counted) are re-processed;
/// only the last of them can be '>' or a line break
pub proof fn lemma_bogus_reprocess(b: AbsTok, l: Seq<char>)
    requires b.state == State::BogusComment, b.cr is None, !b.recons, l.len() >= 1,
        forall|i: int| 0 <= i < l.len() - 1 ==> #[trigger] l[i] != '>' && l[i] != '\n',
    ensures run(b, l) == reprocess(pre_step(b, l.last()), l),
    decreases l.len(),
{
    reveal_with_fuel(run, 2); reveal_with_fuel(reprocess, 2);
    reveal(spec_step); reveal(s_simple); reveal(s_bogus_comment);
    let c0 = l[0];
    if l.len() == 1 {
        assert(l.drop_first() =~= Seq::<char>::empty());
    } else {
        let l2 = l.drop_first();
        assert(c0 != '>' && c0 != '\n');
        let b2 = s_bogus_comment(b, c0);
        assert(spec_step(b, c0) == b2);
        assert forall|i: int| 0 <= i < l2.len() - 1 implies #[trigger] l2[i] != '>' && l2[i] != '\n' by {
            assert(l2[i] == l[i + 1]);
        }
        lemma_bogus_reprocess(b2, l2);
        assert(l2.last() == l.last());
        assert(s_simple(pre_step(b, l.last()), c0) == pre_step(b2, l.last()));
    }
}

pub proof fn lemma_mdo_miss(a: AbsTok, p: Seq<char>)
    requires a.state == State::MarkupDeclarationOpen, a.cr is None, !a.recons, mdo_viable(a, a.temp),
        m_false(a.temp + p, pat_dashdash(), false), m_false(a.temp + p, pat_doctype(), true),
        sink_cdata_ok(a.out) ==> m_false(a.temp + p, pat_cdata(), false),
    ensures run(a, p) == run(bogus_init(a), a.temp + p),
    decreases p.len(),
{
    reveal(mdo_viable); reveal(adn_viable);
    lemma_pats();
    let n = a.temp + p;
    if p.len() == 0 {
        assert(n =~= a.temp);
        // a viable look-ahead is a proper prefix match of one of the patterns: contradiction
        assert(m_none(n, pat_dashdash(), false) || m_none(n, pat_doctype(), true) || (sink_cdata_ok(a.out) && m_none(n, pat_cdata(), false)));
    } else {
        let c = p[0];
        let l = a.temp.push(c);
        let rest = p.drop_first();
        assert(n =~= l + rest);
        assert(l =~= n.take(l.len() as int));
        reveal_with_fuel(run, 2);
        reveal(spec_step); reveal(s_mdo);
        let a1 = pre_step(a, c);
        if mdo_hit(a, l) {
            // then n starts with a full match: contradiction with m_false
            assert(n.take(l.len() as int) =~= l);
            assert(false);
        } else if mdo_viable(a, l) {
            assert(c != '\n') by {
                if pre_match(l, pat_dashdash(), false) && l.len() < 2 { lemma_viable_chars(l, pat_dashdash(), false, l.len() - 1); }
                else if pre_match(l, pat_doctype(), true) && l.len() < 7 { lemma_viable_chars(l, pat_doctype(), true, l.len() - 1); }
                else { lemma_viable_chars(l, pat_cdata(), false, l.len() - 1); }
            }
            let a2 = push_temp(a, c);
            assert(spec_step(a, c) == a2);
            assert(a2.temp + rest =~= n);
            lemma_mdo_miss(a2, rest);
            assert(bogus_init(a2) == bogus_init(a));
        } else {
            // the look-ahead fails at this character: the spec re-processes l as a bogus comment
            let b = bogus_init(a);
            assert(spec_step(a, c) == reprocess(st(clear_comment(clear_temp(a1)), State::BogusComment), l));
            assert forall|i: int| 0 <= i < l.len() - 1 implies #[trigger] l[i] != '>' && l[i] != '\n' by {
                assert(l[i] == a.temp[i]);
                if pre_match(a.temp, pat_dashdash(), false) && a.temp.len() < 2 { lemma_viable_chars(a.temp, pat_dashdash(), false, i); }
                else if pre_match(a.temp, pat_doctype(), true) && a.temp.len() < 7 { lemma_viable_chars(a.temp, pat_doctype(), true, i); }
                else { lemma_viable_chars(a.temp, pat_cdata(), false, i); }
            }
            lemma_bogus_reprocess(b, l);
            assert(l.last() == c);
            assert(pre_step(b, c) == st(clear_comment(clear_temp(a1)), State::BogusComment));
            lemma_run_concat(b, l, rest);
        }
    }
}

// ---- after DOCTYPE name ----
#[verifier::opaque]
pub open spec fn adn_viable(l: Seq<char>) -> bool {
    l.len() < 6 && (pre_match(l, pat_public(), true) || pre_match(l, pat_system(), true))
}
pub open spec fn adn_hit(l: Seq<char>) -> bool { full_match(l, pat_public(), true) || full_match(l, pat_system(), true) }
pub open spec fn adn_target(a: AbsTok, l: Seq<char>) -> AbsTok {
    if full_match(l, pat_public(), true) { st(clear_temp(a), State::AfterDoctypeKeyword(DoctypeIdKind::Public)) }
    else { st(clear_temp(a), State::AfterDoctypeKeyword(DoctypeIdKind::System)) }
}
pub open spec fn bogusdt_init(a: AbsTok) -> AbsTok { st(force_quirks(clear_temp(a)), State::BogusDoctype) }

pub proof fn lemma_adn_feed(a: AbsTok, p: Seq<char>)
    requires a.state == State::AfterDoctypeName, a.cr is None, !a.recons, adn_viable(a.temp + p),
    ensures run(a, p) == (AbsTok { temp: a.temp + p, ..a }),
    decreases p.len(),
{
    reveal(mdo_viable); reveal(adn_viable);
    reveal_with_fuel(run, 2);
    lemma_pats();
    if p.len() == 0 {
        assert(a.temp + p =~= a.temp);
    } else {
        let c = p[0];
        let n = a.temp + p;
        let l = a.temp.push(c);
        assert(l =~= n.take((a.temp.len() + 1) as int));
        if pre_match(n, pat_public(), true) {
            lemma_pre_match_take(n, pat_public(), true, (a.temp.len() + 1) as int);
            lemma_viable_chars(n, pat_public(), true, a.temp.len() as int);
        } else {
            lemma_pre_match_take(n, pat_system(), true, (a.temp.len() + 1) as int);
            lemma_viable_chars(n, pat_system(), true, a.temp.len() as int);
        }
        assert(n[a.temp.len() as int] == c);
        assert(c != '\n' && c != '>' && !is_ws(c)) by {
            if pre_match(n, pat_public(), true) { assert(lower(c) == pat_public()[a.temp.len() as int]); }
            else { assert(lower(c) == pat_system()[a.temp.len() as int]); }
        }
        reveal(spec_step); reveal(s_after_doctype_name);
        assert(adn_viable(l));
        assert(!adn_hit(l));
        assert(spec_step(a, c) == push_temp(a, c));
        assert(push_temp(a, c).temp + p.drop_first() =~= a.temp + p);
        lemma_adn_feed(push_temp(a, c), p.drop_first());
    }
}
pub proof fn lemma_adn_hit(a: AbsTok, p: Seq<char>)
    requires a.state == State::AfterDoctypeName, a.cr is None, !a.recons, p.len() > 0,
        adn_viable(a.temp), adn_hit(a.temp + p),
    ensures run(a, p) == adn_target(a, a.temp + p),
{
    reveal(mdo_viable); reveal(adn_viable);
    lemma_pats();
    let n = a.temp + p;
    let q = p.drop_last();
    let c = p.last();
    assert(p =~= q + seq![c]);
    assert(a.temp + q =~= n.take(n.len() - 1));
    if full_match(n, pat_public(), true) { lemma_pre_match_take(n, pat_public(), true, n.len() - 1); }
    else { lemma_pre_match_take(n, pat_system(), true, n.len() - 1); }
    lemma_adn_feed(a, q);
    let b = AbsTok { temp: a.temp + q, ..a };
    lemma_run_concat(a, q, seq![c]);
    reveal_with_fuel(run, 2);
    assert(seq![c].drop_first() =~= Seq::<char>::empty());
    assert(b.temp.push(c) =~= n);
    assert(n[n.len() - 1] == c);
    assert(c != '\n' && c != '>' && !is_ws(c)) by {
        if full_match(n, pat_public(), true) { assert(lower(c) == pat_public()[n.len() - 1]); }
        else { assert(lower(c) == pat_system()[n.len() - 1]); }
    }
    reveal(spec_step); reveal(s_after_doctype_name);
    assert(b.temp.len() == 5);
    assert(spec_step(b, c) == adn_target(a, n));
}
/// bogus DOCTYPE: already-consumed characters are re-processed; only the last one can be '>' or a line break
pub proof fn lemma_bogusdt_reprocess(b: AbsTok, l: Seq<char>)
    requires b.state == State::BogusDoctype, b.cr is None, !b.recons, l.len() >= 1,
        forall|i: int| 0 <= i < l.len() - 1 ==> #[trigger] l[i] != '>' && l[i] != '\n',
    ensures run(b, l) == reprocess(pre_step(b, l.last()), l),
    decreases l.len(),
{
    reveal_with_fuel(run, 2); reveal_with_fuel(reprocess, 2);
    reveal(spec_step); reveal(s_simple); reveal(s_bogus_doctype);
    let c0 = l[0];
    if l.len() == 1 {
        assert(l.drop_first() =~= Seq::<char>::empty());
    } else {
        let l2 = l.drop_first();
        assert(c0 != '>' && c0 != '\n');
        assert(spec_step(b, c0) == b);
        assert forall|i: int| 0 <= i < l2.len() - 1 implies #[trigger] l2[i] != '>' && l2[i] != '\n' by {
            assert(l2[i] == l[i + 1]);
        }
        lemma_bogusdt_reprocess(b, l2);
        assert(l2.last() == l.last());
        assert(s_simple(pre_step(b, l.last()), c0) == pre_step(b, l.last()));
    }
}
/// neither keyword matches: the whole look-ahead is handled by the bogus DOCTYPE state
pub proof fn lemma_adn_miss(a: AbsTok, p: Seq<char>)
    requires a.state == State::AfterDoctypeName, a.cr is None, !a.recons, adn_viable(a.temp),
        m_false(a.temp + p, pat_public(), true), m_false(a.temp + p, pat_system(), true),
        a.temp.len() == 0 ==> p.len() > 0 && !is_ws(p[0]) && p[0] != '>',
    ensures run(a, p) == run(bogusdt_init(a), a.temp + p),
    decreases p.len(),
{
    reveal(mdo_viable); reveal(adn_viable);
    lemma_pats();
    let n = a.temp + p;
    if p.len() == 0 {
        assert(n =~= a.temp);
        assert(m_none(n, pat_public(), true) || m_none(n, pat_system(), true));
    } else {
        let c = p[0];
        let l = a.temp.push(c);
        let rest = p.drop_first();
        assert(n =~= l + rest);
        assert(l =~= n.take(l.len() as int));
        reveal_with_fuel(run, 2);
        reveal(spec_step); reveal(s_after_doctype_name);
        let a1 = pre_step(a, c);
        if a.temp.len() > 0 || (!is_ws(c) && c != '>') {
            if adn_hit(l) {
                assert(n.take(l.len() as int) =~= l);
                assert(false);
            } else if adn_viable(l) {
                assert(c != '\n') by {
                    if pre_match(l, pat_public(), true) { lemma_viable_chars(l, pat_public(), true, l.len() - 1); }
                    else { lemma_viable_chars(l, pat_system(), true, l.len() - 1); }
                }
                let a2 = push_temp(a, c);
                assert(spec_step(a, c) == a2);
                assert(a2.temp + rest =~= n);
                lemma_adn_miss(a2, rest);
                assert(bogusdt_init(a2) == bogusdt_init(a));
            } else {
                let b = bogusdt_init(a);
                assert(spec_step(a, c) == reprocess(st(force_quirks(clear_temp(a1)), State::BogusDoctype), l));
                assert forall|i: int| 0 <= i < l.len() - 1 implies #[trigger] l[i] != '>' && l[i] != '\n' by {
                    assert(l[i] == a.temp[i]);
                    if pre_match(a.temp, pat_public(), true) { lemma_viable_chars(a.temp, pat_public(), true, i); }
                    else { lemma_viable_chars(a.temp, pat_system(), true, i); }
                }
                lemma_bogusdt_reprocess(b, l);
                assert(l.last() == c);
                assert(pre_step(b, c) == st(force_quirks(clear_temp(a1)), State::BogusDoctype));
                lemma_run_concat(b, l, rest);
            }
        }
    }
}
/// moving the look-ahead buffer back in front of the pending input does not change what the machine computes
pub proof fn lemma_unlook(a: AbsTok, p: Seq<char>)
    requires a.cr is None, !a.recons,
        (a.state == State::MarkupDeclarationOpen && mdo_viable(a, a.temp)) || (a.state == State::AfterDoctypeName && adn_viable(a.temp)),
    ensures run(a, p) == run(clear_temp(a), a.temp + p),
{
    reveal(mdo_viable); reveal(adn_viable);
    let b = clear_temp(a);
    assert(b.temp + a.temp =~= a.temp);
    if a.state == State::MarkupDeclarationOpen { lemma_mdo_feed(b, a.temp); } else { lemma_adn_feed(b, a.temp); }
    assert((AbsTok { temp: b.temp + a.temp, ..b }) == a);
    lemma_run_concat(b, a.temp, p);
}

// ---- Tokenizer::eat: from BufferQueue::eat's byte-level answer to the character-level look-ahead relation ----
/// the comparison function is u8::eq_ignore_ascii_case (ci) or u8::eq (!ci)
pub open spec fn eq_is<F: Fn(&u8, &u8) -> bool>(eq: F, ci: bool) -> bool {
    (forall|a: &u8, b: &u8| #[trigger] eq.requires((a, b)))
    && (forall|a: u8, b: u8, r: bool| #[trigger] eq.ensures((&a, &b), r) ==> r == (if ci { lower_u8(a) == lower_u8(b) } else { a == b }))
}
/// ASSUMED: the UTF-8 encoding of an ASCII string is its characters (links vstd's str::spec_bytes to the character view)
#[verifier::external_body]
pub proof fn axiom_ascii_bytes(s: &str)
    requires forall|i: int| 0 <= i < s@.len() ==> (#[trigger] s@[i] as u32) < 128,
    ensures s.spec_bytes().len() == s@.len(), forall|i: int| 0 <= i < s@.len() ==> #[trigger] s.spec_bytes()[i] == s@[i] as u8,
{}
pub open spec fn look_viable(a: AbsTok) -> bool {
    a.cr is None && !a.recons
    && ((a.state == State::MarkupDeclarationOpen && mdo_viable(a, a.temp)) || (a.state == State::AfterDoctypeName && adn_viable(a.temp)))
}
pub proof fn lemma_utf8_after_ascii(s: Seq<char>, k: nat)
    requires k < s.len(), forall|i: int| 0 <= i < k ==> (#[trigger] s[i] as u32) < 128,
    ensures
        k < utf8(s).len(),
        forall|i: int| 0 <= i < k ==> #[trigger] utf8(s)[i] == s[i] as u8,
        (s[k as int] as u32) < 128 ==> utf8(s)[k as int] == s[k as int] as u8,
        (s[k as int] as u32) >= 128 ==> utf8(s)[k as int] >= 128,
    decreases k,
{
    lemma_enc(s[0]);
    assert(utf8(s) =~= enc(s[0]) + utf8(s.drop_first()));
    if k > 0 {
        assert forall|i: int| 0 <= i < k - 1 implies (#[trigger] s.drop_first()[i] as u32) < 128 by { assert(s.drop_first()[i] == s[i + 1]); }
        lemma_utf8_after_ascii(s.drop_first(), (k - 1) as nat);
        assert((s[0] as u32) < 128);
        assert forall|i: int| 0 <= i < k implies #[trigger] utf8(s)[i] == s[i] as u8 by {
            if i > 0 { assert(utf8(s)[i] == utf8(s.drop_first())[i - 1]); assert(s[i] == s.drop_first()[i - 1]); }
        }
        assert(utf8(s)[k as int] == utf8(s.drop_first())[k - 1]);
        assert(s[k as int] == s.drop_first()[k - 1]);
    }
}
pub proof fn lemma_utf8_len_ge(s: Seq<char>)
    ensures utf8(s).len() >= s.len(),
    decreases s.len(),
{
    if s.len() > 0 { lemma_enc(s[0]); lemma_utf8_len_ge(s.drop_first()); }
}
/// character-level reading of BufferQueue::eat's byte-level answer on the raw view `v`
pub proof fn lemma_eat_chars<F: Fn(&u8, &u8) -> bool>(v: Seq<char>, pb: Seq<u8>, pc: Seq<char>, eq: F, ci: bool, r: Option<bool>)
    requires
        pat_ok(pc), ci ==> pat_lower(pc), pb.len() == pc.len(), forall|i: int| 0 <= i < pc.len() ==> #[trigger] pb[i] == pc[i] as u8,
        eq_is(eq, ci), eat_result(utf8(v), pb, eq, r),
    ensures
        r == Some(true) ==> v.len() >= pc.len() && full_match(v.take(pc.len() as int), pc, ci),
        r == Some(false) ==> exists|k: int| 0 <= k < pc.len() && k < v.len() && pre_match(v.take(k), pc, ci)
            && !ch_eq(#[trigger] v[k], pc[k], ci) && (v[k] == '\r' || v[k] == '\n' || !ch_eq(v[k], pc[k], ci)),
        r is None ==> v.len() < pc.len() && pre_match(v, pc, ci),
{
    let b = utf8(v);
    lemma_utf8_len_ge(v);
    // every matched byte is ASCII (because the pattern is) and is the character itself
    let m: int = match r { Some(true) => pb.len() as int, Some(false) => choose|k: int| 0 <= k < pb.len() && k < b.len()
            && (forall|i: int| 0 <= i < k ==> #[trigger] eq_at(eq, b, pb, i, true)) && eq_at(eq, b, pb, k, false), None => b.len() as int };
    assert forall|i: int| 0 <= i < m implies #[trigger] b[i] < 128 && (if ci { lower_u8(b[i]) == lower_u8(pb[i]) } else { b[i] == pb[i] }) by {
        assert(eq_at(eq, b, pb, i, true));
        assert(eq.ensures((&b[i], &pb[i]), true));
        assert((pc[i] as u32) < 128);
    }
    lemma_ascii_prefix(v, m as nat);
    assert forall|i: int| 0 <= i < m implies ch_eq(#[trigger] v[i], pc[i], ci) by {
        assert(b[i] < 128 && (if ci { lower_u8(b[i]) == lower_u8(pb[i]) } else { b[i] == pb[i] }));
        assert(b[i] == v[i] as u8);
        assert(ci ==> !is_upper(pc[i]));
    }
    match r {
        Some(true) => {
            assert forall|i: int| 0 <= i < v.take(m).len() implies (if ci { lower(#[trigger] v.take(m)[i]) == pc[i] } else { v.take(m)[i] == pc[i] }) by {
                assert(v.take(m)[i] == v[i]); assert(ch_eq(v[i], pc[i], ci));
            }
        },
        Some(false) => {
            assert(m < v.len()) by { lemma_utf8_empty(v.skip(m)); lemma_utf8_concat(v.take(m), v.skip(m)); assert(v =~= v.take(m) + v.skip(m)); }
            lemma_utf8_after_ascii(v, m as nat);
            assert(eq_at(eq, b, pb, m, false));
            assert(eq.ensures((&b[m], &pb[m]), false));
            assert(!ch_eq(v[m], pc[m], ci)) by {
                assert((pc[m] as u32) < 128 && (ci ==> !is_upper(pc[m])));
                if (v[m] as u32) < 128 { assert(b[m] == v[m] as u8); }
            }
            assert forall|i: int| 0 <= i < v.take(m).len() implies (if ci { lower(#[trigger] v.take(m)[i]) == pc[i] } else { v.take(m)[i] == pc[i] }) by {
                assert(v.take(m)[i] == v[i]); assert(ch_eq(v[i], pc[i], ci));
            }
        },
        None => {
            assert(v.len() == m) by {
                if m < v.len() { lemma_utf8_concat(v.take(m), v.skip(m)); assert(v =~= v.take(m) + v.skip(m)); lemma_utf8_empty(v.skip(m)); }
            }
            assert forall|i: int| 0 <= i < v.len() implies (if ci { lower(#[trigger] v[i]) == pc[i] } else { v[i] == pc[i] }) by {
                assert(ch_eq(v[i], pc[i], ci));
            }
        },
    }
}

pub proof fn lemma_norm_prefix(v: Seq<char>, k: int)
    requires 0 <= k <= v.len(), no_crlf(v.take(k)),
    ensures norm(false, v) == v.take(k) + norm(false, v.skip(k)),
{
    assert(v =~= v.take(k) + v.skip(k));
    lemma_norm_plain(v.take(k), v.skip(k));
}
pub proof fn lemma_pre_match_no_crlf(l: Seq<char>, p: Seq<char>, ci: bool)
    requires pre_match(l, p, ci), pat_ok(p),
    ensures no_crlf(l),
{
    assert forall|i: int| 0 <= i < l.len() implies #[trigger] l[i] != '\r' && l[i] != '\n' by {
        assert(if ci { lower(l[i]) == p[i] } else { l[i] == p[i] });
        assert((p[i] as u32) < 128 && p[i] != '\n' && p[i] != '\r');
    }
}
/// from the raw comparison of v to the comparison of its normalisation
pub proof fn lemma_look_norm(v: Seq<char>, pc: Seq<char>, ci: bool, r: Option<bool>)
    requires pat_ok(pc),
        r == Some(true) ==> v.len() >= pc.len() && full_match(v.take(pc.len() as int), pc, ci),
        r == Some(false) ==> exists|k: int| 0 <= k < pc.len() && k < v.len() && pre_match(v.take(k), pc, ci) && !ch_eq(#[trigger] v[k], pc[k], ci),
        r is None ==> v.len() < pc.len() && pre_match(v, pc, ci),
    ensures
        r == Some(true) ==> m_true(norm(false, v), pc, ci) && norm(false, v).skip(pc.len() as int) == norm(false, v.skip(pc.len() as int)),
        r == Some(false) ==> m_false(norm(false, v), pc, ci),
        r is None ==> m_none(norm(false, v), pc, ci) && norm(false, v) == v,
{
    let n = norm(false, v);
    let m = pc.len() as int;
    match r {
        Some(true) => {
            lemma_pre_match_no_crlf(v.take(m), pc, ci);
            lemma_norm_prefix(v, m);
            assert(n.take(m) =~= v.take(m));
            assert(n.skip(m) =~= norm(false, v.skip(m)));
        },
        Some(false) => {
            let k = choose|k: int| 0 <= k < pc.len() && k < v.len() && pre_match(v.take(k), pc, ci) && !ch_eq(#[trigger] v[k], pc[k], ci);
            lemma_pre_match_no_crlf(v.take(k), pc, ci);
            lemma_norm_prefix(v, k);
            reveal_with_fuel(norm, 2);
            let w = v.skip(k);
            assert(w[0] == v[k]);
            let nk = norm(false, w);
            assert(nk.len() > 0 && (nk[0] == v[k] || (v[k] == '\r' && nk[0] == '\n')));
            assert(n[k] == nk[0]);
            assert(!ch_eq(n[k], pc[k], ci)) by { assert(pc[k] != '\n' && (pc[k] as u32) < 128); }
            assert(n.len() > k);
            if m_true(n, pc, ci) { assert(n.take(m)[k] == n[k]); assert(if ci { lower(n.take(m)[k]) == pc[k] } else { n.take(m)[k] == pc[k] }); }
            if m_none(n, pc, ci) { assert(if ci { lower(n[k]) == pc[k] } else { n[k] == pc[k] }); }
        },
        None => {
            lemma_pre_match_no_crlf(v, pc, ci);
            assert(v.take(v.len() as int) =~= v);
            lemma_norm_prefix(v, v.len() as int);
            reveal_with_fuel(norm, 2);
            assert(v.skip(v.len() as int) =~= Seq::<char>::empty());
            assert(n =~= v);
        },
    }
}

pub proof fn lemma_viable_no_crlf(a: AbsTok)
    requires look_viable(a),
    ensures no_crlf(a.temp),
{
    reveal(mdo_viable); reveal(adn_viable);
    lemma_pats();
    let l = a.temp;
    if a.state == State::MarkupDeclarationOpen {
        if pre_match(l, pat_dashdash(), false) && l.len() < 2 { lemma_pre_match_no_crlf(l, pat_dashdash(), false); }
        else if pre_match(l, pat_doctype(), true) && l.len() < 7 { lemma_pre_match_no_crlf(l, pat_doctype(), true); }
        else { assert forall|i: int| 0 <= i < l.len() implies #[trigger] l[i] != '\r' && l[i] != '\n' by { assert(l[i] == pat_cdata()[i]); } }
    } else {
        if pre_match(l, pat_public(), true) { lemma_pre_match_no_crlf(l, pat_public(), true); } else { lemma_pre_match_no_crlf(l, pat_system(), true); }
    }
}
/// everything Tokenizer::eat needs to know, from the state before the call (a, ig0, v0), the state after its
/// pending-CR block (ig1, v1) and BufferQueue::eat's answer r0 on the queue temp + v1
pub proof fn lemma_eat_post<F: Fn(&u8, &u8) -> bool>(a: AbsTok, ig0: bool, v0: Seq<char>, ig1: bool, v1: Seq<char>, pat: &str, eq: F, ci: bool, r0: Option<bool>)
    requires
        look_viable(a), ig0 ==> a.temp.len() == 0, pat_ok(pat@), eq_is(eq, ci), ci ==> pat_lower(pat@),
        (ig0 && v0.len() > 0) ==> !ig1 && v1 == (if v0[0] == '\n' { v0.drop_first() } else { v0 }),
        (ig0 && v0.len() == 0) ==> ig1 && v1 == v0,
        !ig0 ==> !ig1 && v1 == v0,
        eat_result(utf8(a.temp + v1), pat.spec_bytes(), eq, r0),
    ensures ({
        let n = a.temp + norm(ig0, v0);
        let v2 = a.temp + v1;
        let m = pat@.len() as int;
        &&& norm(ig1, v2) == n
        &&& (ig1 ==> n.len() == 0 && v2.len() == 0)
        &&& (r0 == Some(true) ==> m_true(n, pat@, ci) && v2.len() >= m && norm(false, v2.skip(m)) == n.skip(m))
        &&& (r0 == Some(false) ==> m_false(n, pat@, ci))
        &&& (r0 is None ==> m_none(n, pat@, ci) && v2 == n)
    }),
{
    reveal(mdo_viable); reveal(adn_viable);
    let n = a.temp + norm(ig0, v0);
    let v2 = a.temp + v1;
    reveal_with_fuel(norm, 2);
    lemma_viable_no_crlf(a);
    assert forall|i: int| 0 <= i < pat@.len() implies (#[trigger] pat@[i] as u32) < 128 by {}
    axiom_ascii_bytes(pat);
    if v0.len() > 0 { assert(v0 =~= seq![v0[0]] + v0.drop_first()); }
    // the pending-CR block leaves the normalised pending input unchanged
    assert(norm(ig1, v1) =~= norm(ig0, v0));
    if ig1 {
        assert(v2 =~= Seq::<char>::empty());
        assert(n =~= Seq::<char>::empty());
        assert(norm(ig1, v2) =~= n);
    } else {
        lemma_norm_plain(a.temp, v1);
        assert(norm(false, v2) =~= n);
    }
    lemma_eat_chars(v2, pat.spec_bytes(), pat@, eq, ci, r0);
    lemma_look_norm(v2, pat@, ci, r0);
    if ig1 {
        // empty queue: BufferQueue::eat can only have answered None
        lemma_utf8_empty(v2);
        assert(r0 is None);
        assert(m_none(n, pat@, ci));
    }
}

// ---- what the look-ahead arms of `step` use ----
pub open spec fn mdo_pat(a: AbsTok, p: Seq<char>, ci: bool) -> bool {
    (p == pat_dashdash() && !ci) || (p == pat_doctype() && ci) || (p == pat_cdata() && !ci && sink_cdata_ok(a.out))
}
pub proof fn lemma_mdo_true(a: AbsTok, p: Seq<char>, pat: Seq<char>, ci: bool)
    requires look_viable(a), a.state == State::MarkupDeclarationOpen, mdo_pat(a, pat, ci), m_true(a.temp + p, pat, ci),
    ensures run(a, p) == run(mdo_target(a, (a.temp + p).take(pat.len() as int)), (a.temp + p).skip(pat.len() as int)),
{
    reveal(mdo_viable); reveal(adn_viable);
    lemma_pats();
    let n = a.temp + p;
    let m = pat.len() as int;
    let h = n.take(m);
    assert(h[0] == n[0]);
    // the buffered look-ahead is a proper prefix of this very pattern
    assert(a.temp.len() < m) by {
        if a.temp.len() >= m {
            assert(a.temp[0] == n[0]);
            assert(h =~= a.temp.take(m));
            assert forall|i: int| 0 <= i < m implies a.temp[i] == #[trigger] h[i] by {}
        }
    }
    let q = p.take(m - a.temp.len());
    assert(a.temp + q =~= h);
    assert(p =~= q + p.skip(m - a.temp.len()));
    assert(p.skip(m - a.temp.len()) =~= n.skip(m));
    lemma_mdo_hit(a, q);
    lemma_run_concat(a, q, n.skip(m));
}
pub proof fn lemma_reprocess_bogus_state(b: AbsTok, l: Seq<char>)
    requires b.state == State::BogusComment, forall|i: int| 0 <= i < l.len() ==> #[trigger] l[i] != '>',
    ensures reprocess(b, l).state == State::BogusComment, reprocess(b, l).cr == b.cr, reprocess(b, l).recons == b.recons,
    decreases l.len(),
{
    reveal_with_fuel(reprocess, 2); reveal(s_simple); reveal(s_bogus_comment);
    if l.len() > 0 {
        assert(l[0] != '>');
        assert forall|i: int| 0 <= i < l.drop_first().len() implies #[trigger] l.drop_first()[i] != '>' by { assert(l.drop_first()[i] == l[i + 1]); }
        lemma_reprocess_bogus_state(s_simple(b, l[0]), l.drop_first());
    }
}
/// end of input while the look-ahead is still undecided: the tokenizer has already fallen back to the bogus
/// comment state, the standard does so at EOF; what remains to be emitted is the same
pub proof fn lemma_mdo_eof(a: AbsTok, p: Seq<char>)
    requires look_viable(a), a.state == State::MarkupDeclarationOpen, mdo_viable(a, a.temp + p),
    ensures eof_close(run(a, p)) == eof_close(run(bogus_init(a), a.temp + p)),
{
    reveal(mdo_viable); reveal(adn_viable);
    lemma_pats();
    let n = a.temp + p;
    lemma_mdo_feed(a, p);
    let x = AbsTok { temp: n, ..a };
    let b = bogus_init(a);
    assert(bogus_init(x) == b);
    assert forall|i: int| 0 <= i < n.len() implies #[trigger] n[i] != '>' && n[i] != '\n' by {
        if pre_match(n, pat_dashdash(), false) && n.len() < 2 { lemma_viable_chars(n, pat_dashdash(), false, i); }
        else if pre_match(n, pat_doctype(), true) && n.len() < 7 { lemma_viable_chars(n, pat_doctype(), true, i); }
        else { lemma_viable_chars(n, pat_cdata(), false, i); }
    }
    reveal(eof_step1);
    let y = run(b, n);
    if n.len() == 0 {
        reveal_with_fuel(run, 1); reveal_with_fuel(reprocess, 1);
        assert(y == b);
        assert(eof1(x) == y);
    } else {
        lemma_bogus_reprocess(b, n);
        assert(pre_step(b, n.last()) == b);
        assert(eof1(x) == y);
    }
    lemma_reprocess_bogus_state(b, n);
    if n.len() == 0 { reveal_with_fuel(reprocess, 1); }
    assert(y.state == State::BogusComment);
    // BogusComment --eof--> Data, which is a fixpoint of eof1
    assert(eof1(eof1(y)) == eof1(y));
}
pub open spec fn adn_pat(p: Seq<char>) -> bool { p == pat_public() || p == pat_system() }
pub proof fn lemma_adn_true(a: AbsTok, p: Seq<char>, pat: Seq<char>)
    requires look_viable(a), a.state == State::AfterDoctypeName, adn_pat(pat), m_true(a.temp + p, pat, true),
    ensures run(a, p) == run(adn_target(a, (a.temp + p).take(pat.len() as int)), (a.temp + p).skip(pat.len() as int)),
{
    reveal(mdo_viable); reveal(adn_viable);
    lemma_pats();
    let n = a.temp + p;
    let m = pat.len() as int;
    let h = n.take(m);
    assert(h[0] == n[0]);
    assert(a.temp.len() < m);
    let q = p.take(m - a.temp.len());
    assert(a.temp + q =~= h);
    assert(p =~= q + p.skip(m - a.temp.len()));
    assert(p.skip(m - a.temp.len()) =~= n.skip(m));
    lemma_adn_hit(a, q);
    lemma_run_concat(a, q, n.skip(m));
}
/// end of input with an undecided keyword look-ahead (e.g. "<!DOCTYPE x pub" EOF)
pub proof fn lemma_adn_eof(a: AbsTok, p: Seq<char>)
    requires look_viable(a), a.state == State::AfterDoctypeName, adn_viable(a.temp + p), (a.temp + p).len() > 0,
    ensures eof_close(run(a, p)) == eof_close(run(bogusdt_init(a), a.temp + p)),
{
    reveal(mdo_viable); reveal(adn_viable);
    lemma_pats();
    let n = a.temp + p;
    lemma_adn_feed(a, p);
    let x = AbsTok { temp: n, ..a };
    let b = bogusdt_init(a);
    assert forall|i: int| 0 <= i < n.len() implies #[trigger] n[i] != '>' && n[i] != '\n' by {
        if pre_match(n, pat_public(), true) { lemma_viable_chars(n, pat_public(), true, i); }
        else { lemma_viable_chars(n, pat_system(), true, i); }
    }
    lemma_bogusdt_reprocess(b, n);
    assert(pre_step(b, n.last()) == b);
    lemma_reprocess_bogusdt(b, n);
    reveal(eof_step1);
    assert(run(b, n) == b);
    assert(eof1(x) == eof1(b));
}
pub proof fn lemma_reprocess_bogusdt(b: AbsTok, l: Seq<char>)
    requires b.state == State::BogusDoctype, forall|i: int| 0 <= i < l.len() ==> #[trigger] l[i] != '>',
    ensures reprocess(b, l) == b,
    decreases l.len(),
{
    reveal_with_fuel(reprocess, 2); reveal(s_simple); reveal(s_bogus_doctype);
    if l.len() > 0 {
        assert(l[0] != '>');
        assert forall|i: int| 0 <= i < l.drop_first().len() implies #[trigger] l.drop_first()[i] != '>' by { assert(l.drop_first()[i] == l[i + 1]); }
        lemma_reprocess_bogusdt(b, l.drop_first());
    }
}

/// after DOCTYPE name with an empty look-ahead buffer: white space and '>'
pub proof fn lemma_adn_char(a: AbsTok, c: char)
    requires a.state == State::AfterDoctypeName, a.cr is None, a.temp.len() == 0,
    ensures
        is_ws(c) ==> spec_step(a, c) == pre_step(a, c),
        c == '>' ==> spec_step(a, c) == st(emit_doctype(pre_step(a, c)), State::Data),
{
    reveal(spec_step); reveal(s_after_doctype_name);
}
/// the `_ =>` branch of the after-DOCTYPE-name arm: force-quirks and reconsume in the bogus DOCTYPE state
pub proof fn lemma_adn_else(a1: AbsTok, c: char, rest: Seq<char>, eof: bool)
    requires look_viable(a1), a1.state == State::AfterDoctypeName, a1.temp.len() == 0, !is_ws(c), c != '>',
        m_false(seq![c] + rest, pat_public(), true) || (eof && m_none(seq![c] + rest, pat_public(), true)),
        m_false(seq![c] + rest, pat_system(), true) || (eof && m_none(seq![c] + rest, pat_system(), true)),
    ensures ({
        let x = AbsTok { recons: true, ..bogusdt_init(pre_step(a1, c)) };
        let lhs = run(a1, seq![c] + rest);
        let rhs = run(spec_step(x, c), rest);
        (if eof { eof_close(lhs) == eof_close(rhs) } else { lhs == rhs })
    }),
{
    reveal(mdo_viable); reveal(adn_viable);
    let n = seq![c] + rest;
    let b = bogusdt_init(a1);
    assert(a1.temp + n =~= n);
    assert(a1.temp =~= Seq::<char>::empty());
    lemma_run_cons(b, c, rest);
    reveal(spec_step);
    assert(c != '\n');
    assert(spec_step(AbsTok { recons: true, ..bogusdt_init(pre_step(a1, c)) }, c) == spec_step(b, c));
    if m_false(n, pat_public(), true) && m_false(n, pat_system(), true) {
        assert(n[0] == c);
        lemma_adn_miss(a1, n);
    } else {
        lemma_adn_eof(a1, n);
    }
}

// ---- data state SIMD fast path: a run that may contain LF (counted in bulk) ----
pub open spec fn count_lf(s: Seq<char>) -> int
    decreases s.len()
{
    if s.len() == 0 { 0 } else { (if s[0] == '\n' { 1int } else { 0int }) + count_lf(s.drop_first()) }
}
pub open spec fn data_plain(c: char) -> bool { c != '<' && c != '&' && c != '\r' && c != '\0' }
pub open spec fn all_data_plain(s: Seq<char>) -> bool { forall|i: int| 0 <= i < s.len() ==> data_plain(#[trigger] s[i]) }
pub proof fn lemma_norm_nocr(s: Seq<char>, rest: Seq<char>)
    requires forall|i: int| 0 <= i < s.len() ==> #[trigger] s[i] != '\r',
    ensures norm(false, s + rest) == s + norm(false, rest),
    decreases s.len(),
{
    reveal_with_fuel(norm, 2);
    if s.len() == 0 {
        assert(s + rest =~= rest);
        assert(s + norm(false, rest) =~= norm(false, rest));
    } else {
        assert((s + rest).drop_first() =~= s.drop_first() + rest);
        assert(s[0] != '\r');
        assert forall|i: int| 0 <= i < s.drop_first().len() implies #[trigger] s.drop_first()[i] != '\r' by { assert(s.drop_first()[i] == s[i + 1]); }
        lemma_norm_nocr(s.drop_first(), rest);
        assert(seq![s[0]] + (s.drop_first() + norm(false, rest)) =~= s + norm(false, rest));
    }
}
pub proof fn lemma_run_data_lf(a: AbsTok, x: Seq<char>)
    requires a.state == State::Data, a.cr is None, !a.recons, all_data_plain(x),
    ensures run(a, x) == (AbsTok { line: a.line + count_lf(x), ..emit_seq(a, x) }),
    decreases x.len(),
{
    reveal_with_fuel(run, 2);
    reveal(spec_step); reveal(s_simple); reveal(s_data);
    if x.len() == 0 {
        assert(a.out + chars_out(x) =~= a.out);
    } else {
        assert(data_plain(x[0]));
        let a2 = emit_ch(pre_step(a, x[0]), x[0]);
        assert(spec_step(a, x[0]) == a2);
        assert forall|i: int| 0 <= i < x.drop_first().len() implies data_plain(#[trigger] x.drop_first()[i]) by { assert(x.drop_first()[i] == x[i + 1]); }
        lemma_run_data_lf(a2, x.drop_first());
        assert(a.out.push(Out { tok: OutTok::Char(x[0]), line: 0 }) + chars_out(x.drop_first()) =~= a.out + chars_out(x));
    }
}

pub proof fn lemma_viable_empty(a: AbsTok)
    ensures mdo_viable(a, Seq::<char>::empty()), adn_viable(Seq::<char>::empty()),
{
    reveal(mdo_viable); reveal(adn_viable);
}
