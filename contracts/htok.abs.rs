// ======================================================================================
// abstraction function, well-formedness and simulation measure for the real Tokenizer
// (hand-written specification; mentions only fields of the extracted struct)
// ======================================================================================
// ---- character-reference sub-tokenizer: abstract state = its fields ----
pub struct AbsCr {
    pub state: CrState,
    pub in_attr: bool,
    pub num: u32,
    pub too_big: bool,
    pub seen_digit: bool,
    pub hex_marker: Option<char>,
    pub name: Option<Seq<char>>,
    pub name_match: Option<(u32, u32)>,
    pub name_len: int,
}
/// phase 1: the character-reference sub-machine is specified in charref.spec.rs
pub uninterp spec fn cr_step(a: AbsTok, c: char) -> AbsTok;
pub open spec fn cr_new(in_attr: bool) -> AbsCr {
    AbsCr { state: CrState::Begin, in_attr, num: 0, too_big: false, seen_digit: false, hex_marker: None,
            name: None, name_match: None, name_len: 0 }
}
pub open spec fn abs_attrs(v: Seq<Attribute>) -> Seq<AbsAttr> {
    Seq::new(v.len(), |i: int| AbsAttr { name: v[i].name.local@, value: v[i].value@ })
}
pub open spec fn abs_opt(o: Option<StrTendril>) -> Option<Seq<char>> {
    match o { Some(t) => Some(t@), None => None }
}
pub open spec fn abs_doctype(d: Doctype) -> AbsDoctype {
    AbsDoctype { name: abs_opt(d.name), public_id: abs_opt(d.public_id), system_id: abs_opt(d.system_id), force_quirks: d.force_quirks }
}
impl CharRefTokenizer {
    pub closed spec fn abs(&self) -> AbsCr {
        AbsCr { state: self.state, in_attr: self.is_consumed_in_attribute, num: self.num, too_big: self.num_too_big,
                seen_digit: self.seen_digit, hex_marker: self.hex_marker, name: abs_opt(self.name_buf_opt),
                name_match: self.name_match, name_len: self.name_len as int }
    }
}
pub open spec fn abs_cr_opt(o: Option<CharRefTokenizer>) -> Option<AbsCr> {
    match o { Some(t) => Some(t.abs()), None => None }
}
/// states in which the temporary buffer is known to be empty
pub open spec fn temp_free(s: State) -> bool {
    !(s is RawData || s is RawLessThanSign || s is RawEndTagOpen || s is RawEndTagName
      || s is ScriptDataEscapeStart || s is ScriptDataEscapeStartDash || s is ScriptDataEscapedDash
      || s is ScriptDataEscapedDashDash || s is ScriptDataDoubleEscapeEnd || s is MarkupDeclarationOpen
      || s is AfterDoctypeName || s is CdataSection || s is CdataSectionBracket || s is CdataSectionEnd
      || s is Plaintext)
}
pub open spec fn cr_host_state(s: State) -> bool {
    s == State::Data || s == State::RawData(RawKind::Rcdata) || s is AttributeValue
}
/// representation invariant, stated on the abstract state
pub open spec fn wf_abs(a: AbsTok) -> bool {
    &&& temp_free(a.state) ==> a.temp.len() == 0
    &&& forall|i: int| 0 <= i < a.temp.len() ==> #[trigger] a.temp[i] != '\0'
    &&& a.cr.is_some() ==> cr_host_state(a.state) && !a.recons
}
impl Tokenizer {
    pub closed spec fn abs(&self) -> AbsTok {
        AbsTok {
            state: self.state.v,
            recons: self.reconsume.v,
            temp: self.temp_buf.v@,
            tag_kind: self.current_tag_kind.v,
            tag_name: self.current_tag_name.v@,
            self_closing: self.current_tag_self_closing.v,
            dup: self.current_tag_had_duplicate_attributes.v,
            attrs: abs_attrs(self.current_tag_attrs.v@),
            attr_name: self.current_attr_name.v@,
            attr_value: self.current_attr_value.v@,
            comment: self.current_comment.v@,
            doctype: abs_doctype(self.current_doctype.v),
            last_start: match self.last_start_tag_name.v { Some(n) => Some(n@), None => None },
            cr: abs_cr_opt(self.char_ref_tokenizer.v),
            line: self.current_line.v as int,
            out: self.sink.out@,
        }
    }
    /// the normalised, not yet consumed input (chunk boundaries do not appear in it)
    pub closed spec fn npend(&self, q: &BufferQueue) -> Seq<char> { norm(self.ignore_lf.v, q.view()) }
    /// configuration / housekeeping fields that no step may change
    pub closed spec fn same_config(&self, o: &Tokenizer) -> bool {
        self.opts == o.opts && self.at_eof.v == o.at_eof.v && self.discard_bom.v == o.discard_bom.v
    }
    pub closed spec fn wf(&self) -> bool { wf_abs(self.abs()) }
    /// The simulation measure: the final abstract state the WHATWG machine reaches on everything
    /// that is still pending.  Every operation of the tokenizer must leave it unchanged.
    pub closed spec fn sim(&self, q: &BufferQueue) -> AbsTok {
        if self.reconsume.v { run(spec_step(self.abs(), self.current_char.v), self.npend(q)) }
        else { run(self.abs(), self.npend(q)) }
    }
    /// termination measure of the loops inside `step`: characters still to be delivered
    pub closed spec fn fuel(&self, q: &BufferQueue) -> int {
        (if self.reconsume.v { 1int } else { 0int }) + q.view().len()
    }
    /// fields outside the abstraction that steps may change
    pub closed spec fn aux(&self) -> Aux {
        Aux { cur: self.current_char.v, ig: self.ignore_lf.v }
    }
    /// line-counter head-room (machine arithmetic): the line counter cannot overflow on the pending input
    pub closed spec fn line_ok(&self, q: &BufferQueue) -> bool {
        self.current_line.v as int + q.view().len() < u64::MAX as int
    }
}

pub struct Aux { pub cur: char, pub ig: bool }

// ---- token sink model: a ghost log of the flattened tokens; replies are an arbitrary function of it ----
pub struct Sink { pub out: Ghost<Seq<Out>> }
/// the sink's ghost log after receiving token `t` on line `line` (character tokens flattened,
/// parse errors not logged)
pub open spec fn log_tok(out: Seq<Out>, t: Token, line: int) -> Seq<Out> {
    match t {
        Token::DoctypeToken(d) => out.push(Out { tok: OutTok::Doctype(abs_doctype(d)), line }),
        Token::TagToken(t) => out.push(Out { tok: OutTok::Tag { kind: t.kind, name: t.name@, self_closing: t.self_closing,
                                        attrs: abs_attrs(t.attrs@), dup: t.had_duplicate_attributes }, line }),
        Token::CommentToken(c) => out.push(Out { tok: OutTok::Comment(c@), line }),
        Token::CharacterTokens(b) => out + chars_out(b@),
        Token::NullCharacterToken => out.push(Out { tok: OutTok::Null, line }),
        Token::EOFToken => out.push(Out { tok: OutTok::Eof, line }),
        Token::ParseError(_) => out,
    }
}
pub open spec fn reply_matches(r: TokenSinkResult<Handle>, s: SinkReply) -> bool {
    match r {
        TokenSinkResult::Continue => s == SinkReply::Continue,
        TokenSinkResult::Script(_) => s == SinkReply::Script,
        TokenSinkResult::Plaintext => s == SinkReply::Plaintext,
        TokenSinkResult::RawData(k) => s == SinkReply::RawData(k),
        TokenSinkResult::EncodingIndicator(_) => s == SinkReply::EncodingIndicator,
    }
}
impl Sink {
    /// ASSUMED sink behaviour ("contract-abiding sink"): the token is appended to the log; only a tag
    /// token may be answered with anything but Continue, and the answer is a function of the log.
    #[verifier::external_body]
    pub fn process_token(&mut self, token: Token, line_number: u64) -> (r: TokenSinkResult<Handle>)
        ensures
            final(self).out@ == log_tok(old(self).out@, token, line_number as int),
            token is TagToken ==> reply_matches(r, sink_reply(final(self).out@)),
            !(token is TagToken) ==> r is Continue,
    { unimplemented!() }
    #[verifier::external_body]
    pub fn end(&mut self) ensures final(self).out@ == old(self).out@ { unimplemented!() }
    #[verifier::external_body]
    pub fn adjusted_current_node_present_but_not_in_html_namespace(&self) -> (r: bool)
        ensures r == sink_cdata_ok(self.out@)
    { unimplemented!() }
}

/// ASSUMED (machine arithmetic): the u64 line counter does not reach 2^64 - 1.
#[verifier::external_body]
pub proof fn axiom_line_counter_bounded(t: &Tokenizer)
    ensures t.abs().line < u64::MAX as int,
{}

// ---- lemmas about the spec machine (proved; no code involved) ----
pub proof fn lemma_run_cons(a: AbsTok, c: char, s: Seq<char>)
    ensures run(a, seq![c] + s) == run(spec_step(a, c), s),
{
    reveal_with_fuel(run, 2);
    assert((seq![c] + s).drop_first() =~= s);
}
pub proof fn lemma_run_concat(a: AbsTok, x: Seq<char>, y: Seq<char>)
    ensures run(a, x + y) == run(run(a, x), y),
    decreases x.len(),
{
    reveal_with_fuel(run, 2);
    if x.len() == 0 {
        assert(x + y =~= y);
    } else {
        assert((x + y).drop_first() =~= x.drop_first() + y);
        lemma_run_concat(spec_step(a, x[0]), x.drop_first(), y);
    }
}
pub open spec fn no_crlf(s: Seq<char>) -> bool {
    forall|i: int| 0 <= i < s.len() ==> #[trigger] s[i] != '\r' && s[i] != '\n'
}
pub proof fn lemma_norm_plain(s: Seq<char>, rest: Seq<char>)
    requires no_crlf(s),
    ensures norm(false, s + rest) == s + norm(false, rest),
    decreases s.len(),
{
    reveal_with_fuel(norm, 2);
    if s.len() == 0 {
        assert(s + rest =~= rest);
        assert(s + norm(false, rest) =~= norm(false, rest));
    } else {
        assert((s + rest).drop_first() =~= s.drop_first() + rest);
        assert(s[0] != '\r' && s[0] != '\n');
        lemma_norm_plain(s.drop_first(), rest);
        assert(seq![s[0]] + (s.drop_first() + norm(false, rest)) =~= s + norm(false, rest));
    }
}

// ---- small-character-set facts (bit-vector proofs) ----
pub open spec fn scs3(a: u64, b: u64, c: u64) -> u64 { (1u64 << a) | (1u64 << b) | (1u64 << c) }
pub open spec fn scs4(a: u64, b: u64, c: u64, d: u64) -> u64 { (1u64 << a) | (1u64 << b) | (1u64 << c) | (1u64 << d) }
pub open spec fn scs5(a: u64, b: u64, c: u64, d: u64, e: u64) -> u64 { (1u64 << a) | (1u64 << b) | (1u64 << c) | (1u64 << d) | (1u64 << e) }
pub open spec fn scs8(a: u64, b: u64, c: u64, d: u64, e: u64, f: u64, g: u64, h: u64) -> u64 {
    (1u64 << a) | (1u64 << b) | (1u64 << c) | (1u64 << d) | (1u64 << e) | (1u64 << f) | (1u64 << g) | (1u64 << h)
}
pub proof fn lemma_scs3(a: u64, b: u64, c: u64)
    requires a < 64, b < 64, c < 64,
    ensures forall|x: u8| #[trigger] set_has(scs3(a, b, c), x) <==> (x as u64 == a || x as u64 == b || x as u64 == c),
{
    assert forall|x: u8| #[trigger] set_has(scs3(a, b, c), x) <==> (x as u64 == a || x as u64 == b || x as u64 == c) by {
        let y = x as u64;
        assert(a < 64 && b < 64 && c < 64 && y < 256 ==>
            ((y < 64 && ((((1u64 << a) | (1u64 << b) | (1u64 << c)) >> y) & 1u64) == 1u64) <==> (y == a || y == b || y == c))) by (bit_vector);
    }
}
pub proof fn lemma_scs4(a: u64, b: u64, c: u64, d: u64)
    requires a < 64, b < 64, c < 64, d < 64,
    ensures forall|x: u8| #[trigger] set_has(scs4(a, b, c, d), x) <==> (x as u64 == a || x as u64 == b || x as u64 == c || x as u64 == d),
{
    assert forall|x: u8| #[trigger] set_has(scs4(a, b, c, d), x) <==> (x as u64 == a || x as u64 == b || x as u64 == c || x as u64 == d) by {
        let y = x as u64;
        assert(a < 64 && b < 64 && c < 64 && d < 64 && y < 256 ==>
            ((y < 64 && ((((1u64 << a) | (1u64 << b) | (1u64 << c) | (1u64 << d)) >> y) & 1u64) == 1u64) <==> (y == a || y == b || y == c || y == d))) by (bit_vector);
    }
}
pub proof fn lemma_scs5(a: u64, b: u64, c: u64, d: u64, e: u64)
    requires a < 64, b < 64, c < 64, d < 64, e < 64,
    ensures forall|x: u8| #[trigger] set_has(scs5(a, b, c, d, e), x) <==> (x as u64 == a || x as u64 == b || x as u64 == c || x as u64 == d || x as u64 == e),
{
    assert forall|x: u8| #[trigger] set_has(scs5(a, b, c, d, e), x) <==> (x as u64 == a || x as u64 == b || x as u64 == c || x as u64 == d || x as u64 == e) by {
        let y = x as u64;
        assert(a < 64 && b < 64 && c < 64 && d < 64 && e < 64 && y < 256 ==>
            ((y < 64 && ((((1u64 << a) | (1u64 << b) | (1u64 << c) | (1u64 << d) | (1u64 << e)) >> y) & 1u64) == 1u64) <==> (y == a || y == b || y == c || y == d || y == e))) by (bit_vector);
    }
}
pub proof fn lemma_scs8(a: u64, b: u64, c: u64, d: u64, e: u64, f: u64, g: u64, h: u64)
    requires a < 64, b < 64, c < 64, d < 64, e < 64, f < 64, g < 64, h < 64,
    ensures forall|x: u8| #[trigger] set_has(scs8(a, b, c, d, e, f, g, h), x) <==>
        (x as u64 == a || x as u64 == b || x as u64 == c || x as u64 == d || x as u64 == e || x as u64 == f || x as u64 == g || x as u64 == h),
{
    assert forall|x: u8| #[trigger] set_has(scs8(a, b, c, d, e, f, g, h), x) <==>
        (x as u64 == a || x as u64 == b || x as u64 == c || x as u64 == d || x as u64 == e || x as u64 == f || x as u64 == g || x as u64 == h) by {
        let y = x as u64;
        assert(a < 64 && b < 64 && c < 64 && d < 64 && e < 64 && f < 64 && g < 64 && h < 64 && y < 256 ==>
            ((y < 64 && ((((1u64 << a) | (1u64 << b) | (1u64 << c) | (1u64 << d) | (1u64 << e) | (1u64 << f) | (1u64 << g) | (1u64 << h)) >> y) & 1u64) == 1u64)
             <==> (y == a || y == b || y == c || y == d || y == e || y == f || y == g || y == h))) by (bit_vector);
    }
}

// ---- runs of ordinary characters ----
pub open spec fn is_text_state(s: State) -> bool { s == State::Data || s == State::Plaintext || s is RawData }
/// c is a character that text state `s` just emits
pub open spec fn plain_text(s: State, c: char) -> bool {
    c != '\r' && c != '\n' && c != '\0' && match s {
        State::Data => c != '&' && c != '<',
        State::RawData(RawKind::Rcdata) => c != '&' && c != '<',
        State::RawData(RawKind::Rawtext) => c != '<',
        State::RawData(RawKind::ScriptData) => c != '<',
        State::RawData(RawKind::ScriptDataEscaped(_)) => c != '-' && c != '<',
        _ => true,
    }
}
pub open spec fn all_plain_text(s: State, x: Seq<char>) -> bool {
    forall|i: int| 0 <= i < x.len() ==> plain_text(s, #[trigger] x[i])
}
pub proof fn lemma_run_text(a: AbsTok, x: Seq<char>)
    requires is_text_state(a.state), a.cr is None, !a.recons, all_plain_text(a.state, x),
    ensures run(a, x) == emit_seq(a, x),
    decreases x.len(),
{
    reveal_with_fuel(run, 2);
    reveal(spec_step); reveal(s_simple); reveal(s_data); reveal(s_rcdata); reveal(s_rawtext); reveal(s_script_escaped);
    reveal(s_rawdata); reveal(s_plaintext);
    if x.len() > 0 {
        assert(plain_text(a.state, x[0]));
        assert(spec_step(a, x[0]) == emit_ch(a, x[0]));
        assert forall|i: int| 0 <= i < x.drop_first().len() implies plain_text(a.state, #[trigger] x.drop_first()[i]) by {
            assert(x.drop_first()[i] == x[i + 1]);
        }
        lemma_run_text(emit_ch(a, x[0]), x.drop_first());
        assert(a.out.push(Out { tok: OutTok::Char(x[0]), line: 0 }) + chars_out(x.drop_first()) =~= a.out + chars_out(x));
    } else {
        assert(a.out + chars_out(x) =~= a.out);
    }
}
pub open spec fn plain_attr(k: AttrValueKind, c: char) -> bool {
    c != '\r' && c != '\n' && c != '\0' && c != '&' && match k {
        AttrValueKind::DoubleQuoted => c != '"',
        AttrValueKind::SingleQuoted => c != '\'',
        AttrValueKind::Unquoted => c != '\t' && c != '\x0C' && c != ' ' && c != '>',
    }
}
pub open spec fn all_plain_attr(k: AttrValueKind, x: Seq<char>) -> bool {
    forall|i: int| 0 <= i < x.len() ==> plain_attr(k, #[trigger] x[i])
}
pub proof fn lemma_run_attr(a: AbsTok, k: AttrValueKind, x: Seq<char>)
    requires a.state == State::AttributeValue(k), a.cr is None, !a.recons, all_plain_attr(k, x),
    ensures run(a, x) == (AbsTok { attr_value: a.attr_value + x, ..a }),
    decreases x.len(),
{
    reveal_with_fuel(run, 2);
    reveal(spec_step); reveal(s_simple); reveal(s_attr_value);
    if x.len() == 0 {
        assert(a.attr_value + x =~= a.attr_value);
    } else {
        assert(plain_attr(k, x[0]));
        assert(spec_step(a, x[0]) == push_value(a, x[0]));
        assert forall|i: int| 0 <= i < x.drop_first().len() implies plain_attr(k, #[trigger] x.drop_first()[i]) by {
            assert(x.drop_first()[i] == x[i + 1]);
        }
        lemma_run_attr(push_value(a, x[0]), k, x.drop_first());
        assert(a.attr_value.push(x[0]) + x.drop_first() =~= a.attr_value + x);
    }
}
