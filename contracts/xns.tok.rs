// ---- what U-xns needs of the XML tokenizer's environment (hand-written models) ----
pub struct ProfileMap { pub x: u8 }
pub struct Sink { pub x: u8 }
