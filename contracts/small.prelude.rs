// ---- hand-written specification layer for U-small (not code from /repo) ----
pub struct SmallCharSet { pub bits: u64 }

/// membership of a byte in a 64-bit small-character set (bytes >= 64 are never members)
pub open spec fn set_has(bits: u64, n: u8) -> bool {
    n < 64 && ((bits >> (n as u64)) & 1u64) == 1u64
}

/// WHATWG "ASCII lower alpha of an ASCII alpha", None for anything else
pub open spec fn spec_lower_letter(c: char) -> Option<char> {
    if 'a' <= c && c <= 'z' { Some(c) }
    else if 'A' <= c && c <= 'Z' { Some(((c as u32) + 32) as char) }
    else { None }
}

pub proof fn lemma_bit_test(b: u64, m: u64)
    requires m < 64
    ensures (0 != (b & (1u64 << m))) <==> (((b >> m) & 1u64) == 1u64)
{
    assert(m < 64 ==> ((0 != (b & (1u64 << m))) <==> (((b >> m) & 1u64) == 1u64))) by (bit_vector);
}
