// ======== the named-character-reference table as the two tokenizers see it (shared by U-htok/U-hcr and U-xcr) ========
// ---- named character references: the table content is TRUSTED (only copy is in-repo) ----
/// value of a complete entity name (without '&'), e.g. "amp;" or "amp"
pub uninterp spec fn ent_value(name: Seq<char>) -> Option<(u32, u32)>;
/// `name` is a prefix (possibly complete) of some entity name
pub uninterp spec fn ent_prefix(name: Seq<char>) -> bool;
/// R19 model of `NAMED_ENTITIES.get(..)` (ASSUMED; re-validated by enumeration of the generated table)
#[verifier::external_body]
pub fn named_entities_get(name: &str) -> (r: Option<(u32, u32)>)
    ensures
        !ent_prefix(name@) ==> r.is_none(),
        ent_prefix(name@) && ent_value(name@).is_none() ==> r.is_some() && r.unwrap().0 == 0,
        ent_value(name@).is_some() ==> r.is_some() && r.unwrap() == ent_value(name@).unwrap() && r.unwrap().0 != 0,
{ unimplemented!() }

// ---- what is ASSUMED of the named-character-reference table (re-validated on every run by enumerating the
//      generated table of the build, see DESIGN.md C14) ----
#[verifier::external_body]
pub proof fn axiom_ent_table()
    ensures
        ent_prefix(Seq::<char>::empty()),
        forall|n: Seq<char>| #[trigger] ent_value(n) is Some ==> ent_prefix(n) && n.len() > 0,
        forall|n: Seq<char>, i: int| #[trigger] ent_prefix(n) && 0 <= i < n.len() ==> spec_alnum(#[trigger] n[i]) || n[i] == ';',
        forall|n: Seq<char>| #[trigger] ent_value(n) is Some ==> ent_value(n).unwrap().0 != 0
            && spec_from_u32(ent_value(n).unwrap().0) is Some && spec_from_u32(ent_value(n).unwrap().1) is Some,
{}

/// the first k characters of s are ASCII: byte offsets up to k are character offsets
pub proof fn lemma_ascii_chars(s: Seq<char>, k: nat)
    requires k <= s.len(), forall|i: int| 0 <= i < k ==> (#[trigger] s[i] as u32) < 128,
    ensures
        utf8(s.take(k as int)).len() == k,
        cidx(s, k) == k,
        is_boundary(s, k),
        utf8(s).len() == k + utf8(s.skip(k as int)).len(),
        (utf8(s).len() == k) == (s.len() == k),
    decreases k,
{
    if k == 0 {
        assert(s.take(0) =~= Seq::<char>::empty());
        assert(s.skip(0) =~= s);
        lemma_utf8_empty(s);
        if s.len() > 0 { lemma_enc(s[0]); }
    } else {
        let c = s[0];
        let r = s.drop_first();
        lemma_enc(c);
        assert((c as u32) < 128);
        assert forall|i: int| 0 <= i < k - 1 implies (#[trigger] r[i] as u32) < 128 by { assert(r[i] == s[i + 1]); }
        lemma_ascii_chars(r, (k - 1) as nat);
        assert(s.take(k as int) =~= seq![c] + r.take(k - 1));
        assert((seq![c] + r.take(k - 1)).drop_first() =~= r.take(k - 1));
        assert(s.skip(k as int) =~= r.skip(k - 1));
        assert(utf8(s) =~= enc(c) + utf8(r));
        assert(s.take(cidx(s, k) as int) =~= s.take(k as int));
    }
}
