// ======== U-trace prelude (hand-written model types) ========
pub struct Cell<T> { pub v: T }
pub struct RefCell<T> { pub v: T }
impl<T> RefCell<T> {
    pub fn borrow(&self) -> (r: &T) ensures *r == self.v { &self.v }
}
pub struct Handle { pub id: u64 }
impl View for Handle { type V = u64; open spec fn view(&self) -> u64 { self.id } }
pub struct Sink { pub x: u8 }
pub struct Tag { pub x: u8 }
pub struct StrTendril { pub x: u8 }
pub struct TreeBuilderOpts { pub x: u8 }
pub struct XmlTreeBuilderOpts { pub x: u8 }
pub struct InsertionMode { pub x: u8 }
pub struct SplitStatus { pub x: u8 }
pub struct QuirksMode { pub x: u8 }
pub struct NamespaceMapStack { pub x: u8 }
pub struct NamespaceMap { pub x: u8 }
pub struct XmlPhase { pub x: u8 }
/// model of a `Tracer`: the set of handles it has been shown
pub struct Tracer { pub seen: Ghost<Set<u64>> }
impl Tracer {
    #[verifier::external_body]
    pub fn trace_handle(&mut self, node: &Handle)
        ensures final(self).seen@ == old(self).seen@.insert(node@),
    { unimplemented!() }
}
