// ======================================================================================
// U-xtok specification layer (hand-written; not code from /repo).
// The XML tokenizer is specified at the level of its *normalised pending stream*:
//   pend(t, q) = [re-consumed character] ++ look-ahead buffer ++ xnorm(ignore_lf, raw queue)
// Every input primitive must deliver exactly the head of that stream whatever path (slow, fast, look-ahead,
// un-consume) the character takes, and the four fast-path states must treat a run of characters like the same
// characters delivered one by one.
// ======================================================================================
pub struct ProfileMap { pub x: u8 }
impl ProfileMap {
    #[verifier::external_body]
    pub fn get_mut(&mut self, k: &XmlState) -> (r: Option<&mut u64>) { unimplemented!() }
    #[verifier::external_body]
    pub fn insert(&mut self, k: XmlState, v: u64) { unimplemented!() }
}
pub struct Instant { pub x: u8 }
pub struct Duration { pub x: u8 }
impl Instant {
    #[verifier::external_body]
    pub fn now() -> Instant { unimplemented!() }
    #[verifier::external_body]
    pub fn elapsed(&self) -> Duration { unimplemented!() }
}
impl Duration {
    #[verifier::external_body]
    pub fn as_nanos(&self) -> u128 { unimplemented!() }
}
impl BufferQueue {
    #[verifier::external_body]
    pub fn default() -> (r: BufferQueue) ensures r.wf(), r.view() == Seq::<char>::empty() { unimplemented!() }
}
impl Doctype {
    pub fn default() -> (r: Doctype)
        ensures r.name.is_none(), r.public_id.is_none(), r.system_id.is_none(),
    { Doctype { name: None, public_id: None, system_id: None } }
}
impl RefCell<Doctype> {
    pub fn take(&mut self) -> (r: Doctype) ensures r == old(self).v,
        final(self).v.name.is_none(), final(self).v.public_id.is_none(), final(self).v.system_id.is_none(),
    {
        let mut x = Doctype::default(); std::mem::swap(&mut self.v, &mut x); x
    }
}
impl RefCell<StrTendril> {
    pub fn take(&mut self) -> (r: StrTendril) ensures r@ == old(self).v@, final(self).v@ == Seq::<char>::empty() {
        self.v.take()
    }
}
impl RefCell<Vec<Attribute>> {
    #[verifier::external_body]
    pub fn take(&mut self) -> (r: Vec<Attribute>) ensures r@ == old(self).v@, final(self).v@ == Seq::<Attribute>::empty() { unimplemented!() }
}
/// std::mem::replace(dst, StrTendril::new()) (rule R16)
pub fn replace_tendril(dst: &mut StrTendril, src: StrTendril) -> (r: StrTendril)
    ensures r@ == old(dst)@, final(dst)@ == src@,
{
    let mut s = src; std::mem::swap(dst, &mut s); s
}
/// ASSUMED: qualified-name splitting and atom interning (covered by unit u_qname, property C16)
#[verifier::external_body]
pub fn process_qname(tag_name: StrTendril) -> (r: QualName) { unimplemented!() }
/// R18 model of `.iter().any(|a| &*a.name.local == name)` (ASSUMED)
#[verifier::external_body]
pub fn attrs_contain_name(attrs: &Vec<Attribute>, name: &StrTendril) -> (r: bool) { unimplemented!() }
/// ASSUMED: `qname.local == local_name!("xmlns") || qname.prefix == Some(namespace_prefix!("xmlns"))` (atom comparison)
#[verifier::external_body]
pub fn qname_is_xmlns(q: &QualName) -> (r: bool) { unimplemented!() }
impl QualName {
    #[verifier::external_body]
    pub fn clone(&self) -> (r: QualName) ensures r == *self { unimplemented!() }
}
#[verifier::external_body]
pub fn attrs_insert0(v: &mut Vec<Attribute>, a: Attribute) ensures final(v)@ == seq![a] + old(v)@ { unimplemented!() }

// ---------------- input normalisation ----------------
pub open spec fn xch(c: char) -> char { if c == '\0' { '\u{FFFD}' } else { c } }
/// CR / CRLF -> LF and NUL -> U+FFFD, given whether the previous raw character was a CR
#[verifier::opaque]
pub open spec fn xnorm(ig: bool, s: Seq<char>) -> Seq<char>
    decreases s.len()
{
    if s.len() == 0 { Seq::<char>::empty() }
    else if s[0] == '\r' { seq!['\n'] + xnorm(true, s.drop_first()) }
    else if s[0] == '\n' && ig { xnorm(false, s.drop_first()) }
    else { seq![xch(s[0])] + xnorm(false, s.drop_first()) }
}
/// characters that preprocessing leaves alone when no CR is pending
pub open spec fn raw_ok(c: char) -> bool { c != '\r' && c != '\0' }
pub open spec fn all_raw_ok(s: Seq<char>) -> bool { forall|i: int| 0 <= i < s.len() ==> raw_ok(#[trigger] s[i]) }
/// characters that can sit in the look-ahead buffer: they matched a keyword
pub open spec fn kw_ok(c: char) -> bool { c != '\r' && c != '\0' && c != '\n' }
pub open spec fn all_kw_ok(s: Seq<char>) -> bool { forall|i: int| 0 <= i < s.len() ==> kw_ok(#[trigger] s[i]) }

pub proof fn lemma_xnorm_run(s: Seq<char>, rest: Seq<char>)
    requires all_raw_ok(s),
    ensures xnorm(false, s + rest) == s + xnorm(false, rest),
    decreases s.len(),
{
    reveal_with_fuel(xnorm, 2);
    if s.len() == 0 {
        assert(s + rest =~= rest);
        assert(s + xnorm(false, rest) =~= xnorm(false, rest));
    } else {
        assert((s + rest).drop_first() =~= s.drop_first() + rest);
        assert(raw_ok(s[0]));
        assert forall|i: int| 0 <= i < s.drop_first().len() implies raw_ok(#[trigger] s.drop_first()[i]) by { assert(s.drop_first()[i] == s[i + 1]); }
        lemma_xnorm_run(s.drop_first(), rest);
        assert(seq![s[0]] + (s.drop_first() + xnorm(false, rest)) =~= s + xnorm(false, rest));
    }
}
pub proof fn lemma_xnorm_prefix(v: Seq<char>, k: int)
    requires 0 <= k <= v.len(), all_raw_ok(v.take(k)),
    ensures xnorm(false, v) == v.take(k) + xnorm(false, v.skip(k)),
{
    assert(v =~= v.take(k) + v.skip(k));
    lemma_xnorm_run(v.take(k), v.skip(k));
}
pub proof fn lemma_xnorm_len(ig: bool, s: Seq<char>)
    ensures xnorm(ig, s).len() <= s.len(), s.len() > 0 && !(ig && s[0] == '\n') ==> xnorm(ig, s).len() > 0,
    decreases s.len(),
{
    reveal_with_fuel(xnorm, 2);
    if s.len() > 0 { lemma_xnorm_len(true, s.drop_first()); lemma_xnorm_len(false, s.drop_first()); }
}

// ---------------- suffix relation on streams: "only a prefix was consumed" ----------------
pub open spec fn is_suffix(p: Seq<char>, p0: Seq<char>) -> bool {
    exists|k: int| 0 <= k <= p0.len() && p == #[trigger] p0.skip(k)
}
pub proof fn lemma_suffix_refl(p: Seq<char>) ensures is_suffix(p, p)
{ assert(p.skip(0) =~= p); }
pub proof fn lemma_suffix_step(p: Seq<char>, n: int)
    requires 0 <= n <= p.len(),
    ensures forall|p0: Seq<char>| #[trigger] is_suffix(p, p0) ==> is_suffix(p.skip(n), p0),
{
    assert forall|p0: Seq<char>| #[trigger] is_suffix(p, p0) implies is_suffix(p.skip(n), p0) by {
        let k = choose|k: int| 0 <= k <= p0.len() && p == #[trigger] p0.skip(k);
        assert(p0.skip(k).skip(n) =~= p0.skip(k + n));
    }
}

// ---------------- token log: adjacent character tokens merge (the tree builder does the same) ----------------
pub enum XOut { Text(Seq<char>), Tok(Token) }
pub open spec fn push_text(log: Seq<XOut>, s: Seq<char>) -> Seq<XOut> {
    if s.len() == 0 { log }
    else if log.len() > 0 && log.last() is Text { log.drop_last().push(XOut::Text(log.last()->Text_0 + s)) }
    else { log.push(XOut::Text(s)) }
}
pub open spec fn log_tok(log: Seq<XOut>, t: Token) -> Seq<XOut> {
    match t {
        Token::Characters(b) => push_text(log, b@),
        Token::ParseError(_) => log,
        _ => log.push(XOut::Tok(t)),
    }
}
pub proof fn lemma_push_text_assoc(log: Seq<XOut>, a: Seq<char>, b: Seq<char>)
    ensures push_text(push_text(log, a), b) == push_text(log, a + b),
{
    if a.len() == 0 { assert(a + b =~= b); }
    else if b.len() == 0 { assert(a + b =~= a); }
    else {
        let l1 = push_text(log, a);
        if log.len() > 0 && log.last() is Text {
            let t = log.last()->Text_0;
            assert(l1.drop_last() =~= log.drop_last());
            assert((t + a) + b =~= t + (a + b));
        } else {
            assert(l1.drop_last() =~= log);
        }
    }
}
pub struct Sink { pub log: Ghost<Seq<XOut>> }
impl Sink {
    /// ASSUMED sink behaviour: the token is appended to the log (character tokens merged); the reply is arbitrary
    #[verifier::external_body]
    pub fn process_token(&mut self, token: Token) -> (r: ProcessResult<Handle>)
        ensures final(self).log@ == log_tok(old(self).log@, token),
    { unimplemented!() }
    #[verifier::external_body]
    pub fn end(&mut self) ensures final(self).log@ == old(self).log@ { unimplemented!() }
}

// ---------------- abstraction of the tokenizer ----------------
/// control part: what decides how the next character is read and dispatched
/// `crok`: the character-reference sub-tokenizer, while there is one, satisfies its representation invariant
pub struct XCtl { pub state: XmlState, pub cr: bool, pub crok: bool, pub recons: bool, pub cur: char, pub ig: bool, pub temp: Seq<char> }
/// token-under-construction part
pub struct XBuf {
    pub log: Seq<XOut>, pub value: Seq<char>, pub tag_kind: TagKind, pub tag_name: Seq<char>, pub attrs: Seq<Attribute>,
    pub attr_name: Seq<char>, pub comment: Seq<char>, pub pi_target: Seq<char>, pub pi_data: Seq<char>, pub doctype: Doctype,
}
pub open spec fn cr_host(s: XmlState) -> bool { s == XmlState::Data || s == XmlState::Cdata || s is TagAttrValue }
pub open spec fn look_state(s: XmlState) -> bool { s == XmlState::MarkupDecl || s == XmlState::AfterDoctypeName }
pub open spec fn wf_ctl(c: XCtl) -> bool {
    &&& (c.temp.len() > 0 ==> look_state(c.state) && !c.ig)
    &&& all_kw_ok(c.temp)
    &&& (look_state(c.state) ==> !c.recons)
    // a character reference starts right after '&' was read: no CR is pending and nothing is to be re-consumed (U-xcr (N))
    &&& (c.cr ==> cr_host(c.state) && !c.ig && !c.recons && c.crok)
    &&& (c.ig ==> c.cur == '\n')
    &&& (c.recons ==> c.cur != '\r' && c.cur != '\0')
}
impl XmlTokenizer {
    pub closed spec fn ctl(&self) -> XCtl {
        XCtl { state: self.state.v, cr: self.char_ref_tokenizer.v.is_some(),
               crok: self.char_ref_tokenizer.v is Some ==> self.char_ref_tokenizer.v.unwrap().cwf(), recons: self.reconsume.v, cur: self.current_char.v,
               ig: self.ignore_lf.v, temp: self.temp_buf.v@ }
    }
    pub closed spec fn buf(&self) -> XBuf {
        XBuf { log: self.sink.log@, value: self.current_attr_value.v@, tag_kind: self.current_tag_kind.v, tag_name: self.current_tag_name.v@,
               attrs: self.current_tag_attrs.v@, attr_name: self.current_attr_name.v@, comment: self.current_comment.v@,
               pi_target: self.current_pi_target.v@, pi_data: self.current_pi_data.v@, doctype: self.current_doctype.v }
    }
    pub closed spec fn same_config(&self, o: &XmlTokenizer) -> bool {
        self.opts == o.opts && self.at_eof.v == o.at_eof.v && self.discard_bom.v == o.discard_bom.v
    }
    pub closed spec fn same_config_but_bom(&self, o: &XmlTokenizer) -> bool { self.opts == o.opts && self.at_eof.v == o.at_eof.v }
    pub closed spec fn bom(&self) -> bool { self.discard_bom.v }
    pub closed spec fn is_at_eof(&self) -> bool { self.at_eof.v }
    pub closed spec fn exact(&self) -> bool { self.opts.exact_errors }
    pub closed spec fn wf(&self) -> bool { wf_ctl(self.ctl()) }
    /// the BOM flag is still set only while nothing has been consumed
    pub closed spec fn fresh(&self) -> bool { self.discard_bom.v ==> !self.ignore_lf.v && !self.reconsume.v && self.temp_buf.v@.len() == 0 }
    /// the normalised pending stream (written so that the common case - nothing re-consumed, empty look-ahead
    /// buffer - is literally xnorm(..) of the queue)
    pub closed spec fn pend(&self, q: &BufferQueue) -> Seq<char> {
        let tx = if self.temp_buf.v@.len() == 0 { xnorm(self.ignore_lf.v, q.view()) } else { self.temp_buf.v@ + xnorm(self.ignore_lf.v, q.view()) };
        if self.reconsume.v { seq![self.current_char.v] + tx } else { tx }
    }
    /// the pending stream as feed() sees it: a U+FEFF that is the very first character of the whole stream is not input
    pub closed spec fn pend_feed(&self, q: &BufferQueue) -> Seq<char> {
        let p = self.pend(q);
        if self.discard_bom.v && p.len() > 0 && p[0] == '\u{feff}' { p.drop_first() } else { p }
    }
    pub closed spec fn fuel(&self, q: &BufferQueue) -> int {
        (if self.reconsume.v { 1int } else { 0int }) + q.view().len() + self.temp_buf.v@.len()
    }
}

// ---------------- fast-path states: what one character does on the slow path ----------------
pub open spec fn fast_state(s: XmlState) -> bool { s == XmlState::Data || s is TagAttrValue }
/// characters that the slow path of state `s` merely appends (to the text / to the attribute value)
pub open spec fn fast_plain(s: XmlState, c: char) -> bool {
    match s {
        XmlState::Data => c != '&' && c != '<',
        XmlState::TagAttrValue(AttrValueKind::DoubleQuoted) => c != '"' && c != '&',
        XmlState::TagAttrValue(AttrValueKind::SingleQuoted) => c != '\'' && c != '&',
        XmlState::TagAttrValue(AttrValueKind::Unquoted) => c != '\t' && c != '\n' && c != ' ' && c != '&' && c != '>',
        _ => false,
    }
}
pub open spec fn all_fast_plain(s: XmlState, x: Seq<char>) -> bool { forall|i: int| 0 <= i < x.len() ==> fast_plain(s, #[trigger] x[i]) }
/// the token-under-construction part after the slow path has appended the characters `x` in state `s`
pub open spec fn fast_append(s: XmlState, b: XBuf, x: Seq<char>) -> XBuf {
    if s == XmlState::Data { XBuf { log: push_text(b.log, x), ..b } } else { XBuf { value: b.value + x, ..b } }
}
pub proof fn lemma_fast_append(s: XmlState, b: XBuf, x: Seq<char>, y: Seq<char>)
    ensures fast_append(s, fast_append(s, b, x), y) == fast_append(s, b, x + y),
{
    if s == XmlState::Data { lemma_push_text_assoc(b.log, x, y); } else { assert((b.value + x) + y =~= b.value + (x + y)); }
}
pub proof fn lemma_fast_append_empty(s: XmlState, b: XBuf)
    ensures fast_append(s, b, Seq::<char>::empty()) == b,
{
    assert(b.value + Seq::<char>::empty() =~= b.value);
}

// ---------------- small-character-set facts (bit-vector proofs) ----------------
pub open spec fn bit(a: u64) -> u64 { 1u64 << a }
pub proof fn lemma_bits(b: u64, m: u64)
    requires m < 64
    ensures ((b >> m) & 1u64) == 1u64 <==> (b & (1u64 << m)) != 0,
{
    assert(m < 64 ==> (((b >> m) & 1u64) == 1u64 <==> (b & (1u64 << m)) != 0)) by (bit_vector);
}

// ---------------- look-ahead: BufferQueue::eat's byte-level answer read at the character level ----------------
/// ASCII case-insensitive equality of an input character with an ASCII pattern character
pub open spec fn xm(c: char, p: char) -> bool { (c as u32) < 128 && lower_u8(c as u8) == lower_u8(p as u8) }
pub open spec fn pre_m(l: Seq<char>, p: Seq<char>) -> bool { l.len() <= p.len() && forall|i: int| 0 <= i < l.len() ==> xm(#[trigger] l[i], p[i]) }
pub open spec fn xpat_ok(p: Seq<char>) -> bool {
    p.len() > 0 && forall|i: int| 0 <= i < p.len() ==> (#[trigger] p[i] as u32) < 128 && p[i] != '\n' && p[i] != '\r' && p[i] != '\0'
}
/// the stream n begins with the keyword / is a proper prefix of it
pub open spec fn mt(n: Seq<char>, p: Seq<char>) -> bool { n.len() >= p.len() && pre_m(n.take(p.len() as int), p) }
pub open spec fn mn(n: Seq<char>, p: Seq<char>) -> bool { n.len() < p.len() && pre_m(n, p) }
pub open spec fn eq_ci<F: Fn(&u8, &u8) -> bool>(eq: F) -> bool {
    (forall|a: &u8, b: &u8| #[trigger] eq.requires((a, b)))
    && (forall|a: u8, b: u8, r: bool| #[trigger] eq.ensures((&a, &b), r) ==> r == (lower_u8(a) == lower_u8(b)))
}
/// ASSUMED: the UTF-8 encoding of an ASCII string is its characters (links vstd's str::spec_bytes to the character view)
#[verifier::external_body]
pub proof fn axiom_ascii_bytes(s: &str)
    requires forall|i: int| 0 <= i < s@.len() ==> (#[trigger] s@[i] as u32) < 128,
    ensures s.spec_bytes().len() == s@.len(), forall|i: int| 0 <= i < s@.len() ==> #[trigger] s.spec_bytes()[i] == s@[i] as u8,
{}
pub proof fn lemma_pre_m_kw(l: Seq<char>, p: Seq<char>)
    requires pre_m(l, p), xpat_ok(p),
    ensures all_kw_ok(l), all_raw_ok(l),
{
    assert forall|i: int| 0 <= i < l.len() implies kw_ok(#[trigger] l[i]) && raw_ok(l[i]) by {
        assert(xm(l[i], p[i]));
        assert((p[i] as u32) < 128 && p[i] != '\n' && p[i] != '\r' && p[i] != '\0');
    }
}
pub proof fn lemma_utf8_after_ascii(s: Seq<char>, k: nat)
    requires k < s.len(), forall|i: int| 0 <= i < k ==> (#[trigger] s[i] as u32) < 128,
    ensures
        k < utf8(s).len(),
        forall|i: int| 0 <= i < k ==> #[trigger] utf8(s)[i] == s[i] as u8,
        (s[k as int] as u32) < 128 ==> utf8(s)[k as int] == s[k as int] as u8,
        (s[k as int] as u32) >= 128 ==> utf8(s)[k as int] >= 128,
    decreases k,
{
    lemma_enc(s[0]);
    assert(utf8(s) =~= enc(s[0]) + utf8(s.drop_first()));
    if k > 0 {
        assert forall|i: int| 0 <= i < k - 1 implies (#[trigger] s.drop_first()[i] as u32) < 128 by { assert(s.drop_first()[i] == s[i + 1]); }
        lemma_utf8_after_ascii(s.drop_first(), (k - 1) as nat);
        assert((s[0] as u32) < 128);
        assert forall|i: int| 0 <= i < k implies #[trigger] utf8(s)[i] == s[i] as u8 by {
            if i > 0 { assert(utf8(s)[i] == utf8(s.drop_first())[i - 1]); assert(s[i] == s.drop_first()[i - 1]); }
        }
        assert(utf8(s)[k as int] == utf8(s.drop_first())[k - 1]);
        assert(s[k as int] == s.drop_first()[k - 1]);
    }
}
pub proof fn lemma_utf8_len_ge(s: Seq<char>)
    ensures utf8(s).len() >= s.len(),
    decreases s.len(),
{
    if s.len() > 0 { lemma_enc(s[0]); lemma_utf8_len_ge(s.drop_first()); }
}
/// character-level reading of BufferQueue::eat's byte-level answer on the raw view `v`
pub proof fn lemma_xeat_chars<F: Fn(&u8, &u8) -> bool>(v: Seq<char>, pb: Seq<u8>, pc: Seq<char>, eq: F, r: Option<bool>)
    requires
        xpat_ok(pc), pb.len() == pc.len(), forall|i: int| 0 <= i < pc.len() ==> #[trigger] pb[i] == pc[i] as u8,
        eq_ci(eq), eat_result(utf8(v), pb, eq, r),
    ensures
        r == Some(true) ==> v.len() >= pc.len() && pre_m(v.take(pc.len() as int), pc),
        r == Some(false) ==> exists|k: int| 0 <= k < pc.len() && k < v.len() && pre_m(v.take(k), pc) && !xm(#[trigger] v[k], pc[k]),
        r is None ==> v.len() < pc.len() && pre_m(v, pc),
{
    let b = utf8(v);
    lemma_utf8_len_ge(v);
    let m: int = match r { Some(true) => pb.len() as int, Some(false) => choose|k: int| 0 <= k < pb.len() && k < b.len()
            && (forall|i: int| 0 <= i < k ==> #[trigger] eq_at(eq, b, pb, i, true)) && eq_at(eq, b, pb, k, false), None => b.len() as int };
    assert forall|i: int| 0 <= i < m implies #[trigger] b[i] < 128 && lower_u8(b[i]) == lower_u8(pb[i]) by {
        assert(eq_at(eq, b, pb, i, true));
        assert(eq.ensures((&b[i], &pb[i]), true));
        assert((pc[i] as u32) < 128);
    }
    lemma_ascii_prefix(v, m as nat);
    assert forall|i: int| 0 <= i < m implies xm(#[trigger] v[i], pc[i]) by {
        assert(b[i] < 128 && lower_u8(b[i]) == lower_u8(pb[i]));
        assert(b[i] == v[i] as u8);
    }
    match r {
        Some(true) => {
            assert forall|i: int| 0 <= i < v.take(m).len() implies xm(#[trigger] v.take(m)[i], pc[i]) by {
                assert(v.take(m)[i] == v[i]); assert(xm(v[i], pc[i]));
            }
        },
        Some(false) => {
            assert(m < v.len()) by { lemma_utf8_empty(v.skip(m)); lemma_utf8_concat(v.take(m), v.skip(m)); assert(v =~= v.take(m) + v.skip(m)); }
            lemma_utf8_after_ascii(v, m as nat);
            assert(eq_at(eq, b, pb, m, false));
            assert(eq.ensures((&b[m], &pb[m]), false));
            assert(!xm(v[m], pc[m])) by {
                assert((pc[m] as u32) < 128);
                if (v[m] as u32) < 128 { assert(b[m] == v[m] as u8); }
            }
            assert forall|i: int| 0 <= i < v.take(m).len() implies xm(#[trigger] v.take(m)[i], pc[i]) by {
                assert(v.take(m)[i] == v[i]); assert(xm(v[i], pc[i]));
            }
        },
        None => {
            assert(v.len() == m) by {
                if m < v.len() { lemma_utf8_concat(v.take(m), v.skip(m)); assert(v =~= v.take(m) + v.skip(m)); lemma_utf8_empty(v.skip(m)); }
            }
            assert forall|i: int| 0 <= i < v.len() implies xm(#[trigger] v[i], pc[i]) by { assert(xm(v[i], pc[i])); }
        },
    }
}
/// from the raw comparison of v (no CR pending) to the comparison of its normalisation
pub proof fn lemma_xlook_norm(v: Seq<char>, pc: Seq<char>, r: Option<bool>)
    requires xpat_ok(pc),
        r == Some(true) ==> v.len() >= pc.len() && pre_m(v.take(pc.len() as int), pc),
        r == Some(false) ==> exists|k: int| 0 <= k < pc.len() && k < v.len() && pre_m(v.take(k), pc) && !xm(#[trigger] v[k], pc[k]),
        r is None ==> v.len() < pc.len() && pre_m(v, pc),
    ensures
        r == Some(true) ==> mt(xnorm(false, v), pc) && xnorm(false, v).skip(pc.len() as int) == xnorm(false, v.skip(pc.len() as int)),
        r == Some(false) ==> !mt(xnorm(false, v), pc) && !mn(xnorm(false, v), pc),
        r is None ==> mn(xnorm(false, v), pc) && xnorm(false, v) == v,
{
    let n = xnorm(false, v);
    let m = pc.len() as int;
    match r {
        Some(true) => {
            lemma_pre_m_kw(v.take(m), pc);
            lemma_xnorm_prefix(v, m);
            assert(n.take(m) =~= v.take(m));
            assert(n.skip(m) =~= xnorm(false, v.skip(m)));
        },
        Some(false) => {
            let k = choose|k: int| 0 <= k < pc.len() && k < v.len() && pre_m(v.take(k), pc) && !xm(#[trigger] v[k], pc[k]);
            lemma_pre_m_kw(v.take(k), pc);
            lemma_xnorm_prefix(v, k);
            reveal_with_fuel(xnorm, 2);
            let w = v.skip(k);
            assert(w[0] == v[k]);
            let nk = xnorm(false, w);
            assert(nk.len() > 0 && (nk[0] == v[k] || (v[k] == '\r' && nk[0] == '\n') || (v[k] == '\0' && nk[0] == '\u{FFFD}')));
            assert(n[k] == nk[0]);
            assert(!xm(n[k], pc[k])) by { assert(pc[k] != '\n' && (pc[k] as u32) < 128); }
            assert(n.len() > k);
            if mt(n, pc) { assert(n.take(m)[k] == n[k]); assert(xm(n.take(m)[k], pc[k])); }
            if mn(n, pc) { assert(xm(n[k], pc[k])); }
        },
        None => {
            lemma_pre_m_kw(v, pc);
            assert(v.take(v.len() as int) =~= v);
            lemma_xnorm_prefix(v, v.len() as int);
            reveal_with_fuel(xnorm, 2);
            assert(v.skip(v.len() as int) =~= Seq::<char>::empty());
            assert(n =~= v);
        },
    }
}

pub open spec fn scs4(a: u64, b: u64, c: u64, d: u64) -> u64 { (1u64 << a) | (1u64 << b) | (1u64 << c) | (1u64 << d) }
pub open spec fn scs5(a: u64, b: u64, c: u64, d: u64, e: u64) -> u64 { (1u64 << a) | (1u64 << b) | (1u64 << c) | (1u64 << d) | (1u64 << e) }
pub open spec fn scs7(a: u64, b: u64, c: u64, d: u64, e: u64, f: u64, g: u64) -> u64 {
    (1u64 << a) | (1u64 << b) | (1u64 << c) | (1u64 << d) | (1u64 << e) | (1u64 << f) | (1u64 << g)
}
pub proof fn lemma_scs4(a: u64, b: u64, c: u64, d: u64)
    requires a < 64, b < 64, c < 64, d < 64,
    ensures forall|x: u8| #[trigger] set_has(scs4(a, b, c, d), x) <==> (x as u64 == a || x as u64 == b || x as u64 == c || x as u64 == d),
{
    assert forall|x: u8| #[trigger] set_has(scs4(a, b, c, d), x) <==> (x as u64 == a || x as u64 == b || x as u64 == c || x as u64 == d) by {
        let y = x as u64;
        assert(a < 64 && b < 64 && c < 64 && d < 64 && y < 256 ==>
            ((y < 64 && ((((1u64 << a) | (1u64 << b) | (1u64 << c) | (1u64 << d)) >> y) & 1u64) == 1u64) <==> (y == a || y == b || y == c || y == d))) by (bit_vector);
    }
}
pub proof fn lemma_scs5(a: u64, b: u64, c: u64, d: u64, e: u64)
    requires a < 64, b < 64, c < 64, d < 64, e < 64,
    ensures forall|x: u8| #[trigger] set_has(scs5(a, b, c, d, e), x) <==> (x as u64 == a || x as u64 == b || x as u64 == c || x as u64 == d || x as u64 == e),
{
    assert forall|x: u8| #[trigger] set_has(scs5(a, b, c, d, e), x) <==> (x as u64 == a || x as u64 == b || x as u64 == c || x as u64 == d || x as u64 == e) by {
        let y = x as u64;
        assert(a < 64 && b < 64 && c < 64 && d < 64 && e < 64 && y < 256 ==>
            ((y < 64 && ((((1u64 << a) | (1u64 << b) | (1u64 << c) | (1u64 << d) | (1u64 << e)) >> y) & 1u64) == 1u64) <==> (y == a || y == b || y == c || y == d || y == e))) by (bit_vector);
    }
}
pub proof fn lemma_scs7(a: u64, b: u64, c: u64, d: u64, e: u64, f: u64, g: u64)
    requires a < 64, b < 64, c < 64, d < 64, e < 64, f < 64, g < 64,
    ensures forall|x: u8| #[trigger] set_has(scs7(a, b, c, d, e, f, g), x) <==>
        (x as u64 == a || x as u64 == b || x as u64 == c || x as u64 == d || x as u64 == e || x as u64 == f || x as u64 == g),
{
    assert forall|x: u8| #[trigger] set_has(scs7(a, b, c, d, e, f, g), x) <==>
        (x as u64 == a || x as u64 == b || x as u64 == c || x as u64 == d || x as u64 == e || x as u64 == f || x as u64 == g) by {
        let y = x as u64;
        assert(a < 64 && b < 64 && c < 64 && d < 64 && e < 64 && f < 64 && g < 64 && y < 256 ==>
            ((y < 64 && ((((1u64 << a) | (1u64 << b) | (1u64 << c) | (1u64 << d) | (1u64 << e) | (1u64 << f) | (1u64 << g)) >> y) & 1u64) == 1u64)
             <==> (y == a || y == b || y == c || y == d || y == e || y == f || y == g))) by (bit_vector);
    }
}

// ---------------- one iteration of a fast-path loop ----------------
/// what has been consumed of p0 when p is left
pub open spec fn done(p0: Seq<char>, p: Seq<char>) -> Seq<char> { p0.take(p0.len() - p.len()) }
/// the loop invariant of the four fast-path states: whatever mixture of single characters and runs the
/// primitives delivered, the token under construction is what the slow path makes of the consumed prefix
pub open spec fn fast_inv(s: XmlState, b0: XBuf, p0: Seq<char>, b: XBuf, p: Seq<char>) -> bool {
    &&& p.len() <= p0.len()
    &&& p == p0.skip(p0.len() - p.len())
    &&& all_fast_plain(s, done(p0, p))
    &&& b == fast_append(s, b0, done(p0, p))
}
pub proof fn lemma_fast_iter(s: XmlState, b0: XBuf, p0: Seq<char>, b1: XBuf, p1: Seq<char>, x: Seq<char>, p2: Seq<char>)
    requires fast_inv(s, b0, p0, b1, p1), p1 == x + p2, all_fast_plain(s, x),
    ensures fast_inv(s, b0, p0, fast_append(s, b1, x), p2),
{
    let k = p0.len() - p1.len();
    assert(p2 =~= p1.skip(x.len() as int));
    assert(p0.skip(k).skip(x.len() as int) =~= p0.skip(k + x.len()));
    assert(done(p0, p2) =~= done(p0, p1) + x) by {
        assert forall|i: int| 0 <= i < done(p0, p2).len() implies done(p0, p2)[i] == (done(p0, p1) + x)[i] by {
            if i >= k { assert(p0[i] == p0.skip(k)[i - k]); assert(p1[i - k] == x[i - k]); }
        }
    }
    assert forall|i: int| 0 <= i < done(p0, p2).len() implies fast_plain(s, #[trigger] done(p0, p2)[i]) by {
        if i < k { assert(done(p0, p2)[i] == done(p0, p1)[i]); } else { assert(done(p0, p2)[i] == x[i - k]); }
    }
    lemma_fast_append(s, b0, done(p0, p1), x);
}
pub proof fn lemma_fast_init(s: XmlState, b0: XBuf, p0: Seq<char>)
    ensures fast_inv(s, b0, p0, b0, p0),
{
    assert(p0.skip(0) =~= p0);
    assert(done(p0, p0) =~= Seq::<char>::empty());
    lemma_fast_append_empty(s, b0);
}
/// a run that avoids a set containing every special character of state `s` is plain for `s`
pub proof fn lemma_run_plain(s: XmlState, bits: u64, x: Seq<char>)
    requires no_member(bits, x), forall|c: char| !fast_plain(s, c) && fast_state(s) ==> #[trigger] is_member(bits, c), fast_state(s),
    ensures all_fast_plain(s, x),
{
    assert forall|i: int| 0 <= i < x.len() implies fast_plain(s, #[trigger] x[i]) by {
        if !fast_plain(s, x[i]) { assert(is_member(bits, x[i])); }
    }
}
