// ======== UTF-8 lemmas (proved; same text as in bqspec.prelude.rs) ========
pub proof fn lemma_enc(c: char)
    ensures
        enc(c).len() == enc_len(c),
        (c as u32) < 0x80 ==> enc(c)[0] == (c as u32) as u8,
        (c as u32) >= 0x80 ==> forall|i: int| 0 <= i < enc(c).len() ==> #[trigger] enc(c)[i] >= 0x80,
{
    let n = c as u32;
    assert(n <= 0x10FFFF);
}
pub proof fn lemma_utf8_empty(s: Seq<char>)
    ensures (utf8(s).len() == 0) == (s.len() == 0),
{
    if s.len() > 0 { lemma_enc(s[0]); }
}
pub proof fn lemma_utf8_concat(x: Seq<char>, y: Seq<char>)
    ensures utf8(x + y) == utf8(x) + utf8(y),
    decreases x.len(),
{
    if x.len() == 0 {
        assert(x + y =~= y);
        assert(utf8(x) + utf8(y) =~= utf8(y));
    } else {
        lemma_utf8_concat(x.drop_first(), y);
        assert((x + y).drop_first() =~= x.drop_first() + y);
        assert(utf8(x + y) =~= enc(x[0]) + (utf8(x.drop_first()) + utf8(y)));
        assert(enc(x[0]) + (utf8(x.drop_first()) + utf8(y)) =~= (enc(x[0]) + utf8(x.drop_first())) + utf8(y));
    }
}
