// ---- U-stack prelude (hand-written): model types for the stack-of-open-elements algorithms of the HTML tree builder,
//      and their WHATWG definitions (13.2.4.2 "the stack of open elements", 13.2.4.1 "the insertion mode",
//      13.2.4.3 "the list of active formatting elements": reconstruct, 13.2.6.3 "closing elements that have implied end tags") ----
#[derive(PartialEq, Eq, Clone, Copy, Structural)]
pub struct LocalName(pub u64);
impl LocalName {
    pub fn clone(&self) -> (r: LocalName) ensures r == *self { *self }
}
#[derive(PartialEq, Eq, Clone, Copy, Structural)]
pub struct Namespace(pub u64);
#[derive(PartialEq, Eq, Clone, Copy, Structural)]
pub struct ExpandedName { pub ns: Namespace, pub local: LocalName }
/// a node handle: an identity (ghost; handles are compared by the sink's same_node only)
pub struct Handle { pub id: Ghost<nat> }
impl Handle {
    pub fn clone(&self) -> (r: Handle) ensures r == *self { Handle { id: self.id } }
}
/// text: a sequence of characters (ghost; the algorithms here only pass text on)
pub struct StrTendril { pub s: Ghost<Seq<char>> }
impl StrTendril {
    /// `"..".to_tendril()` (rule R6)
    #[verifier::external_body]
    pub fn from_slice(x: &str) -> (r: StrTendril) ensures r.s@ == x@ { unimplemented!() }
}
#[verifier::external_body]
pub fn attrs_clone(a: &Vec<Attribute>) -> (r: Vec<Attribute>) ensures r@ == a@ { unimplemented!() }
/// std::mem::take on an attribute vector (rule R16; ASSUMED: the value moves out, the default - an empty vector - stays)
#[verifier::external_body]
pub fn attrs_take(a: &mut Vec<Attribute>) -> (r: Vec<Attribute>) ensures r@ == old(a)@, final(a)@.len() == 0 { unimplemented!() }
// (tokenizer::Tag and TagKind are the repository's, extracted in the unit; Tag::clone is a derive: ASSUMED to copy)
#[derive(PartialEq, Eq, Clone, Copy, Structural)]
pub enum QuirksMode { Quirks, LimitedQuirks, NoQuirks }
pub use QuirksMode::Quirks;
#[derive(Clone, Copy)]
pub struct TreeBuilderOpts { pub exact_errors: bool, pub scripting_enabled: bool, pub iframe_srcdoc: bool, pub drop_doctype: bool, pub quirks_mode: QuirksMode }
pub struct Cow { pub x: u8 }
impl Cow {
    #[verifier::external_body]
    pub fn msg() -> Cow { unimplemented!() }
}
pub enum PushFlag { Push, NoPush }
#[derive(Clone, Copy)]
pub struct QualName { pub prefix: Option<u64>, pub ns: Namespace, pub local: LocalName }
impl QualName {
    pub fn new(prefix: Option<u64>, ns: Namespace, local: LocalName) -> (r: QualName) ensures r == (QualName { prefix, ns, local }) { QualName { prefix, ns, local } }
    pub fn expanded(&self) -> (r: ExpandedName) ensures r == (ExpandedName { ns: self.ns, local: self.local }) { ExpandedName { ns: self.ns, local: self.local } }
}
pub struct Attribute { pub name: QualName, pub value: StrTendril }
pub enum NodeOrText { AppendNode(Handle), AppendText(StrTendril) }
pub use NodeOrText::{AppendNode, AppendText};
/// what the sink is asked to do to the DOM, in order (ASSUMED contract-abiding sink: a log)
pub enum DomOp {
    Create(Handle, ExpandedName, Seq<Attribute>, bool),
    RemoveFromParent(Handle),
    Append(Handle, NodeOrText),
    AppendBeforeSibling(Handle, NodeOrText),
    AppendBasedOnParent(Handle, Handle, NodeOrText),
    ReparentChildren(Handle, Handle),
    CreateComment(Handle, Seq<char>),
    AddAttrsIfMissing(Handle, Seq<Attribute>),
    MaybeCloneOption(Handle),
    MarkScriptAlreadyStarted(Handle),
    SetQuirksMode(QuirksMode),
    AssociateWithForm(Handle, Handle, Handle, Option<Handle>),
    AttachShadow(Handle, Handle, Seq<Attribute>),
}
pub uninterp spec fn doc_of(s: Sink) -> Handle;
/// the handle the sink hands out for the k-th element it creates (ASSUMED: a new one each time)
pub open spec fn fresh_handle(k: nat) -> Handle { Handle { id: Ghost(k) } }
/// the name of an element as the sink reports it (ASSUMED: a function of the handle)
pub uninterp spec fn elem_name_of(h: Handle) -> ExpandedName;
pub struct ElemName { pub n: ExpandedName }
impl ElemName {
    pub fn expanded(&self) -> (r: ExpandedName) ensures r == self.n { self.n }
    pub fn ns(&self) -> (r: &Namespace) ensures *r == self.n.ns { &self.n.ns }
    pub fn local_name(&self) -> (r: &LocalName) ensures *r == self.n.local { &self.n.local }
}
/// the sink's answer for a MathML annotation-xml element: is it an HTML integration point (encoding text/html or
/// application/xhtml+xml)
pub uninterp spec fn annotation_xml_ip(h: Handle) -> bool;
/// the template contents of a template element (ASSUMED: a function of the handle)
pub uninterp spec fn template_contents_of(h: Handle) -> Handle;
#[derive(PartialEq, Eq, Clone, Copy)]
pub enum RawKind { Rcdata, Rawtext, ScriptData }
pub use RawKind::{Rcdata, Rawtext, ScriptData};
/// the sink (ASSUMED contract-abiding): names are a function of the handle, same_node is handle identity, pop() and
/// parse_error() are notifications (logged), created elements are logged with the name and tag they were created for
pub struct Sink { pub pops: Ghost<Seq<Handle>>, pub errs: Ghost<nat>, pub dom: Ghost<Seq<DomOp>>, pub created: Ghost<nat> }
impl Sink {
    #[verifier::external_body]
    pub fn elem_name(&self, h: &Handle) -> (r: ElemName) ensures r.n == elem_name_of(*h) { unimplemented!() }
    #[verifier::external_body]
    pub fn get_template_contents(&self, h: &Handle) -> (r: Handle) ensures r == template_contents_of(*h) { unimplemented!() }
    #[verifier::external_body]
    pub fn is_mathml_annotation_xml_integration_point(&self, h: &Handle) -> (r: bool) ensures r == annotation_xml_ip(*h) { unimplemented!() }
    #[verifier::external_body]
    pub fn same_node(&self, a: &Handle, b: &Handle) -> (r: bool) ensures r == (*a == *b) { unimplemented!() }
    #[verifier::external_body]
    pub fn pop(&mut self, h: &Handle) ensures *final(self) == (Sink { pops: Ghost(old(self).pops@.push(*h)), ..*old(self) }) { unimplemented!() }
    #[verifier::external_body]
    pub fn parse_error(&mut self, msg: Cow) ensures *final(self) == (Sink { errs: Ghost(old(self).errs@ + 1), ..*old(self) }) { unimplemented!() }
    #[verifier::external_body]
    pub fn remove_from_parent(&mut self, target: &Handle) ensures *final(self) == (Sink { dom: Ghost(old(self).dom@.push(DomOp::RemoveFromParent(*target))), ..*old(self) }) { unimplemented!() }
    #[verifier::external_body]
    pub fn append(&mut self, parent: &Handle, child: NodeOrText) ensures *final(self) == (Sink { dom: Ghost(old(self).dom@.push(DomOp::Append(*parent, child))), ..*old(self) }) { unimplemented!() }
    #[verifier::external_body]
    pub fn append_before_sibling(&mut self, sibling: &Handle, child: NodeOrText) ensures *final(self) == (Sink { dom: Ghost(old(self).dom@.push(DomOp::AppendBeforeSibling(*sibling, child))), ..*old(self) }) { unimplemented!() }
    #[verifier::external_body]
    pub fn append_based_on_parent_node(&mut self, element: &Handle, prev_element: &Handle, child: NodeOrText)
        ensures *final(self) == (Sink { dom: Ghost(old(self).dom@.push(DomOp::AppendBasedOnParent(*element, *prev_element, child))), ..*old(self) }) { unimplemented!() }
    #[verifier::external_body]
    pub fn add_attrs_if_missing(&mut self, target: &Handle, attrs: Vec<Attribute>) ensures *final(self) == (Sink { dom: Ghost(old(self).dom@.push(DomOp::AddAttrsIfMissing(*target, attrs@))), ..*old(self) }) { unimplemented!() }
    #[verifier::external_body]
    pub fn maybe_clone_an_option_into_selectedcontent(&mut self, option: &Handle) ensures *final(self) == (Sink { dom: Ghost(old(self).dom@.push(DomOp::MaybeCloneOption(*option))), ..*old(self) }) { unimplemented!() }
    /// the document node (ASSUMED: a function of the sink)
    #[verifier::external_body]
    pub fn get_document(&self) -> (r: Handle) ensures r == doc_of(*self) { unimplemented!() }
    #[verifier::external_body]
    pub fn mark_script_already_started(&mut self, node: &Handle) ensures *final(self) == (Sink { dom: Ghost(old(self).dom@.push(DomOp::MarkScriptAlreadyStarted(*node))), ..*old(self) }) { unimplemented!() }
    #[verifier::external_body]
    pub fn set_quirks_mode(&mut self, mode: QuirksMode) ensures *final(self) == (Sink { dom: Ghost(old(self).dom@.push(DomOp::SetQuirksMode(mode))), ..*old(self) }) { unimplemented!() }
    #[verifier::external_body]
    pub fn create_comment(&mut self, text: StrTendril) -> (r: Handle)
        ensures r == fresh_handle(old(self).created@),
                *final(self) == (Sink { created: Ghost(old(self).created@ + 1), dom: Ghost(old(self).dom@.push(DomOp::CreateComment(r, text.s@))), ..*old(self) }),
    { unimplemented!() }
    #[verifier::external_body]
    pub fn associate_with_form(&mut self, target: &Handle, form: &Handle, nodes: (&Handle, Option<&Handle>))
        ensures *final(self) == (Sink { dom: Ghost(old(self).dom@.push(DomOp::AssociateWithForm(*target, *form, *nodes.0, match nodes.1 { Some(h) => Some(*h), None => None }))), ..*old(self) }),
    { unimplemented!() }
    #[verifier::external_body]
    pub fn reparent_children(&mut self, node: &Handle, new_parent: &Handle) ensures *final(self) == (Sink { dom: Ghost(old(self).dom@.push(DomOp::ReparentChildren(*node, *new_parent))), ..*old(self) }) { unimplemented!() }
}

/// markup5ever::interface::create_element_with_flags (ASSUMED): asks the sink for a new element with this name / these attributes
#[verifier::external_body]
pub fn create_element_with_flags(sink: &mut Sink, name: QualName, attrs: Vec<Attribute>, had_duplicate_attributes: bool) -> (r: Handle)
    ensures
        r == fresh_handle(old(sink).created@), elem_name_of(r) == (ExpandedName { ns: name.ns, local: name.local }),
        *final(sink) == (Sink { created: Ghost(old(sink).created@ + 1),
                                dom: Ghost(old(sink).dom@.push(DomOp::Create(r, ExpandedName { ns: name.ns, local: name.local }, attrs@, had_duplicate_attributes))), ..*old(sink) }),
{ unimplemented!() }

// ---- model helpers for iterator adaptors (rule R37; ASSUMED to be what the adaptor chains compute) ----
/// every answer the closure can give for an entry is the value of the spec function t
pub open spec fn ref_agrees<T, F: Fn(&T) -> bool>(f: F, t: spec_fn(T) -> bool) -> bool {
    forall|x: T, r: bool| #[trigger] f.ensures((&x,), r) ==> r == t(x)
}
pub open spec fn seq_any<T>(s: Seq<T>, t: spec_fn(T) -> bool) -> bool { exists|i: int| 0 <= i < s.len() && t(#[trigger] s[i]) }
/// the last index whose entry satisfies t
pub open spec fn seq_rposition<T>(s: Seq<T>, t: spec_fn(T) -> bool, n: int) -> Option<usize>
    decreases n
{
    if n <= 0 { None } else if t(s[n - 1]) { Some((n - 1) as usize) } else { seq_rposition(s, t, n - 1) }
}
/// `v.iter().any(f)` / `v.iter().rev().any(f)`: does some entry satisfy f
#[verifier::external_body]
pub fn vec_any<T, F: Fn(&T) -> bool>(v: &Vec<T>, f: F) -> (r: bool)
    requires forall|i: int| 0 <= i < v@.len() ==> f.requires((&#[trigger] v@[i],)),
    ensures forall|t: spec_fn(T) -> bool| ref_agrees(f, t) ==> r == #[trigger] seq_any(v@, t),
{ unimplemented!() }
/// `v.iter().rposition(f)`: the last index whose entry satisfies f
#[verifier::external_body]
pub fn vec_rposition<T, F: Fn(&T) -> bool>(v: &Vec<T>, f: F) -> (r: Option<usize>)
    requires forall|i: int| 0 <= i < v@.len() ==> f.requires((&#[trigger] v@[i],)),
    ensures forall|t: spec_fn(T) -> bool| ref_agrees(f, t) ==> r == #[trigger] seq_rposition(v@, t, v@.len() as int),
{ unimplemented!() }

/// `v.iter().position(f)`: the first index whose entry satisfies f
pub open spec fn seq_position<T>(s: Seq<T>, t: spec_fn(T) -> bool, from: int) -> Option<usize>
    decreases s.len() - from
{
    if from < 0 || from >= s.len() { None } else if t(s[from]) { Some(from as usize) } else { seq_position(s, t, from + 1) }
}
#[verifier::external_body]
pub fn vec_position<T, F: Fn(&T) -> bool>(v: &Vec<T>, f: F) -> (r: Option<usize>)
    requires forall|i: int| 0 <= i < v@.len() ==> f.requires((&#[trigger] v@[i],)),
    ensures forall|t: spec_fn(T) -> bool| ref_agrees(f, t) ==> r == #[trigger] seq_position(v@, t, 0),
{ unimplemented!() }
/// `v.iter().enumerate().skip(k).find(|&(_, x)| f(x)).map(|(i, h)| (i, h.clone()))`: the first index >= k whose entry satisfies f, with the entry
#[verifier::external_body]
pub fn vec_find_from<F: Fn(&Handle) -> bool>(v: &Vec<Handle>, k: usize, f: F) -> (r: Option<(usize, Handle)>)
    requires forall|i: int| 0 <= i < v@.len() ==> f.requires((&#[trigger] v@[i],)),
    ensures forall|t: spec_fn(Handle) -> bool| ref_agrees(f, t) ==> #[trigger] seq_position(v@, t, k as int) == (match r { Some(p) => Some(p.0), None => None::<usize> })
                && (r is Some ==> r.unwrap().0 < v@.len() && r.unwrap().1 == v@[r.unwrap().0 as int]),
{ unimplemented!() }

// ---- tag sets (tag_sets.rs; their content is checked against the standard by U-tagsets): used here as given functions ----
#[verifier::opaque]
pub open spec fn ts_cursory_implied_end(p: ExpandedName) -> bool { ts::cursory_implied_end(p) }
#[verifier::opaque]
pub open spec fn ts_button_scope(p: ExpandedName) -> bool { ts::button_scope(p) }
#[verifier::opaque]
pub open spec fn ts_td_th(p: ExpandedName) -> bool { ts::td_th(p) }
#[verifier::opaque]
pub open spec fn ts_special_tag(p: ExpandedName) -> bool { ts::special_tag(p) }
#[verifier::opaque]
pub open spec fn ts_default_scope(p: ExpandedName) -> bool { ts::default_scope(p) }
#[verifier::external_body]
pub fn default_scope(p: ExpandedName) -> (r: bool) ensures r == ts_default_scope(p) { unimplemented!() }
#[verifier::external_body]
pub fn special_tag(p: ExpandedName) -> (r: bool) ensures r == ts_special_tag(p) { unimplemented!() }
#[verifier::external_body]
pub fn cursory_implied_end(p: ExpandedName) -> (r: bool) ensures r == ts_cursory_implied_end(p) { unimplemented!() }
#[verifier::external_body]
pub fn button_scope(p: ExpandedName) -> (r: bool) ensures r == ts_button_scope(p) { unimplemented!() }
#[verifier::external_body]
pub fn td_th(p: ExpandedName) -> (r: bool) ensures r == ts_td_th(p) { unimplemented!() }
