// ---- U-table: the table insertion modes (13.2.6.4.9 - 13.2.6.4.15) ----
#[verifier::opaque]
pub open spec fn ts_table_scope(p: ExpandedName) -> bool { ts::table_scope(p) }
#[verifier::opaque]
pub open spec fn ts_table_body_context(p: ExpandedName) -> bool { ts::table_body_context(p) }
#[verifier::opaque]
pub open spec fn ts_table_row_context(p: ExpandedName) -> bool { ts::table_row_context(p) }
#[verifier::external_body]
pub fn table_scope(p: ExpandedName) -> (r: bool) ensures r == ts_table_scope(p) { unimplemented!() }
#[verifier::external_body]
pub fn table_body_context(p: ExpandedName) -> (r: bool) ensures r == ts_table_body_context(p) { unimplemented!() }
#[verifier::external_body]
pub fn table_row_context(p: ExpandedName) -> (r: bool) ensures r == ts_table_row_context(p) { unimplemented!() }
pub open spec fn set_table_scope() -> spec_fn(ExpandedName) -> bool { |p: ExpandedName| ts_table_scope(p) }
pub open spec fn set_body_ctx() -> spec_fn(ExpandedName) -> bool { |p: ExpandedName| ts_table_body_context(p) }
pub open spec fn set_row_ctx() -> spec_fn(ExpandedName) -> bool { |p: ExpandedName| ts_table_row_context(p) }
pub open spec fn set_td_th() -> spec_fn(ExpandedName) -> bool { |p: ExpandedName| ts_td_th(p) }
pub open spec fn set_cursory() -> spec_fn(ExpandedName) -> bool { |p: ExpandedName| ts_cursory_implied_end(p) }
/// the content of the table tag sets (PROVED from the repository's own tag-set text, module `ts`; U-tagsets compares that text with the standard)
pub proof fn lemma_table_sets()
    ensures
        forall|p: ExpandedName| #[trigger] ts_table_scope(p) == (p == html_name(local_name!("html")) || p == html_name(local_name!("table")) || p == html_name(local_name!("template"))),
        forall|p: ExpandedName| #[trigger] ts_table_body_context(p) == (p == html_name(local_name!("tbody")) || p == html_name(local_name!("tfoot")) || p == html_name(local_name!("thead"))
            || p == html_name(local_name!("template")) || p == html_name(local_name!("html"))),
        forall|p: ExpandedName| #[trigger] ts_table_row_context(p) == (p == html_name(local_name!("tr")) || p == html_name(local_name!("template")) || p == html_name(local_name!("html"))),
        forall|p: ExpandedName| #[trigger] ts_td_th(p) == (p == html_name(local_name!("td")) || p == html_name(local_name!("th"))),
        !ts_cursory_implied_end(html_name(local_name!("html"))), !ts_cursory_implied_end(html_name(local_name!("caption"))),
        !ts_cursory_implied_end(html_name(local_name!("td"))), !ts_cursory_implied_end(html_name(local_name!("th"))),
{
    reveal(ts_table_scope);
    reveal(ts_table_body_context);
    reveal(ts_table_row_context);
    reveal(ts_td_th);
    reveal(ts_cursory_implied_end);
}
/// local tag sets (rule R39, ASSUMED as for `implied`)
#[verifier::external_body]
pub fn table_outer(p: ExpandedName) -> (r: bool) ensures r == ts_table_outer(p) { unimplemented!() }
/// `table_outer` is declared twice (process_chars_in_table: table tbody tfoot thead tr; in table body: tbody tfoot thead); the
/// extraction keeps them apart by renaming the second (rule R39)
// (the model function table_outer3 is generated from the macro call's text, see u_table.py)
pub open spec fn is_section_name(p: ExpandedName) -> bool { p == html_name(local_name!("tbody")) || p == html_name(local_name!("tfoot")) || p == html_name(local_name!("thead")) }
pub open spec fn is_section() -> spec_fn(Handle) -> bool { |h: Handle| is_section_name(elem_name_of(h)) }
pub open spec fn ts_table_outer(p: ExpandedName) -> bool {
    p == html_name(local_name!("table")) || p == html_name(local_name!("tbody")) || p == html_name(local_name!("tfoot")) || p == html_name(local_name!("thead")) || p == html_name(local_name!("tr"))
}
pub open spec fn is_td_th() -> spec_fn(Handle) -> bool { |h: Handle| ts_td_th(elem_name_of(h)) }
/// "clear the stack back to a table / table body / table row context": pop until the current node is in the set
pub open spec fn cleared_to(st: Seq<Handle>, set: spec_fn(ExpandedName) -> bool) -> Seq<Handle> { st.take(top_match(st, st.len() as int, set) + 1) }
/// what the table modes need of the state (ASSUMED at entry: invariants of the tree builder)
pub open spec fn table_pre(tb: &TreeBuilder) -> bool {
    &&& tb.small() && tb.stack().len() > 0 && html_named(tb.stack()[0], local_name!("html"))
    &&& tmpl_inv(tb)
}
pub open spec fn in_table_scope(st: Seq<Handle>, name: LocalName) -> bool { w_in_scope(st, st.len() as int, is_html_named(name), set_table_scope()) }
/// the bottom of the stack is the html element: every "clear the stack back to .. context" finds its stop, and keeps the root
pub proof fn lemma_cleared(st: Seq<Handle>, set: spec_fn(ExpandedName) -> bool)
    requires st.len() > 0, set(elem_name_of(st[0])),
    ensures top_match(st, st.len() as int, set) >= 0, cleared_to(st, set).len() > 0, cleared_to(st, set)[0] == st[0],
            set(elem_name_of(cleared_to(st, set).last())), cleared_to(st, set).len() <= st.len(),
            cleared_to(st, set) == st.take(cleared_to(st, set).len() as int),
{
    lemma_top_match(st, st.len() as int, set);
    let k = top_match(st, st.len() as int, set);
    if k < 0 { assert(!set(elem_name_of(st[0]))); }
}
/// "has a `name` element in table scope": the topmost `name` element has no html / table / template element above it
pub open spec fn scope_witness(st: Seq<Handle>, n: int, target: spec_fn(Handle) -> bool, k: int) -> bool {
    0 <= k < n && target(st[k]) && forall|j: int| k < j < n ==> !target(#[trigger] st[j]) && !ts_table_scope(elem_name_of(st[j]))
}
pub proof fn lemma_in_scope_first(st: Seq<Handle>, n: int, target: spec_fn(Handle) -> bool) -> (k: int)
    requires 0 <= n <= st.len(), w_in_scope(st, n, target, set_table_scope()),
    ensures scope_witness(st, n, target, k),
    decreases n,
{
    if target(st[n - 1]) { n - 1 } else { lemma_in_scope_first(st, n - 1, target) }
}
/// ... so clearing the stack back to a context whose members are `name`-like elements and table-scope elements stops there
pub proof fn lemma_ctx_after_scope(st: Seq<Handle>, target: spec_fn(Handle) -> bool, ctx: spec_fn(ExpandedName) -> bool) -> (k: int)
    requires
        w_in_scope(st, st.len() as int, target, set_table_scope()),
        forall|h: Handle| #[trigger] target(h) ==> ctx(elem_name_of(h)),
        forall|h: Handle| ctx(elem_name_of(h)) ==> #[trigger] target(h) || ts_table_scope(elem_name_of(h)),
    ensures scope_witness(st, st.len() as int, target, k), top_match(st, st.len() as int, ctx) == k, cleared_to(st, ctx) == st.take(k + 1),
{
    let n = st.len() as int;
    let k = lemma_in_scope_first(st, n, target);
    assert forall|j: int| k + 1 <= j < n implies !ctx(elem_name_of(#[trigger] st[j])) by {
        assert(!target(st[j]) && !ts_table_scope(elem_name_of(st[j])));
    }
    lemma_top_match_at(st, n, k + 1, ctx);
    k
}
/// foster_parent_in_body: foster parenting on; the in-body rules (from m0 to s.0 with result s.1); foster parenting off
pub open spec fn fostered(a: &TreeBuilder, m0: TreeBuilder, s: (TreeBuilder, ProcessResult), b: &TreeBuilder, r: ProcessResult) -> bool {
    &&& m0 == (TreeBuilder { foster_parenting: Cell { v: true }, ..*a })
    &&& r == s.1
    &&& *b == (TreeBuilder { foster_parenting: Cell { v: false }, ..s.0 })
}

/// popping down to a table (not the root) keeps the root and the template-mode invariant
pub proof fn lemma_table_pop_keeps(a: &TreeBuilder, st: Seq<Handle>)
    requires table_pre(a), st == a.stack(), top_match(st, st.len() as int, name_is_html(local_name!("table"))) >= 0,
    ensures ({
        let st2 = w_pop_until(st, name_is_html(local_name!("table")));
        &&& st2.len() > 0 && st2[0] == st[0] && st2.len() < st.len()
        &&& (reset_sees_template(st2, a.context_elem.v) ==> a.template_modes.v@.len() > 0)
    }),
{
    let p = name_is_html(local_name!("table"));
    lemma_top_match(st, st.len() as int, p);
    let k = top_match(st, st.len() as int, p);
    assert(k != 0) by { if k == 0 { assert(html_named(st[0], local_name!("html"))); assert(p(elem_name_of(st[0]))); } }
    let st2 = st.take(k);
    lemma_count_prefix(st2, st, k);
    lemma_count_mono(st, k, st.len() as int);
    lemma_count_templates(st2, k);
    if reset_sees_template(st2, a.context_elem.v) {
        if exists|i: int| 0 <= i < st2.len() && html_named(#[trigger] st2[i], local_name!("template")) { assert(count_templates(st2, k) > 0); }
    }
}
