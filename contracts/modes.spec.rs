// ---- U-modes: small insertion modes, case by case from the standard ----
/// rules.rs current_node: the last entry of the stack
pub fn current_node(open_elems: &Vec<Handle>) -> (r: &Handle)
    requires open_elems@.len() > 0,
    ensures *r == open_elems@.last(),
{ &open_elems[open_elems.len() - 1] }
/// "process the token using the rules for the <mode> insertion mode"
pub open spec fn as_in(a: &TreeBuilder, b: &TreeBuilder, r: ProcessResult, mode: InsertionMode, token: Token) -> bool { (*b, r) == w_step(*a, mode, token) }
/// "parse error; ignore the token"
pub open spec fn ignored(a: &TreeBuilder, b: &TreeBuilder, r: ProcessResult) -> bool {
    r is Done && *b == (TreeBuilder { sink: Sink { errs: Ghost(a.sink.errs@ + 1), ..a.sink }, ..*a })
}
pub open spec fn is_start(token: Token, name: LocalName) -> bool { token matches Token::Tag(t) && t.kind == TagKind::StartTag && t.name == name }
pub open spec fn is_end(token: Token, name: LocalName) -> bool { token matches Token::Tag(t) && t.kind == TagKind::EndTag && t.name == name }
/// a comment is created and appended to `parent`
pub open spec fn comment_appended(a: &TreeBuilder, b: &TreeBuilder, r: ProcessResult, parent: Handle, text: StrTendril) -> bool {
    let c = fresh_handle(a.sink.created@);
    r is Done && *b == (TreeBuilder { sink: Sink { created: Ghost(a.sink.created@ + 1),
        dom: Ghost(a.sink.dom@.push(DomOp::CreateComment(c, text.s@)).push(DomOp::Append(parent, NodeOrText::AppendNode(c)))), ..a.sink }, ..*a })
}
/// markup5ever::interface::create_element (ASSUMED): create_element_with_flags without the duplicate-attribute flag
#[verifier::external_body]
pub fn create_element(sink: &mut Sink, name: QualName, attrs: Vec<Attribute>) -> (r: Handle)
    ensures
        r == fresh_handle(old(sink).created@), elem_name_of(r) == (ExpandedName { ns: name.ns, local: name.local }),
        *final(sink) == (Sink { created: Ghost(old(sink).created@ + 1),
                                dom: Ghost(old(sink).dom@.push(DomOp::Create(r, ExpandedName { ns: name.ns, local: name.local }, attrs@, false))), ..*old(sink) }),
{ unimplemented!() }
/// "create an html element, append it to the Document object, put it on the stack of open elements"
pub open spec fn root_created(a: &TreeBuilder, b: &TreeBuilder, attrs: Seq<Attribute>) -> bool {
    let e = fresh_handle(a.sink.created@);
    &&& *b == (TreeBuilder { open_elems: b.open_elems, sink: b.sink, mode: b.mode, ..*a }) && b.stack() == a.stack().push(e) && elem_name_of(e) == html_name(local_name!("html"))
    &&& b.sink == (Sink { created: Ghost(a.sink.created@ + 1),
            dom: Ghost(a.sink.dom@.push(DomOp::Create(e, html_name(local_name!("html")), attrs, false)).push(DomOp::Append(a.doc_handle, NodeOrText::AppendNode(e)))), ..a.sink })
}
pub open spec fn is_any_end(token: Token) -> bool { token matches Token::Tag(t) && t.kind == TagKind::EndTag }
/// "after head", a head-level start tag: parse error; push the head element; process by the "in head" rules (from state m0 to
/// state s.0 with result s.1); remove the head element from the stack
pub open spec fn after_head_in_head(a: &TreeBuilder, m0: TreeBuilder, s: (TreeBuilder, ProcessResult), b: &TreeBuilder, r: ProcessResult) -> bool {
    let head = a.head_elem.v.unwrap();
    let m1 = s.0;
    &&& r == s.1
    &&& m0.stack() == a.stack().push(head) && m0.same_but_stack(a) && m0.sink.errs@ == a.sink.errs@ + 1 && sink_quiet(m0.sink, a.sink)
    &&& b.same_but_stack(&m1) && sink_quiet(b.sink, m1.sink) && b.sink.errs == m1.sink.errs
    &&& b.stack() == (match seq_rposition(m1.stack(), is_handle(head), m1.stack().len() as int) { Some(k) => m1.stack().remove(k as int), None => m1.stack() })
}
