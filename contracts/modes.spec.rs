// ---- U-modes: small insertion modes, case by case from the standard ----
/// rules.rs current_node: the last entry of the stack
pub fn current_node(open_elems: &Vec<Handle>) -> (r: &Handle)
    requires open_elems@.len() > 0,
    ensures *r == open_elems@.last(),
{ &open_elems[open_elems.len() - 1] }
/// "process the token using the rules for the <mode> insertion mode"
pub open spec fn as_in(a: &TreeBuilder, b: &TreeBuilder, r: ProcessResult, mode: InsertionMode, token: Token) -> bool { (*b, r) == w_step(*a, mode, token) }
/// "parse error; ignore the token"
pub open spec fn ignored(a: &TreeBuilder, b: &TreeBuilder, r: ProcessResult) -> bool {
    r is Done && *b == (TreeBuilder { sink: Sink { errs: Ghost(a.sink.errs@ + 1), ..a.sink }, ..*a })
}
pub open spec fn is_start(token: Token, name: LocalName) -> bool { token matches Token::Tag(t) && t.kind == TagKind::StartTag && t.name == name }
pub open spec fn is_end(token: Token, name: LocalName) -> bool { token matches Token::Tag(t) && t.kind == TagKind::EndTag && t.name == name }
/// a comment is created and appended to `parent`
pub open spec fn comment_appended(a: &TreeBuilder, b: &TreeBuilder, r: ProcessResult, parent: Handle, text: StrTendril) -> bool {
    let c = fresh_handle(a.sink.created@);
    r is Done && *b == (TreeBuilder { sink: Sink { created: Ghost(a.sink.created@ + 1),
        dom: Ghost(a.sink.dom@.push(DomOp::CreateComment(c, text.s@)).push(DomOp::Append(parent, NodeOrText::AppendNode(c)))), ..a.sink }, ..*a })
}
