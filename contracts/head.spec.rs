// ---- U-inhead: vocabulary for the "in head" insertion mode (13.2.6.4.4) ----
/// Tag::get_attribute (ASSUMED here: an uninterpreted function of the tag; U-meta has the lookup itself): the value of the
/// attribute in no namespace with that local name
pub uninterp spec fn w_get_attr(tag: Tag, name: LocalName) -> Option<StrTendril>;
/// "an ASCII case-insensitive match for the string Content-Type" (uninterpreted here; decided in U-meta)
pub uninterp spec fn w_is_content_type(v: StrTendril) -> bool;
/// the algorithm for extracting a character encoding from a meta element (uninterpreted here; proved in U-enc)
pub uninterp spec fn w_extract(v: StrTendril) -> Option<StrTendril>;
/// the sink's answer to "attach a declarative shadow root" (ASSUMED: a function of its arguments)
pub uninterp spec fn w_attach_ok(host: Handle, template: Handle, attrs: Seq<Attribute>) -> bool;
/// "template start tag's shadowrootmode is not in the None state" (the attribute scan `.iter().any(..)` of
/// should_attach_declarative_shadow; ASSUMED: an uninterpreted function of the attributes)
pub uninterp spec fn w_shadow_mode(attrs: Seq<Attribute>) -> bool;
/// "document's allow declarative shadow roots is true" for the intended parent (the sink's answer; ASSUMED a function of the node)
pub uninterp spec fn w_allow_shadow(parent: Handle) -> bool;
/// "the element in which the adjusted insertion location finds itself"
pub open spec fn place_parent(p: InsertionPoint) -> Handle {
    match p { InsertionPoint::LastChild(h) => h, InsertionPoint::BeforeSibling(h) => h, InsertionPoint::TableFosterParenting { element, prev_element } => element }
}
/// 13.2.6.4.4, a start tag whose tag name is "template": a declarative shadow root is attached iff the shadowrootmode attribute is
/// not in the None state, the intended parent's document allows declarative shadow roots, and **the adjusted current node is not
/// the topmost element in the stack of open elements**
pub open spec fn w_should_attach(tb: &TreeBuilder, tag: Tag) -> bool {
    w_shadow_mode(tag.attrs@) && w_allow_shadow(place_parent(w_place(tb, None))) && w_acn(tb) != tb.stack()[0]
}
/// R37: `tag.attrs.iter().any(|attr| attr.name.local == "shadowrootmode" && (value == "open" || value == "closed"))`
#[verifier::external_body]
pub fn attrs_any_shadowrootmode(attrs: &Vec<Attribute>) -> (r: bool) ensures r == w_shadow_mode(attrs@) { unimplemented!() }
/// `v.first()` (ASSUMED: the slice method)
#[verifier::external_body]
pub fn vec_first(v: &Vec<Handle>) -> (r: Option<&Handle>) ensures v@.len() == 0 ==> r is None, v@.len() > 0 ==> r == Some(&v@[0]) { unimplemented!() }
impl Tag {
    #[verifier::external_body]
    pub fn get_attribute(&self, name: &LocalName) -> (r: Option<StrTendril>) ensures r == w_get_attr(*self, *name) { unimplemented!() }
}
#[verifier::external_body]
pub fn is_content_type(t: &StrTendril) -> (r: bool) ensures r == w_is_content_type(*t) { unimplemented!() }
#[verifier::external_body]
pub fn extract_a_character_encoding_from_a_meta_element(t: StrTendril) -> (r: Option<StrTendril>) ensures r == w_extract(t) { unimplemented!() }
impl Sink {
    #[verifier::external_body]
    pub fn allow_declarative_shadow_roots(&self, intended_parent: &Handle) -> (r: bool) ensures r == w_allow_shadow(*intended_parent) { unimplemented!() }
    #[verifier::external_body]
    pub fn attach_declarative_shadow(&mut self, location: &Handle, template: &Handle, attrs: &Vec<Attribute>) -> (r: bool)
        ensures r == w_attach_ok(*location, *template, attrs@),
                *final(self) == (Sink { dom: Ghost(old(self).dom@.push(DomOp::AttachShadow(*location, *template, attrs@))), ..*old(self) }),
    { unimplemented!() }
}
/// what a `<meta>` start tag indicates about the encoding: the charset attribute if there is one; otherwise the encoding
/// extracted from the content attribute if http-equiv is "Content-Type"
pub open spec fn w_meta_encoding(tag: Tag) -> Option<StrTendril> {
    if w_get_attr(tag, local_name!("charset")) is Some { w_get_attr(tag, local_name!("charset")) }
    else if w_get_attr(tag, local_name!("http-equiv")) matches Some(v) && w_is_content_type(v) {
        match w_get_attr(tag, local_name!("content")) { Some(c) => w_extract(c), None => None }
    } else { None }
}
pub open spec fn head_pre(tb: &TreeBuilder) -> bool {
    tb.small() && tb.stack().len() > 0 && html_named(tb.stack()[0], local_name!("html")) && tmpl_inv(tb)
}
/// "pop the current node (the head element); switch the insertion mode to after head; reprocess the token"
pub open spec fn head_anything_else(o: &TreeBuilder, f: &TreeBuilder, r: ProcessResult, token: Token) -> bool {
    r == ProcessResult::Reprocess(InsertionMode::AfterHead, token) && f.stack() == o.stack().drop_last() && f.mode == o.mode
    && f.sink.errs == o.sink.errs && f.sink.dom == o.sink.dom && f.list() == o.list() && f.template_modes == o.template_modes
}
pub proof fn lemma_count_push(st: Seq<Handle>, h: Handle)
    ensures count_templates(st.push(h), st.len() as int + 1) == count_templates(st, st.len() as int) + (if html_named(h, local_name!("template")) { 1int } else { 0int }),
            st.push(h).drop_last() == st,
{
    lemma_count_prefix(st.push(h), st, st.len() as int);
    assert(st.push(h).drop_last() =~= st);
}
