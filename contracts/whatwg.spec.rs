// ======================================================================================
// WHATWG HTML tokenization (§13.2.5) as a total per-character spec machine.
// Hand-written from the standard (NOT from the code).  Deviations from the literal text,
// each argued in DESIGN.md §4:
//   * input characters are the CR/CRLF-normalised stream (`norm`);
//   * "next few characters" look-ahead (markup declaration open, after DOCTYPE name) is
//     consumed one character at a time into `temp` while it is still a viable prefix;
//   * the comment-less-than-sign family is quotiented onto comment / comment-end-dash /
//     comment-end (they differ from those only in parse-error reporting);
//   * CDATA section text is buffered in `temp` and emitted when the section ends, a NUL
//     or EOF is met (same characters, later emission);
//   * parse errors are not part of the output.
// ======================================================================================

pub enum OutTok {
    Char(char),
    Null,
    Tag { kind: TagKind, name: Seq<char>, self_closing: bool, attrs: Seq<AbsAttr>, dup: bool },
    Comment(Seq<char>),
    Doctype(AbsDoctype),
    Eof,
}
pub struct Out { pub tok: OutTok, pub line: int }
pub struct AbsAttr { pub name: Seq<char>, pub value: Seq<char> }
pub struct AbsDoctype {
    pub name: Option<Seq<char>>,
    pub public_id: Option<Seq<char>>,
    pub system_id: Option<Seq<char>>,
    pub force_quirks: bool,
}
pub enum SinkReply { Continue, Plaintext, RawData(RawKind), Script, EncodingIndicator }

/// The sink is an arbitrary deterministic function of the (flattened) token history.
pub uninterp spec fn sink_reply(out: Seq<Out>) -> SinkReply;
/// "adjusted current node is not in the HTML namespace", also a function of the history.
pub uninterp spec fn sink_cdata_ok(out: Seq<Out>) -> bool;

pub struct AbsTok {
    pub state: State,
    pub recons: bool,              // the next character delivered was already consumed (and counted) once
    pub temp: Seq<char>,
    pub tag_kind: TagKind,
    pub tag_name: Seq<char>,
    pub self_closing: bool,
    pub dup: bool,
    pub attrs: Seq<AbsAttr>,
    pub attr_name: Seq<char>,
    pub attr_value: Seq<char>,
    pub comment: Seq<char>,
    pub doctype: AbsDoctype,
    pub last_start: Option<Seq<char>>,
    pub cr: Option<AbsCr>,
    pub line: int,
    pub out: Seq<Out>,
}

// ---------------- input normalisation ----------------
/// CR / CRLF -> LF given whether the previous raw character was a CR
#[verifier::opaque]
pub open spec fn norm(ig: bool, s: Seq<char>) -> Seq<char>
    decreases s.len()
{
    if s.len() == 0 { Seq::<char>::empty() }
    else if s[0] == '\r' { seq!['\n'] + norm(true, s.drop_first()) }
    else if s[0] == '\n' && ig { norm(false, s.drop_first()) }
    else { seq![s[0]] + norm(false, s.drop_first()) }
}

// ---------------- small helpers ----------------
pub open spec fn is_ws(c: char) -> bool { c == '\t' || c == '\n' || c == '\x0C' || c == ' ' }
pub open spec fn is_upper(c: char) -> bool { 'A' <= c && c <= 'Z' }
pub open spec fn is_alpha(c: char) -> bool { ('a' <= c && c <= 'z') || ('A' <= c && c <= 'Z') }
pub open spec fn lower(c: char) -> char { if is_upper(c) { ((c as u32) + 32) as char } else { c } }
pub open spec fn script_str() -> Seq<char> { seq!['s', 'c', 'r', 'i', 'p', 't'] }
pub open spec fn st(a: AbsTok, s: State) -> AbsTok { AbsTok { state: s, ..a } }
pub open spec fn emit(a: AbsTok, t: OutTok) -> AbsTok { AbsTok { out: a.out.push(Out { tok: t, line: a.line }), ..a } }
/// character tokens are compared after concatenation, so the log keeps one entry per character and
/// no line for it (where a run of characters is cut into tokens is not part of the standard);
/// NUL in text is its own token.
pub open spec fn emit_ch(a: AbsTok, c: char) -> AbsTok { AbsTok { out: a.out.push(Out { tok: OutTok::Char(c), line: 0 }), ..a } }
pub open spec fn emit_c(a: AbsTok, c: char) -> AbsTok { if c == '\0' { emit(a, OutTok::Null) } else { emit_ch(a, c) } }
pub open spec fn chars_out(s: Seq<char>) -> Seq<Out> {
    Seq::new(s.len(), |i: int| Out { tok: OutTok::Char(s[i]), line: 0 })
}
/// emit a character token for each character of `s` (none of them NUL)
pub open spec fn emit_seq(a: AbsTok, s: Seq<char>) -> AbsTok { AbsTok { out: a.out + chars_out(s), ..a } }
pub open spec fn emit_temp(a: AbsTok) -> AbsTok { AbsTok { temp: Seq::<char>::empty(), ..emit_seq(a, a.temp) } }
pub open spec fn clear_temp(a: AbsTok) -> AbsTok { AbsTok { temp: Seq::<char>::empty(), ..a } }
pub open spec fn push_temp(a: AbsTok, c: char) -> AbsTok { AbsTok { temp: a.temp.push(c), ..a } }
pub open spec fn push_tag(a: AbsTok, c: char) -> AbsTok { AbsTok { tag_name: a.tag_name.push(c), ..a } }
pub open spec fn push_name(a: AbsTok, c: char) -> AbsTok { AbsTok { attr_name: a.attr_name.push(c), ..a } }
pub open spec fn push_value(a: AbsTok, c: char) -> AbsTok { AbsTok { attr_value: a.attr_value.push(c), ..a } }
pub open spec fn push_comment(a: AbsTok, c: char) -> AbsTok { AbsTok { comment: a.comment.push(c), ..a } }
pub open spec fn append_comment(a: AbsTok, s: Seq<char>) -> AbsTok { AbsTok { comment: a.comment + s, ..a } }
pub open spec fn clear_comment(a: AbsTok) -> AbsTok { AbsTok { comment: Seq::<char>::empty(), ..a } }
pub open spec fn emit_comment(a: AbsTok) -> AbsTok { clear_comment(emit(a, OutTok::Comment(a.comment))) }
pub open spec fn empty_doctype() -> AbsDoctype { AbsDoctype { name: None, public_id: None, system_id: None, force_quirks: false } }
pub open spec fn create_doctype(a: AbsTok) -> AbsTok { AbsTok { doctype: empty_doctype(), ..a } }
pub open spec fn opt_push(o: Option<Seq<char>>, c: char) -> Option<Seq<char>> {
    match o { Some(s) => Some(s.push(c)), None => Some(seq![c]) }
}
pub open spec fn push_dt_name(a: AbsTok, c: char) -> AbsTok { AbsTok { doctype: AbsDoctype { name: opt_push(a.doctype.name, c), ..a.doctype }, ..a } }
pub open spec fn push_dt_id(a: AbsTok, k: DoctypeIdKind, c: char) -> AbsTok {
    match k {
        DoctypeIdKind::Public => AbsTok { doctype: AbsDoctype { public_id: opt_push(a.doctype.public_id, c), ..a.doctype }, ..a },
        DoctypeIdKind::System => AbsTok { doctype: AbsDoctype { system_id: opt_push(a.doctype.system_id, c), ..a.doctype }, ..a },
    }
}
pub open spec fn clear_dt_id(a: AbsTok, k: DoctypeIdKind) -> AbsTok {
    match k {
        DoctypeIdKind::Public => AbsTok { doctype: AbsDoctype { public_id: Some(Seq::<char>::empty()), ..a.doctype }, ..a },
        DoctypeIdKind::System => AbsTok { doctype: AbsDoctype { system_id: Some(Seq::<char>::empty()), ..a.doctype }, ..a },
    }
}
pub open spec fn force_quirks(a: AbsTok) -> AbsTok { AbsTok { doctype: AbsDoctype { force_quirks: true, ..a.doctype }, ..a } }
pub open spec fn emit_doctype(a: AbsTok) -> AbsTok { AbsTok { doctype: empty_doctype(), ..emit(a, OutTok::Doctype(a.doctype)) } }

// ---------------- tags and attributes ----------------
pub open spec fn create_tag(a: AbsTok, k: TagKind, c: char) -> AbsTok {
    AbsTok { tag_kind: k, tag_name: seq![c], self_closing: false, dup: false, attrs: Seq::<AbsAttr>::empty(), ..a }
}
pub open spec fn discard_tag(a: AbsTok) -> AbsTok {
    AbsTok { tag_name: Seq::<char>::empty(), self_closing: false, dup: false, attrs: Seq::<AbsAttr>::empty(), ..a }
}
pub open spec fn has_attr(attrs: Seq<AbsAttr>, n: Seq<char>) -> bool {
    exists|i: int| 0 <= i < attrs.len() && (#[trigger] attrs[i]).name == n
}
/// "when the user agent leaves the attribute name state ... if there is already an attribute with
/// the same name, the new attribute must be removed": done when the attribute is finished
#[verifier::opaque]
pub open spec fn finish_attr(a: AbsTok) -> AbsTok {
    if a.attr_name.len() == 0 { a }
    else if has_attr(a.attrs, a.attr_name) {
        AbsTok { dup: true, attr_name: Seq::<char>::empty(), attr_value: Seq::<char>::empty(), ..a }
    } else {
        AbsTok { attrs: a.attrs.push(AbsAttr { name: a.attr_name, value: a.attr_value }),
                 attr_name: Seq::<char>::empty(), attr_value: Seq::<char>::empty(), ..a }
    }
}
pub open spec fn create_attr(a: AbsTok, c: char) -> AbsTok { push_name(finish_attr(a), c) }
pub open spec fn appropriate_end_tag(a: AbsTok) -> bool {
    a.tag_kind == TagKind::EndTag && a.last_start == Some(a.tag_name)
}
/// emit the current tag token; the sink's answer selects the next state (default: the state
/// the tokenizer has just switched to)
#[verifier::opaque]
pub open spec fn emit_tag_cur(a: AbsTok) -> AbsTok {
    let b = finish_attr(a);
    let tok = OutTok::Tag { kind: b.tag_kind, name: b.tag_name, self_closing: b.self_closing, attrs: b.attrs, dup: b.dup };
    let c = emit(b, tok);
    let d = AbsTok {
        tag_name: Seq::<char>::empty(),
        attrs: Seq::<AbsAttr>::empty(),
        last_start: if b.tag_kind == TagKind::StartTag { Some(b.tag_name) } else { b.last_start },
        ..c
    };
    match sink_reply(d.out) {
        SinkReply::Continue => d,
        SinkReply::EncodingIndicator => d,
        SinkReply::Plaintext => st(d, State::Plaintext),
        SinkReply::Script => st(d, State::Data),
        SinkReply::RawData(k) => st(d, State::RawData(k)),
    }
}
pub open spec fn emit_tag(a: AbsTok, next: State) -> AbsTok { emit_tag_cur(st(a, next)) }
pub open spec fn start_cr(a: AbsTok) -> AbsTok {
    AbsTok { cr: Some(cr_new()), ..a }
}

// ======================================================================================
// per-state transition functions (one normalised character `c`)
// ======================================================================================
#[verifier::opaque]
pub open spec fn s_data(a: AbsTok, c: char) -> AbsTok {
    if c == '&' { start_cr(a) }
    else if c == '<' { st(a, State::TagOpen) }
    else { emit_c(a, c) }          // NUL: parse error, emitted as is
}
#[verifier::opaque]
pub open spec fn s_rcdata(a: AbsTok, c: char) -> AbsTok {
    if c == '&' { start_cr(a) }
    else if c == '<' { st(a, State::RawLessThanSign(RawKind::Rcdata)) }
    else if c == '\0' { emit_c(a, '\u{fffd}') }
    else { emit_c(a, c) }
}
/// RAWTEXT and script data
#[verifier::opaque]
pub open spec fn s_rawtext(a: AbsTok, k: RawKind, c: char) -> AbsTok {
    if c == '<' { st(a, State::RawLessThanSign(k)) }
    else if c == '\0' { emit_c(a, '\u{fffd}') }
    else { emit_c(a, c) }
}
#[verifier::opaque]
pub open spec fn s_script_escaped(a: AbsTok, k: ScriptEscapeKind, c: char) -> AbsTok {
    if c == '-' { st(emit_c(a, '-'), State::ScriptDataEscapedDash(k)) }
    else if c == '<' {
        match k {
            ScriptEscapeKind::Escaped => st(a, State::RawLessThanSign(RawKind::ScriptDataEscaped(k))),
            ScriptEscapeKind::DoubleEscaped => st(emit_c(a, '<'), State::RawLessThanSign(RawKind::ScriptDataEscaped(k))),
        }
    }
    else if c == '\0' { emit_c(a, '\u{fffd}') }
    else { emit_c(a, c) }
}
#[verifier::opaque]
pub open spec fn s_rawdata(a: AbsTok, k: RawKind, c: char) -> AbsTok {
    match k {
        RawKind::Rcdata => s_rcdata(a, c),
        RawKind::Rawtext => s_rawtext(a, k, c),
        RawKind::ScriptData => s_rawtext(a, k, c),
        RawKind::ScriptDataEscaped(e) => s_script_escaped(a, e, c),
    }
}
#[verifier::opaque]
pub open spec fn s_plaintext(a: AbsTok, c: char) -> AbsTok {
    if c == '\0' { emit_c(a, '\u{fffd}') } else { emit_c(a, c) }
}
#[verifier::opaque]
pub open spec fn s_bogus_comment(a: AbsTok, c: char) -> AbsTok {
    if c == '>' { st(emit_comment(a), State::Data) }
    else if c == '\0' { push_comment(a, '\u{fffd}') }
    else { push_comment(a, c) }
}
#[verifier::opaque]
pub open spec fn s_tag_open(a: AbsTok, c: char) -> AbsTok {
    if c == '!' { st(a, State::MarkupDeclarationOpen) }
    else if c == '/' { st(a, State::EndTagOpen) }
    else if is_alpha(c) { st(create_tag(a, TagKind::StartTag, lower(c)), State::TagName) }
    else if c == '?' { s_bogus_comment(st(clear_comment(a), State::BogusComment), c) }
    else { s_data(st(emit_c(a, '<'), State::Data), c) }
}
#[verifier::opaque]
pub open spec fn s_end_tag_open(a: AbsTok, c: char) -> AbsTok {
    if is_alpha(c) { st(create_tag(a, TagKind::EndTag, lower(c)), State::TagName) }
    else if c == '>' { st(a, State::Data) }
    else { s_bogus_comment(st(clear_comment(a), State::BogusComment), c) }
}
#[verifier::opaque]
pub open spec fn s_tag_name(a: AbsTok, c: char) -> AbsTok {
    if is_ws(c) { st(a, State::BeforeAttributeName) }
    else if c == '/' { st(a, State::SelfClosingStartTag) }
    else if c == '>' { emit_tag(a, State::Data) }
    else if c == '\0' { push_tag(a, '\u{fffd}') }
    else { push_tag(a, lower(c)) }
}
/// RCDATA / RAWTEXT / script data / script data escaped less-than sign states
#[verifier::opaque]
pub open spec fn s_raw_lt(a: AbsTok, k: RawKind, c: char) -> AbsTok {
    match k {
        RawKind::ScriptDataEscaped(ScriptEscapeKind::Escaped) => {
            if c == '/' { st(clear_temp(a), State::RawEndTagOpen(k)) }
            else if is_alpha(c) {
                st(emit_c(emit_c(push_temp(clear_temp(a), lower(c)), '<'), c), State::ScriptDataEscapeStart(ScriptEscapeKind::DoubleEscaped))
            }
            else { s_rawdata(st(emit_c(a, '<'), State::RawData(k)), k, c) }
        },
        RawKind::ScriptDataEscaped(ScriptEscapeKind::DoubleEscaped) => {
            if c == '/' { st(emit_c(clear_temp(a), '/'), State::ScriptDataDoubleEscapeEnd) }
            else { s_rawdata(st(a, State::RawData(k)), k, c) }
        },
        _ => {
            if c == '/' { st(clear_temp(a), State::RawEndTagOpen(k)) }
            else if c == '!' && k == RawKind::ScriptData { st(emit_c(emit_c(a, '<'), '!'), State::ScriptDataEscapeStart(ScriptEscapeKind::Escaped)) }
            else { s_rawdata(st(emit_c(a, '<'), State::RawData(k)), k, c) }
        },
    }
}
#[verifier::opaque]
pub open spec fn s_raw_end_tag_open(a: AbsTok, k: RawKind, c: char) -> AbsTok {
    if is_alpha(c) { st(push_temp(create_tag(a, TagKind::EndTag, lower(c)), c), State::RawEndTagName(k)) }
    else { s_rawdata(st(emit_c(emit_c(a, '<'), '/'), State::RawData(k)), k, c) }
}
#[verifier::opaque]
pub open spec fn s_raw_end_tag_name(a: AbsTok, k: RawKind, c: char) -> AbsTok {
    if appropriate_end_tag(a) && is_ws(c) { st(clear_temp(a), State::BeforeAttributeName) }
    else if appropriate_end_tag(a) && c == '/' { st(clear_temp(a), State::SelfClosingStartTag) }
    else if appropriate_end_tag(a) && c == '>' { emit_tag(clear_temp(a), State::Data) }
    else if is_alpha(c) { push_temp(push_tag(a, lower(c)), c) }
    else { s_rawdata(st(emit_temp(emit_c(emit_c(discard_tag(a), '<'), '/')), State::RawData(k)), k, c) }
}
#[verifier::opaque]
pub open spec fn s_script_escape_start(a: AbsTok, k: ScriptEscapeKind, c: char) -> AbsTok {
    match k {
        // script data escape start state
        ScriptEscapeKind::Escaped => {
            if c == '-' { st(emit_c(a, '-'), State::ScriptDataEscapeStartDash) }
            else { s_rawdata(st(a, State::RawData(RawKind::ScriptData)), RawKind::ScriptData, c) }
        },
        // script data double escape start state
        ScriptEscapeKind::DoubleEscaped => {
            if is_ws(c) || c == '/' || c == '>' {
                let e = if a.temp == script_str() { ScriptEscapeKind::DoubleEscaped } else { ScriptEscapeKind::Escaped };
                st(emit_c(a, c), State::RawData(RawKind::ScriptDataEscaped(e)))
            }
            else if is_alpha(c) { emit_c(push_temp(a, lower(c)), c) }
            else { s_rawdata(st(a, State::RawData(RawKind::ScriptDataEscaped(ScriptEscapeKind::Escaped))), RawKind::ScriptDataEscaped(ScriptEscapeKind::Escaped), c) }
        },
    }
}
#[verifier::opaque]
pub open spec fn s_script_escape_start_dash(a: AbsTok, c: char) -> AbsTok {
    if c == '-' { st(emit_c(a, '-'), State::ScriptDataEscapedDashDash(ScriptEscapeKind::Escaped)) }
    else { s_rawdata(st(a, State::RawData(RawKind::ScriptData)), RawKind::ScriptData, c) }
}
#[verifier::opaque]
pub open spec fn s_script_escaped_dash(a: AbsTok, k: ScriptEscapeKind, c: char) -> AbsTok {
    if c == '-' { st(emit_c(a, '-'), State::ScriptDataEscapedDashDash(k)) }
    else if c == '<' {
        let b = if k == ScriptEscapeKind::DoubleEscaped { emit_c(a, '<') } else { a };
        st(b, State::RawLessThanSign(RawKind::ScriptDataEscaped(k)))
    }
    else if c == '\0' { st(emit_c(a, '\u{fffd}'), State::RawData(RawKind::ScriptDataEscaped(k))) }
    else { st(emit_c(a, c), State::RawData(RawKind::ScriptDataEscaped(k))) }
}
#[verifier::opaque]
pub open spec fn s_script_escaped_dash_dash(a: AbsTok, k: ScriptEscapeKind, c: char) -> AbsTok {
    if c == '-' { emit_c(a, '-') }
    else if c == '<' {
        let b = if k == ScriptEscapeKind::DoubleEscaped { emit_c(a, '<') } else { a };
        st(b, State::RawLessThanSign(RawKind::ScriptDataEscaped(k)))
    }
    else if c == '>' { st(emit_c(a, '>'), State::RawData(RawKind::ScriptData)) }
    else if c == '\0' { st(emit_c(a, '\u{fffd}'), State::RawData(RawKind::ScriptDataEscaped(k))) }
    else { st(emit_c(a, c), State::RawData(RawKind::ScriptDataEscaped(k))) }
}
#[verifier::opaque]
pub open spec fn s_script_double_escape_end(a: AbsTok, c: char) -> AbsTok {
    if is_ws(c) || c == '/' || c == '>' {
        let e = if a.temp == script_str() { ScriptEscapeKind::Escaped } else { ScriptEscapeKind::DoubleEscaped };
        st(emit_c(a, c), State::RawData(RawKind::ScriptDataEscaped(e)))
    }
    else if is_alpha(c) { emit_c(push_temp(a, lower(c)), c) }
    else { s_rawdata(st(a, State::RawData(RawKind::ScriptDataEscaped(ScriptEscapeKind::DoubleEscaped))), RawKind::ScriptDataEscaped(ScriptEscapeKind::DoubleEscaped), c) }
}
#[verifier::opaque]
pub open spec fn s_attr_name(a: AbsTok, c: char) -> AbsTok {
    if is_ws(c) { st(a, State::AfterAttributeName) }
    else if c == '/' { st(a, State::SelfClosingStartTag) }
    else if c == '>' { emit_tag(a, State::Data) }
    else if c == '=' { st(a, State::BeforeAttributeValue) }
    else if c == '\0' { push_name(a, '\u{fffd}') }
    else { push_name(a, lower(c)) }
}
#[verifier::opaque]
pub open spec fn s_before_attr_name(a: AbsTok, c: char) -> AbsTok {
    if is_ws(c) { a }
    else if c == '/' { st(a, State::SelfClosingStartTag) }
    else if c == '>' { emit_tag(a, State::Data) }
    else if c == '=' { st(create_attr(a, c), State::AttributeName) }
    // anything else: start a new attribute, reconsume in the attribute name state
    else if c == '\0' { st(create_attr(a, '\u{fffd}'), State::AttributeName) }
    else { st(create_attr(a, lower(c)), State::AttributeName) }
}
#[verifier::opaque]
pub open spec fn s_after_attr_name(a: AbsTok, c: char) -> AbsTok {
    if is_ws(c) { a }
    else if c == '/' { st(a, State::SelfClosingStartTag) }
    else if c == '=' { st(a, State::BeforeAttributeValue) }
    else if c == '>' { emit_tag(a, State::Data) }
    else if c == '\0' { st(create_attr(a, '\u{fffd}'), State::AttributeName) }
    else { st(create_attr(a, lower(c)), State::AttributeName) }
}
#[verifier::opaque]
pub open spec fn s_attr_value(a: AbsTok, k: AttrValueKind, c: char) -> AbsTok {
    match k {
        AttrValueKind::DoubleQuoted => {
            if c == '"' { st(a, State::AfterAttributeValueQuoted) }
            else if c == '&' { start_cr(a) }
            else if c == '\0' { push_value(a, '\u{fffd}') }
            else { push_value(a, c) }
        },
        AttrValueKind::SingleQuoted => {
            if c == '\'' { st(a, State::AfterAttributeValueQuoted) }
            else if c == '&' { start_cr(a) }
            else if c == '\0' { push_value(a, '\u{fffd}') }
            else { push_value(a, c) }
        },
        AttrValueKind::Unquoted => {
            if is_ws(c) { st(a, State::BeforeAttributeName) }
            else if c == '&' { start_cr(a) }
            else if c == '>' { emit_tag(a, State::Data) }
            else if c == '\0' { push_value(a, '\u{fffd}') }
            else { push_value(a, c) }
        },
    }
}
#[verifier::opaque]
pub open spec fn s_before_attr_value(a: AbsTok, c: char) -> AbsTok {
    if is_ws(c) { a }
    else if c == '"' { st(a, State::AttributeValue(AttrValueKind::DoubleQuoted)) }
    else if c == '\'' { st(a, State::AttributeValue(AttrValueKind::SingleQuoted)) }
    else if c == '>' { emit_tag(a, State::Data) }
    else { s_attr_value(st(a, State::AttributeValue(AttrValueKind::Unquoted)), AttrValueKind::Unquoted, c) }
}
#[verifier::opaque]
pub open spec fn s_after_attr_value_quoted(a: AbsTok, c: char) -> AbsTok {
    if is_ws(c) { st(a, State::BeforeAttributeName) }
    else if c == '/' { st(a, State::SelfClosingStartTag) }
    else if c == '>' { emit_tag(a, State::Data) }
    else { s_before_attr_name(st(a, State::BeforeAttributeName), c) }
}
#[verifier::opaque]
pub open spec fn s_self_closing(a: AbsTok, c: char) -> AbsTok {
    if c == '>' { emit_tag(AbsTok { self_closing: true, ..a }, State::Data) }
    else { s_before_attr_name(st(a, State::BeforeAttributeName), c) }
}
// ---- comments (quotient: see header) ----
#[verifier::opaque]
pub open spec fn s_comment(a: AbsTok, c: char) -> AbsTok {
    if c == '<' { st(push_comment(a, c), State::CommentLessThanSign) }
    else if c == '-' { st(a, State::CommentEndDash) }
    else if c == '\0' { push_comment(a, '\u{fffd}') }
    else { push_comment(a, c) }
}
/// "append c and stay in / switch to the comment state" for a character that the comment state
/// would simply append (the '<' case lands in the comment-less-than-sign family, which the
/// quotient identifies with the comment state)
#[verifier::opaque]
pub open spec fn comment_plain(a: AbsTok, c: char) -> AbsTok {
    if c == '\0' { st(push_comment(a, '\u{fffd}'), State::Comment) } else { st(push_comment(a, c), State::Comment) }
}
#[verifier::opaque]
pub open spec fn s_comment_start(a: AbsTok, c: char) -> AbsTok {
    if c == '-' { st(a, State::CommentStartDash) }
    else if c == '>' { st(emit_comment(a), State::Data) }
    else { comment_plain(a, c) }
}
#[verifier::opaque]
pub open spec fn s_comment_start_dash(a: AbsTok, c: char) -> AbsTok {
    if c == '-' { st(a, State::CommentEnd) }
    else if c == '>' { st(emit_comment(a), State::Data) }
    else { comment_plain(push_comment(a, '-'), c) }
}
#[verifier::opaque]
pub open spec fn s_comment_lt(a: AbsTok, c: char) -> AbsTok {
    if c == '!' { st(push_comment(a, c), State::CommentLessThanSignBang) }
    else if c == '<' { push_comment(a, c) }
    else { s_comment(st(a, State::Comment), c) }
}
#[verifier::opaque]
pub open spec fn s_comment_lt_bang(a: AbsTok, c: char) -> AbsTok {
    if c == '-' { st(a, State::CommentLessThanSignBangDash) }
    else { s_comment(st(a, State::Comment), c) }
}
#[verifier::opaque]
pub open spec fn s_comment_end_dash(a: AbsTok, c: char) -> AbsTok {
    if c == '-' { st(a, State::CommentEnd) }
    else { comment_plain(push_comment(a, '-'), c) }
}
#[verifier::opaque]
pub open spec fn s_comment_lt_bang_dash(a: AbsTok, c: char) -> AbsTok {
    if c == '-' { st(a, State::CommentLessThanSignBangDashDash) }
    else { s_comment_end_dash(st(a, State::CommentEndDash), c) }
}
#[verifier::opaque]
pub open spec fn s_comment_end(a: AbsTok, c: char) -> AbsTok {
    if c == '>' { st(emit_comment(a), State::Data) }
    else if c == '!' { st(a, State::CommentEndBang) }
    else if c == '-' { push_comment(a, '-') }
    else { s_comment(st(append_comment(a, seq!['-', '-']), State::Comment), c) }
}
#[verifier::opaque]
pub open spec fn s_comment_lt_bang_dash_dash(a: AbsTok, c: char) -> AbsTok {
    s_comment_end(st(a, State::CommentEnd), c)
}
#[verifier::opaque]
pub open spec fn s_comment_end_bang(a: AbsTok, c: char) -> AbsTok {
    if c == '-' { st(append_comment(a, seq!['-', '-', '!']), State::CommentEndDash) }
    else if c == '>' { st(emit_comment(a), State::Data) }
    else { comment_plain(append_comment(a, seq!['-', '-', '!']), c) }
}
// ---- DOCTYPE ----
#[verifier::opaque]
pub open spec fn s_before_doctype_name(a: AbsTok, c: char) -> AbsTok {
    if is_ws(c) { a }
    else if c == '\0' { st(push_dt_name(create_doctype(a), '\u{fffd}'), State::DoctypeName) }
    else if c == '>' { st(emit_doctype(force_quirks(create_doctype(a))), State::Data) }
    else { st(push_dt_name(create_doctype(a), lower(c)), State::DoctypeName) }
}
#[verifier::opaque]
pub open spec fn s_doctype(a: AbsTok, c: char) -> AbsTok {
    if is_ws(c) { st(a, State::BeforeDoctypeName) }
    else { s_before_doctype_name(st(a, State::BeforeDoctypeName), c) }
}
#[verifier::opaque]
pub open spec fn s_doctype_name(a: AbsTok, c: char) -> AbsTok {
    if is_ws(c) { st(clear_temp(a), State::AfterDoctypeName) }
    else if c == '>' { st(emit_doctype(a), State::Data) }
    else if c == '\0' { push_dt_name(a, '\u{fffd}') }
    else { push_dt_name(a, lower(c)) }
}
#[verifier::opaque]
pub open spec fn s_bogus_doctype(a: AbsTok, c: char) -> AbsTok {
    if c == '>' { st(emit_doctype(a), State::Data) } else { a }
}
#[verifier::opaque]
pub open spec fn s_after_doctype_keyword(a: AbsTok, k: DoctypeIdKind, c: char) -> AbsTok {
    if is_ws(c) { st(a, State::BeforeDoctypeIdentifier(k)) }
    else if c == '"' { st(clear_dt_id(a, k), State::DoctypeIdentifierDoubleQuoted(k)) }
    else if c == '\'' { st(clear_dt_id(a, k), State::DoctypeIdentifierSingleQuoted(k)) }
    else if c == '>' { st(emit_doctype(force_quirks(a)), State::Data) }
    else { s_bogus_doctype(st(force_quirks(a), State::BogusDoctype), c) }
}
#[verifier::opaque]
pub open spec fn s_before_doctype_id(a: AbsTok, k: DoctypeIdKind, c: char) -> AbsTok {
    if is_ws(c) { a }
    else if c == '"' { st(clear_dt_id(a, k), State::DoctypeIdentifierDoubleQuoted(k)) }
    else if c == '\'' { st(clear_dt_id(a, k), State::DoctypeIdentifierSingleQuoted(k)) }
    else if c == '>' { st(emit_doctype(force_quirks(a)), State::Data) }
    else { s_bogus_doctype(st(force_quirks(a), State::BogusDoctype), c) }
}
#[verifier::opaque]
pub open spec fn s_doctype_id_quoted(a: AbsTok, k: DoctypeIdKind, q: char, c: char) -> AbsTok {
    if c == q { st(a, State::AfterDoctypeIdentifier(k)) }
    else if c == '\0' { push_dt_id(a, k, '\u{fffd}') }
    else if c == '>' { st(emit_doctype(force_quirks(a)), State::Data) }
    else { push_dt_id(a, k, c) }
}
#[verifier::opaque]
pub open spec fn s_after_doctype_id(a: AbsTok, k: DoctypeIdKind, c: char) -> AbsTok {
    match k {
        DoctypeIdKind::Public => {
            if is_ws(c) { st(a, State::BetweenDoctypePublicAndSystemIdentifiers) }
            else if c == '>' { st(emit_doctype(a), State::Data) }
            else if c == '"' { st(clear_dt_id(a, DoctypeIdKind::System), State::DoctypeIdentifierDoubleQuoted(DoctypeIdKind::System)) }
            else if c == '\'' { st(clear_dt_id(a, DoctypeIdKind::System), State::DoctypeIdentifierSingleQuoted(DoctypeIdKind::System)) }
            else { s_bogus_doctype(st(force_quirks(a), State::BogusDoctype), c) }
        },
        DoctypeIdKind::System => {
            if is_ws(c) { a }
            else if c == '>' { st(emit_doctype(a), State::Data) }
            else { s_bogus_doctype(st(a, State::BogusDoctype), c) }
        },
    }
}
#[verifier::opaque]
pub open spec fn s_between_doctype_ids(a: AbsTok, c: char) -> AbsTok {
    if is_ws(c) { a }
    else if c == '>' { st(emit_doctype(a), State::Data) }
    else if c == '"' { st(clear_dt_id(a, DoctypeIdKind::System), State::DoctypeIdentifierDoubleQuoted(DoctypeIdKind::System)) }
    else if c == '\'' { st(clear_dt_id(a, DoctypeIdKind::System), State::DoctypeIdentifierSingleQuoted(DoctypeIdKind::System)) }
    else { s_bogus_doctype(st(force_quirks(a), State::BogusDoctype), c) }
}
// ---- CDATA (buffered: see header) ----
#[verifier::opaque]
pub open spec fn s_cdata(a: AbsTok, c: char) -> AbsTok {
    if c == ']' { st(a, State::CdataSectionBracket) }
    else if c == '\0' { emit_c(emit_temp(a), '\0') }
    else { push_temp(a, c) }
}
#[verifier::opaque]
pub open spec fn s_cdata_bracket(a: AbsTok, c: char) -> AbsTok {
    if c == ']' { st(a, State::CdataSectionEnd) }
    else { s_cdata(st(push_temp(a, ']'), State::CdataSection), c) }
}
#[verifier::opaque]
pub open spec fn s_cdata_end(a: AbsTok, c: char) -> AbsTok {
    if c == ']' { push_temp(a, ']') }
    else if c == '>' { st(emit_temp(a), State::Data) }
    else { s_cdata(st(push_temp(push_temp(a, ']'), ']'), State::CdataSection), c) }
}

/// every state except the two look-ahead states
#[verifier::opaque]
pub open spec fn s_simple(a: AbsTok, c: char) -> AbsTok {
    match a.state {
        State::Data => s_data(a, c),
        State::Plaintext => s_plaintext(a, c),
        State::TagOpen => s_tag_open(a, c),
        State::EndTagOpen => s_end_tag_open(a, c),
        State::TagName => s_tag_name(a, c),
        State::RawData(k) => s_rawdata(a, k, c),
        State::RawLessThanSign(k) => s_raw_lt(a, k, c),
        State::RawEndTagOpen(k) => s_raw_end_tag_open(a, k, c),
        State::RawEndTagName(k) => s_raw_end_tag_name(a, k, c),
        State::ScriptDataEscapeStart(k) => s_script_escape_start(a, k, c),
        State::ScriptDataEscapeStartDash => s_script_escape_start_dash(a, c),
        State::ScriptDataEscapedDash(k) => s_script_escaped_dash(a, k, c),
        State::ScriptDataEscapedDashDash(k) => s_script_escaped_dash_dash(a, k, c),
        State::ScriptDataDoubleEscapeEnd => s_script_double_escape_end(a, c),
        State::BeforeAttributeName => s_before_attr_name(a, c),
        State::AttributeName => s_attr_name(a, c),
        State::AfterAttributeName => s_after_attr_name(a, c),
        State::BeforeAttributeValue => s_before_attr_value(a, c),
        State::AttributeValue(k) => s_attr_value(a, k, c),
        State::AfterAttributeValueQuoted => s_after_attr_value_quoted(a, c),
        State::SelfClosingStartTag => s_self_closing(a, c),
        State::BogusComment => s_bogus_comment(a, c),
        State::MarkupDeclarationOpen => a,
        State::CommentStart => s_comment_start(a, c),
        State::CommentStartDash => s_comment_start_dash(a, c),
        State::Comment => s_comment(a, c),
        State::CommentLessThanSign => s_comment_lt(a, c),
        State::CommentLessThanSignBang => s_comment_lt_bang(a, c),
        State::CommentLessThanSignBangDash => s_comment_lt_bang_dash(a, c),
        State::CommentLessThanSignBangDashDash => s_comment_lt_bang_dash_dash(a, c),
        State::CommentEndDash => s_comment_end_dash(a, c),
        State::CommentEnd => s_comment_end(a, c),
        State::CommentEndBang => s_comment_end_bang(a, c),
        State::Doctype => s_doctype(a, c),
        State::BeforeDoctypeName => s_before_doctype_name(a, c),
        State::DoctypeName => s_doctype_name(a, c),
        State::AfterDoctypeName => a,
        State::AfterDoctypeKeyword(k) => s_after_doctype_keyword(a, k, c),
        State::BeforeDoctypeIdentifier(k) => s_before_doctype_id(a, k, c),
        State::DoctypeIdentifierDoubleQuoted(k) => s_doctype_id_quoted(a, k, '"', c),
        State::DoctypeIdentifierSingleQuoted(k) => s_doctype_id_quoted(a, k, '\'', c),
        State::AfterDoctypeIdentifier(k) => s_after_doctype_id(a, k, c),
        State::BetweenDoctypePublicAndSystemIdentifiers => s_between_doctype_ids(a, c),
        State::BogusDoctype => s_bogus_doctype(a, c),
        State::CdataSection => s_cdata(a, c),
        State::CdataSectionBracket => s_cdata_bracket(a, c),
        State::CdataSectionEnd => s_cdata_end(a, c),
    }
}

// ======================================================================================
// look-ahead states: characters are accumulated in `temp` while they are a viable prefix
// ======================================================================================
pub open spec fn pat_dashdash() -> Seq<char> { seq!['-', '-'] }
pub open spec fn pat_doctype() -> Seq<char> { seq!['d', 'o', 'c', 't', 'y', 'p', 'e'] }
pub open spec fn pat_cdata() -> Seq<char> { seq!['[', 'C', 'D', 'A', 'T', 'A', '['] }
pub open spec fn pat_public() -> Seq<char> { seq!['p', 'u', 'b', 'l', 'i', 'c'] }
pub open spec fn pat_system() -> Seq<char> { seq!['s', 'y', 's', 't', 'e', 'm'] }

/// l is a prefix of pattern p (ASCII case-insensitively when `ci`)
pub open spec fn pre_match(l: Seq<char>, p: Seq<char>, ci: bool) -> bool {
    l.len() <= p.len() && forall|i: int| 0 <= i < l.len() ==> (if ci { lower(#[trigger] l[i]) == p[i] } else { l[i] == p[i] })
}
pub open spec fn full_match(l: Seq<char>, p: Seq<char>, ci: bool) -> bool { l.len() == p.len() && pre_match(l, p, ci) }

/// re-process already-consumed (and already-counted) characters in the current, non-look-ahead state
#[verifier::opaque]
pub open spec fn reprocess(a: AbsTok, l: Seq<char>) -> AbsTok
    decreases l.len()
{
    if l.len() == 0 { a } else { reprocess(s_simple(a, l[0]), l.drop_first()) }
}
#[verifier::opaque]
pub open spec fn s_mdo(a: AbsTok, c: char) -> AbsTok {
    let l = a.temp.push(c);
    if full_match(l, pat_dashdash(), false) { st(clear_comment(clear_temp(a)), State::CommentStart) }
    else if full_match(l, pat_doctype(), true) { st(clear_temp(a), State::Doctype) }
    else if sink_cdata_ok(a.out) && full_match(l, pat_cdata(), false) { st(clear_temp(a), State::CdataSection) }
    else if pre_match(l, pat_dashdash(), false) || pre_match(l, pat_doctype(), true)
        || (sink_cdata_ok(a.out) && pre_match(l, pat_cdata(), false)) { push_temp(a, c) }
    else { reprocess(st(clear_comment(clear_temp(a)), State::BogusComment), l) }
}
#[verifier::opaque]
pub open spec fn s_after_doctype_name(a: AbsTok, c: char) -> AbsTok {
    let l = a.temp.push(c);
    if a.temp.len() == 0 && is_ws(c) { a }
    else if a.temp.len() == 0 && c == '>' { st(emit_doctype(a), State::Data) }
    else if full_match(l, pat_public(), true) { st(clear_temp(a), State::AfterDoctypeKeyword(DoctypeIdKind::Public)) }
    else if full_match(l, pat_system(), true) { st(clear_temp(a), State::AfterDoctypeKeyword(DoctypeIdKind::System)) }
    else if pre_match(l, pat_public(), true) || pre_match(l, pat_system(), true) { push_temp(a, c) }
    else { reprocess(st(force_quirks(clear_temp(a)), State::BogusDoctype), l) }
}

/// one step of the tokenizer on one normalised input character
/// delivery of a character: a re-consumed character was counted when it was first consumed
pub open spec fn pre_step(a0: AbsTok, c: char) -> AbsTok {
    if a0.recons { AbsTok { recons: false, ..a0 } }
    else if c == '\n' { AbsTok { line: a0.line + 1, ..a0 } } else { a0 }
}
#[verifier::opaque]
pub open spec fn spec_step(a0: AbsTok, c: char) -> AbsTok {
    // a character reference in progress reads the character itself (what it consumes is never a line break;
    // what it does not consume is handed to the return state, which counts it)
    if a0.cr.is_some() { cr_step(a0, c) }
    else {
        let a = pre_step(a0, c);
        match a.state {
            State::MarkupDeclarationOpen => s_mdo(a, c),
            State::AfterDoctypeName => s_after_doctype_name(a, c),
            _ => s_simple(a, c),
        }
    }
}
#[verifier::opaque]
pub open spec fn run(a: AbsTok, s: Seq<char>) -> AbsTok
    decreases s.len()
{
    if s.len() == 0 { a } else { run(spec_step(a, s[0]), s.drop_first()) }
}

// ---------------- end of file ----------------
/// "reconsume the EOF": the pseudo-character is delivered again (unobservable; mirrors the flag)
pub open spec fn rc(a: AbsTok) -> AbsTok { AbsTok { recons: true, ..a } }
/// one EOF step; `None` once the EOF token has been emitted
#[verifier::opaque]
pub open spec fn eof_step1(a: AbsTok) -> Option<AbsTok> {
    match a.state {
        State::Data | State::Plaintext | State::RawData(RawKind::Rcdata) | State::RawData(RawKind::Rawtext)
        | State::RawData(RawKind::ScriptData) => None,
        State::RawData(RawKind::ScriptDataEscaped(_)) => Some(st(a, State::Data)),
        State::TagOpen => Some(st(emit_c(a, '<'), State::Data)),
        State::EndTagOpen => Some(st(emit_c(emit_c(a, '<'), '/'), State::Data)),
        State::TagName | State::BeforeAttributeName | State::AttributeName | State::AfterAttributeName
        | State::AttributeValue(_) | State::AfterAttributeValueQuoted | State::SelfClosingStartTag
        | State::ScriptDataEscapedDash(_) | State::ScriptDataEscapedDashDash(_) => Some(st(a, State::Data)),
        State::BeforeAttributeValue => Some(rc(st(a, State::AttributeValue(AttrValueKind::Unquoted)))),
        State::RawLessThanSign(RawKind::ScriptDataEscaped(ScriptEscapeKind::DoubleEscaped)) =>
            Some(st(a, State::RawData(RawKind::ScriptDataEscaped(ScriptEscapeKind::DoubleEscaped)))),
        State::RawLessThanSign(k) => Some(st(emit_c(a, '<'), State::RawData(k))),
        State::RawEndTagOpen(k) => Some(st(emit_c(emit_c(a, '<'), '/'), State::RawData(k))),
        State::RawEndTagName(k) => Some(st(emit_temp(emit_c(emit_c(a, '<'), '/')), State::RawData(k))),
        State::ScriptDataEscapeStart(k) => Some(st(a, State::RawData(RawKind::ScriptDataEscaped(k)))),
        State::ScriptDataEscapeStartDash => Some(st(a, State::RawData(RawKind::ScriptData))),
        State::ScriptDataDoubleEscapeEnd => Some(st(a, State::RawData(RawKind::ScriptDataEscaped(ScriptEscapeKind::DoubleEscaped)))),
        State::CommentStart | State::CommentStartDash | State::Comment | State::CommentEndDash | State::CommentEnd
        | State::CommentEndBang | State::BogusComment => Some(st(emit_comment(a), State::Data)),
        State::CommentLessThanSign | State::CommentLessThanSignBang => Some(rc(st(a, State::Comment))),
        State::CommentLessThanSignBangDash => Some(rc(st(a, State::CommentEndDash))),
        State::CommentLessThanSignBangDashDash => Some(rc(st(a, State::CommentEnd))),
        State::Doctype | State::BeforeDoctypeName => Some(st(emit_doctype(force_quirks(create_doctype(a))), State::Data)),
        State::AfterDoctypeName => Some(st(emit_doctype(force_quirks(clear_temp(a))), State::Data)),
        State::DoctypeName | State::AfterDoctypeKeyword(_) | State::BeforeDoctypeIdentifier(_)
        | State::DoctypeIdentifierDoubleQuoted(_) | State::DoctypeIdentifierSingleQuoted(_) | State::AfterDoctypeIdentifier(_)
        | State::BetweenDoctypePublicAndSystemIdentifiers => Some(st(emit_doctype(force_quirks(a)), State::Data)),
        State::BogusDoctype => Some(st(emit_doctype(a), State::Data)),
        State::MarkupDeclarationOpen => Some(reprocess(st(clear_comment(clear_temp(a)), State::BogusComment), a.temp)),
        State::CdataSection => Some(st(emit_temp(a), State::Data)),
        State::CdataSectionBracket => Some(st(push_temp(a, ']'), State::CdataSection)),
        State::CdataSectionEnd => Some(st(push_temp(push_temp(a, ']'), ']'), State::CdataSection)),
    }
}

/// one EOF step, or the state itself once only the EOF token remains to be emitted
pub open spec fn eof1(a: AbsTok) -> AbsTok { match eof_step1(a) { Some(b) => b, None => a } }
/// everything that happens at end of input (no EOF chain is longer than three steps)
pub open spec fn eof_close(a: AbsTok) -> AbsTok { emit(eof1(eof1(eof1(eof1(a)))), OutTok::Eof) }

// ---- flushing the result of a character reference into the return state ----
pub open spec fn flush1(a: AbsTok, c: char) -> AbsTok { if a.state is AttributeValue { push_value(a, c) } else { emit_c(a, c) } }
pub open spec fn flush_chars(a: AbsTok, cs: Seq<char>, n: int) -> AbsTok {
    if n <= 0 { a } else if n == 1 { flush1(a, cs[0]) } else { flush1(flush1(a, cs[0]), cs[1]) }
}
/// zero characters means "not a character reference": the ampersand itself is flushed
pub open spec fn flush_char_ref(a: AbsTok, cs: Seq<char>, num: int) -> AbsTok {
    if num == 0 { flush1(a, '&') } else { flush_chars(a, cs, num) }
}
