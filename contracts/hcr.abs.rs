// ======================================================================================
// vocabulary of the contracts of the HTML character-reference tokenizer (hand-written specification)
// ======================================================================================
/// what the character-reference tokenizer needs of its host (the tokenizer it was taken out of, rule R30)
pub open spec fn cr_host_ok(t: &Tokenizer, cr: &CharRefTokenizer) -> bool {
    &&& t.abs().cr is None && !t.abs().recons && cr_host_state(t.abs().state) && !t.aux().ig
    &&& cr.in_attr() == (t.abs().state is AttributeValue)
}
/// simulation measure of the pair (host, character-reference tokenizer): where the WHATWG machine ends on the pending input
pub open spec fn crsim(t: &Tokenizer, cr: AbsCr, q: &BufferQueue) -> AbsTok { run(cr_upd(t.abs(), cr), t.npend(q)) }
/// the same once the reference is finished with result `x` (process_char_ref flushes it into the host)
pub open spec fn crdone(t: &Tokenizer, x: CharRef, q: &BufferQueue) -> AbsTok {
    run(flush_char_ref(t.abs(), x.chars@, x.num_chars as int), t.npend(q))
}
/// the sub-tokenizer changes nothing of its host but the input queue (and clears an already clear CR flag)
pub open spec fn cr_frame(t0: &Tokenizer, t1: &Tokenizer) -> bool {
    t1.abs() == t0.abs() && t1.same_config(t0) && !t1.aux().ig && t1.aux().cur == t0.aux().cur
}
/// meaning of a Status: the simulation measure is preserved whatever is returned
pub open spec fn cr_status(r: Status, t0: &Tokenizer, c0: &CharRefTokenizer, q0: &BufferQueue,
                           t1: &Tokenizer, c1: &CharRefTokenizer, q1: &BufferQueue) -> bool {
    &&& cr_frame(t0, t1)
    &&& q1.wf()
    &&& c1.in_attr() == c0.in_attr()
    &&& match r {
        Status::Stuck => c1.abs() == c0.abs() && c1.wf() && q1.view().len() == 0 && q1.view() == q0.view(),
        // progress (termination measure): a character was taken from the queue into the name / accumulator, or nothing was
        // consumed and the sub-tokenizer moved down its state order
        Status::Progress => c1.wf() && crsim(t1, c1.abs(), q1) == crsim(t0, c0.abs(), q0)
            && ((q1.view().len() < q0.view().len() && q1.view().len() + c1.kret() <= q0.view().len() + c0.kret())
                || (q1.view().len() == q0.view().len() && c1.kret() == c0.kret() && c1.crrank() < c0.crrank())),
        // what is pushed back is at most what was held
        Status::Done(x) => x.num_chars <= 2 && crdone(t1, x, q1) == crsim(t0, c0.abs(), q0)
            && q1.view().len() <= q0.view().len() + c0.kret(),
    }
}
/// CR is read raw by the sub-tokenizer; the machine sees the normalised character
pub open spec fn nchar(c: char) -> char { if c == '\r' { '\n' } else { c } }
pub open spec fn nend(e: Option<char>) -> Option<char> { match e { Some(c) => Some(nchar(c)), None => None } }
/// the name consumed before the character that ended the named state (that character was pushed to the buffer too)
pub open spec fn name_before(cr: &CharRefTokenizer, end_char: Option<char>) -> Seq<char> {
    if end_char is Some { cr.abs().name.drop_last() } else { cr.abs().name }
}
pub closed spec fn named_end_pre(cr: &CharRefTokenizer, end_char: Option<char>) -> bool {
    let nb = cr.abs().name;
    let name0 = name_before(cr, end_char);
    &&& (end_char matches Some(c) ==> nb.len() > 0 && nb.last() == c && !ent_prefix(nb))
    &&& (!cr.num_too_big ==> cr.num <= 0x10FFFF + 15)
    &&& ent_prefix(name0)
    &&& cr.name_len as int == longest_match(name0, name0.len() as int)
    &&& (cr.name_len == 0 ==> cr.name_match is None)
    &&& (cr.name_len > 0 ==> cr.name_match == ent_value(name0.take(cr.name_len as int)))
}
/// where the machine ends when the named state stops on `end_char` with the rest of the input still queued
pub open spec fn named_end_target(t: &Tokenizer, cr: &CharRefTokenizer, end_char: Option<char>, q: &BufferQueue) -> AbsTok {
    let a0 = cr_upd(t.abs(), AbsCr { name: name_before(cr, end_char), ..cr.abs() });
    run(cr_named_end(a0, nend(end_char)), norm(end_char == Some('\r'), q.view()))
}

// (axiom_ent_table and lemma_ascii_chars are in enttab.prelude.rs)

// ---- lemmas about the character-reference part of the spec machine (proved; no code involved) ----
pub open spec fn plain_cr(c: char) -> bool { spec_alnum(c) || c == ';' || c == '#' }
pub open spec fn all_plain_cr(x: Seq<char>) -> bool { forall|i: int| 0 <= i < x.len() ==> plain_cr(#[trigger] x[i]) }
/// un-consumed plain characters are handled by the return state as ordinary text
pub proof fn lemma_host_plain(b: AbsTok, x: Seq<char>, rest: Seq<char>)
    requires b.cr is None, !b.recons, cr_host_state(b.state), all_plain_cr(x),
    ensures run(b, x + rest) == run(flush_seq(b, x), rest),
{
    lemma_run_concat(b, x, rest);
    if b.state is AttributeValue {
        let k = b.state->AttributeValue_0;
        assert forall|i: int| 0 <= i < x.len() implies plain_attr(k, #[trigger] x[i]) by { assert(plain_cr(x[i])); }
        lemma_run_attr(b, k, x);
    } else {
        assert forall|i: int| 0 <= i < x.len() implies plain_text(b.state, #[trigger] x[i]) by { assert(plain_cr(x[i])); }
        lemma_run_text(b, x);
    }
}
pub proof fn lemma_host_step(b: AbsTok, c: char, rest: Seq<char>)
    requires b.cr is None, cr_host_state(b.state),
    ensures run(b, seq![c] + rest) == run(host_step(b, c), rest),
{
    lemma_run_cons(b, c, rest);
    reveal(spec_step);
}
pub proof fn lemma_cr_cons(a: AbsTok, c: char, rest: Seq<char>)
    requires a.cr is Some,
    ensures run(a, seq![c] + rest) == run(cr_step(a, c), rest),
{
    lemma_run_cons(a, c, rest);
    reveal(spec_step);
}
pub proof fn lemma_norm_head(v: Seq<char>)
    requires v.len() > 0,
    ensures norm(false, v) == seq![nchar(v[0])] + norm(v[0] == '\r', v.drop_first()),
{
    reveal_with_fuel(norm, 2);
}
/// a character reference in progress looks at the first pending character
pub proof fn lemma_cr_head(a: AbsTok, v: Seq<char>)
    requires a.cr is Some, v.len() > 0,
    ensures run(a, norm(false, v)) == run(cr_step(a, nchar(v[0])), norm(v[0] == '\r', v.drop_first())),
{
    lemma_norm_head(v);
    lemma_cr_cons(a, nchar(v[0]), norm(v[0] == '\r', v.drop_first()));
}
pub proof fn lemma_host_head(b: AbsTok, v: Seq<char>)
    requires b.cr is None, cr_host_state(b.state), v.len() > 0,
    ensures run(b, norm(false, v)) == run(host_step(b, nchar(v[0])), norm(v[0] == '\r', v.drop_first())),
{
    lemma_norm_head(v);
    lemma_host_step(b, nchar(v[0]), norm(v[0] == '\r', v.drop_first()));
}
pub proof fn lemma_flush_amp(b: AbsTok, x: Seq<char>)
    requires cr_host_state(b.state),
    ensures flush_seq(flush1(b, '&'), x) == flush_seq(b, seq!['&'] + x),
{
    if b.state is AttributeValue {
        assert(b.attr_value.push('&') + x =~= b.attr_value + (seq!['&'] + x));
    } else {
        assert(b.out.push(Out { tok: OutTok::Char('&'), line: 0 }) + chars_out(x) =~= b.out + chars_out(seq!['&'] + x));
    }
}
pub proof fn lemma_flush_empty(b: AbsTok)
    ensures flush_seq(b, Seq::<char>::empty()) == b,
{
    assert(b.attr_value + Seq::<char>::empty() =~= b.attr_value);
    assert(b.out + chars_out(Seq::<char>::empty()) =~= b.out);
}
/// pushing un-consumed plain characters `x` back in front of the queue `v` (no CR pending)
pub proof fn lemma_unconsume(b: AbsTok, x: Seq<char>, v: Seq<char>)
    requires b.cr is None, !b.recons, cr_host_state(b.state), all_plain_cr(x),
    ensures run(b, norm(false, x + v)) == run(flush_seq(b, x), norm(false, v)),
{
    assert forall|i: int| 0 <= i < x.len() implies #[trigger] x[i] != '\r' && x[i] != '\n' by { assert(plain_cr(x[i])); }
    lemma_norm_plain(x, v);
    lemma_host_plain(b, x, norm(false, v));
}
pub proof fn lemma_lm_bound(name: Seq<char>, k: int)
    ensures 0 <= longest_match(name, k) <= (if k < 0 { 0 } else { k }),
            longest_match(name, k) > 0 ==> ent_value(name.take(longest_match(name, k))) is Some,
    decreases k,
{
    if k > 0 { lemma_lm_bound(name, k - 1); }
}
/// prefixes no longer than k do not see what comes after them
pub proof fn lemma_lm_ext(name: Seq<char>, ext: Seq<char>, k: int)
    requires k <= name.len(),
    ensures longest_match(name + ext, k) == longest_match(name, k),
    decreases k,
{
    if k > 0 {
        assert((name + ext).take(k) =~= name.take(k));
        lemma_lm_ext(name, ext, k - 1);
    }
}
