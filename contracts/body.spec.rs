// ---- U-inbody: the "in body" insertion mode (13.2.6.4.7) ----
pub open spec fn set_default() -> spec_fn(ExpandedName) -> bool { |p: ExpandedName| ts_default_scope(p) }
pub open spec fn set_list_item() -> spec_fn(ExpandedName) -> bool { |p: ExpandedName| ts_list_item_scope(p) }
pub open spec fn set_heading() -> spec_fn(ExpandedName) -> bool { |p: ExpandedName| ts_heading_tag(p) }
pub open spec fn is_heading() -> spec_fn(Handle) -> bool { |h: Handle| ts_heading_tag(elem_name_of(h)) }
/// facts about the tag sets used by the in-body rules (PROVED from the repository's own tag-set text, module `ts`)
pub proof fn lemma_body_sets()
    ensures
        !ts_cursory_implied_end(html_name(local_name!("html"))), !ts_heading_tag(html_name(local_name!("html"))), ts_special_tag(html_name(local_name!("html"))),
        ts_default_scope(html_name(local_name!("html"))), ts_button_scope(html_name(local_name!("html"))), ts_list_item_scope(html_name(local_name!("html"))),
        forall|p: ExpandedName| #[trigger] ts_default_scope(p) ==> ts_button_scope(p) && ts_list_item_scope(p),
        forall|p: ExpandedName| #[trigger] ts_cursory_implied_end(p) == (p == html_name(local_name!("dd")) || p == html_name(local_name!("dt")) || p == html_name(local_name!("li"))
            || p == html_name(local_name!("option")) || p == html_name(local_name!("optgroup")) || p == html_name(local_name!("p")) || p == html_name(local_name!("rb"))
            || p == html_name(local_name!("rp")) || p == html_name(local_name!("rt")) || p == html_name(local_name!("rtc"))),
        // the formatting elements are not special
        !ts_special_tag(html_name(local_name!("a"))), !ts_special_tag(html_name(local_name!("b"))), !ts_special_tag(html_name(local_name!("big"))), !ts_special_tag(html_name(local_name!("code"))),
        !ts_special_tag(html_name(local_name!("em"))), !ts_special_tag(html_name(local_name!("font"))), !ts_special_tag(html_name(local_name!("i"))), !ts_special_tag(html_name(local_name!("nobr"))),
        !ts_special_tag(html_name(local_name!("s"))), !ts_special_tag(html_name(local_name!("small"))), !ts_special_tag(html_name(local_name!("strike"))), !ts_special_tag(html_name(local_name!("strong"))),
        !ts_special_tag(html_name(local_name!("tt"))), !ts_special_tag(html_name(local_name!("u"))),
{
    reveal(ts_cursory_implied_end);
    reveal(ts_heading_tag);
    reveal(ts_special_tag);
    reveal(ts_default_scope);
    reveal(ts_button_scope);
    reveal(ts_list_item_scope);
}
/// what the in-body rules need of the tree builder's state (ASSUMED at entry: invariants of the tree builder)
pub open spec fn body_pre(tb: &TreeBuilder) -> bool {
    &&& tb.small() && tb.stack().len() > 0 && html_named(tb.stack()[0], local_name!("html"))
    &&& tmpl_inv(tb)
    &&& aaa_inv(tb.aaa_view())
}
/// the stack still has its root
pub open spec fn root_kept(st0: Seq<Handle>, st1: Seq<Handle>) -> bool { st1.len() > 0 && st1[0] == st0[0] && st1.len() <= st0.len() && st1 == st0.take(st1.len() as int) }
pub broadcast proof fn lemma_root_implied(st: Seq<Handle>, set: spec_fn(ExpandedName) -> bool)
    requires st.len() > 0, !set(elem_name_of(st[0])),
    ensures root_kept(st, #[trigger] w_implied(st, set)),
{
    lemma_implied_keeps_at(st, set, 0);
    lemma_implied_prefix(st, set);
}
pub broadcast proof fn lemma_root_pop_until(st: Seq<Handle>, p: spec_fn(ExpandedName) -> bool)
    requires st.len() > 0, !p(elem_name_of(st[0])), top_match(st, st.len() as int, p) >= 0,
    ensures root_kept(st, #[trigger] w_pop_until(st, p)),
{
    lemma_top_match(st, st.len() as int, p);
}
/// an element found by "has an element in scope" is on the stack
pub broadcast proof fn lemma_scope_match(st: Seq<Handle>, n: int, name: LocalName, scope: spec_fn(ExpandedName) -> bool)
    requires 0 <= n <= st.len(), #[trigger] w_in_scope(st, n, is_html_named(name), scope),
    ensures top_match(st, n, name_is_html(name)) >= 0,
    decreases n,
{
    if n > 0 && !is_html_named(name)(st[n - 1]) { lemma_scope_match(st, n - 1, name, scope); }
}
/// an element that is not in the set is still the topmost match after "generate implied end tags"
pub broadcast proof fn lemma_match_after_implied(st: Seq<Handle>, set: spec_fn(ExpandedName) -> bool, p: spec_fn(ExpandedName) -> bool)
    requires top_match(st, st.len() as int, p) >= 0, forall|e: ExpandedName| #[trigger] p(e) ==> !set(e),
    ensures #[trigger] top_match(w_implied(st, set), w_implied(st, set).len() as int, p) == top_match(st, st.len() as int, p),
{
    let k = top_match(st, st.len() as int, p);
    lemma_top_match(st, st.len() as int, p);
    lemma_implied_keeps_at(st, set, k);
    lemma_implied_prefix(st, set);
    let st1 = w_implied(st, set);
    lemma_top_match(st1, st1.len() as int, p);
    assert forall|j: int| k + 1 <= j < st1.len() implies !p(elem_name_of(#[trigger] st1[j])) by { assert(st1[j] == st[j]); }
    assert(st1[k] == st[k]);
    lemma_top_match_at(st1, st1.len() as int, k + 1, p);
}
pub proof fn lemma_take_take(st: Seq<Handle>, a: int, b: int)
    requires 0 <= b <= a <= st.len(),
    ensures st.take(a).take(b) =~= st.take(b),
{}
pub broadcast proof fn lemma_root_trans(a: Seq<Handle>, b: Seq<Handle>, c: Seq<Handle>)
    requires #[trigger] root_kept(a, b), #[trigger] root_kept(b, c),
    ensures root_kept(a, c),
{
    lemma_take_take(a, b.len() as int, c.len() as int);
}
/// reconstructing the active formatting elements only pushes
pub broadcast proof fn lemma_root_reconstructed(a: &TreeBuilder, b: &TreeBuilder)
    requires #[trigger] reconstructed(a, b), a.stack().len() > 0,
    ensures b.stack().len() >= a.stack().len(), b.stack()[0] == a.stack()[0],
{
    let n = a.list().len() as int;
    if !(n == 0 || entry_open(a.list()[n - 1], a.stack())) {
        lemma_rewind(a.list(), n, a.stack());
        assert(b.stack().take(a.stack().len() as int)[0] == b.stack()[0]);
    }
}
/// the core invariant plus the size assumption is the invariant
pub broadcast proof fn lemma_core_to_inv(tb: &TreeBuilder)
    requires #[trigger] aaa_core(tb.aaa_view()), tb.small(),
    ensures aaa_inv(tb.aaa_view()),
{ lemma_core_inv(tb.aaa_view()); }
pub broadcast group group_root {
    lemma_core_to_inv,
    lemma_root_reconstructed,
    lemma_root_implied, lemma_root_pop_until, lemma_scope_match, lemma_match_after_implied, lemma_root_trans,
}

// ---- the cases of the "in body" insertion mode, from the standard ----
pub open spec fn tname(token: Token) -> LocalName { token->Tag_0.name }
pub open spec fn is_start_tag(token: Token) -> bool { token matches Token::Tag(t) && t.kind == TagKind::StartTag }
pub open spec fn is_end_tag(token: Token) -> bool { token matches Token::Tag(t) && t.kind == TagKind::EndTag }
/// "A start tag whose tag name is one of: base, basefont, bgsound, link, meta, noframes, script, style, template, title" and
/// "an end tag whose tag name is template": process by the in-head rules
pub open spec fn b_head_level(token: Token) -> bool {
    (is_start_tag(token) && (tname(token) == local_name!("base") || tname(token) == local_name!("basefont") || tname(token) == local_name!("bgsound") || tname(token) == local_name!("link")
        || tname(token) == local_name!("meta") || tname(token) == local_name!("noframes") || tname(token) == local_name!("script") || tname(token) == local_name!("style")
        || tname(token) == local_name!("template") || tname(token) == local_name!("title")))
    || (is_end_tag(token) && tname(token) == local_name!("template"))
}
/// address, article, aside, blockquote, center, details, dialog, dir, div, dl, fieldset, figcaption, figure, footer, header, hgroup,
/// main, menu, nav, ol, p, search, section, summary, ul
pub open spec fn b_block_start(n: LocalName) -> bool {
    n == local_name!("address") || n == local_name!("article") || n == local_name!("aside") || n == local_name!("blockquote") || n == local_name!("center") || n == local_name!("details")
    || n == local_name!("dialog") || n == local_name!("dir") || n == local_name!("div") || n == local_name!("dl") || n == local_name!("fieldset") || n == local_name!("figcaption")
    || n == local_name!("figure") || n == local_name!("footer") || n == local_name!("header") || n == local_name!("hgroup") || n == local_name!("main") || n == local_name!("menu")
    || n == local_name!("nav") || n == local_name!("ol") || n == local_name!("p") || n == local_name!("search") || n == local_name!("section") || n == local_name!("summary") || n == local_name!("ul")
}
pub open spec fn b_heading(n: LocalName) -> bool {
    n == local_name!("h1") || n == local_name!("h2") || n == local_name!("h3") || n == local_name!("h4") || n == local_name!("h5") || n == local_name!("h6")
}
/// end tags: address, article, aside, blockquote, button, center, details, dialog, dir, div, dl, fieldset, figcaption, figure, footer,
/// header, hgroup, listing, main, menu, nav, ol, pre, search, section, select, summary, ul
pub open spec fn b_block_end(n: LocalName) -> bool {
    n == local_name!("address") || n == local_name!("article") || n == local_name!("aside") || n == local_name!("blockquote") || n == local_name!("button") || n == local_name!("center")
    || n == local_name!("details") || n == local_name!("dialog") || n == local_name!("dir") || n == local_name!("div") || n == local_name!("dl") || n == local_name!("fieldset")
    || n == local_name!("figcaption") || n == local_name!("figure") || n == local_name!("footer") || n == local_name!("header") || n == local_name!("hgroup") || n == local_name!("listing")
    || n == local_name!("main") || n == local_name!("menu") || n == local_name!("nav") || n == local_name!("ol") || n == local_name!("pre") || n == local_name!("search")
    || n == local_name!("section") || n == local_name!("select") || n == local_name!("summary") || n == local_name!("ul")
}
/// b, big, code, em, font, i, s, small, strike, strong, tt, u
pub open spec fn b_fmt_start(n: LocalName) -> bool {
    n == local_name!("b") || n == local_name!("big") || n == local_name!("code") || n == local_name!("em") || n == local_name!("font") || n == local_name!("i") || n == local_name!("s")
    || n == local_name!("small") || n == local_name!("strike") || n == local_name!("strong") || n == local_name!("tt") || n == local_name!("u")
}
/// end tags: a, b, big, code, em, font, i, nobr, s, small, strike, strong, tt, u
pub open spec fn b_fmt_end(n: LocalName) -> bool { b_fmt_start(n) || n == local_name!("a") || n == local_name!("nobr") }
pub open spec fn b_void_start(n: LocalName) -> bool {
    n == local_name!("area") || n == local_name!("br") || n == local_name!("embed") || n == local_name!("img") || n == local_name!("keygen") || n == local_name!("wbr")
}
/// caption, col, colgroup, frame, head, tbody, td, tfoot, th, thead, tr: parse error, ignore
pub open spec fn b_ignored_start(n: LocalName) -> bool {
    n == local_name!("caption") || n == local_name!("col") || n == local_name!("colgroup") || n == local_name!("frame") || n == local_name!("head") || n == local_name!("tbody")
    || n == local_name!("td") || n == local_name!("tfoot") || n == local_name!("th") || n == local_name!("thead") || n == local_name!("tr")
}
/// "if the stack of open elements has a p element in button scope, then close a p element"
pub open spec fn closed_p(st: Seq<Handle>) -> Seq<Handle> {
    if w_in_scope(st, st.len() as int, is_html_named(local_name!("p")), set_button_scope()) {
        w_pop_until(w_implied(st, implied_except(local_name!("p"))), name_is_html(local_name!("p")))
    } else { st }
}
/// the <li> / <dd> / <dt> loop: node := current node; if node is an li (a dd or dt) element: that is the one to close; if node is
/// special and not an address, div or p element: done; otherwise node := previous entry
pub open spec fn w_li_close(st: Seq<Handle>, n: int, list: bool) -> Option<LocalName>
    decreases n
{
    if n <= 0 { None } else {
        let nm = elem_name_of(st[n - 1]);
        if (list && nm == html_name(local_name!("li"))) || (!list && (nm == html_name(local_name!("dd")) || nm == html_name(local_name!("dt")))) { Some(nm.local) }
        else if ts_special_tag(nm) && nm != html_name(local_name!("address")) && nm != html_name(local_name!("div")) && nm != html_name(local_name!("p")) { None }
        else { w_li_close(st, n - 1, list) }
    }
}
/// the stack after "generate implied end tags, except for X elements; pop until an X element has been popped"
pub open spec fn closed_named(st: Seq<Handle>, x: LocalName) -> Seq<Handle> { w_pop_until(w_implied(st, implied_except(x)), name_is_html(x)) }
/// the stack after "generate implied end tags; pop until an X element has been popped"
pub open spec fn closed_cursory(st: Seq<Handle>, x: LocalName) -> Seq<Handle> { w_pop_until(w_implied(st, set_cursory()), name_is_html(x)) }
pub open spec fn in_default_scope(st: Seq<Handle>, x: LocalName) -> bool { w_in_scope(st, st.len() as int, is_html_named(x), set_default()) }
/// the empty attribute list of the <br> start tag that </br> is turned into
pub uninterp spec fn m0_no_attrs() -> Vec<Attribute>;
/// `vec![]` in the </br> rule (R32; ASSUMED glue: every empty vector is this one value)
#[verifier::external_body]
pub fn no_attrs() -> (r: Vec<Attribute>) ensures r == m0_no_attrs(), r@.len() == 0 { Vec::new() }
/// the tree builder after one more parse error
pub open spec fn erred(tb: TreeBuilder) -> TreeBuilder { TreeBuilder { sink: Sink { errs: Ghost(tb.sink.errs@ + 1), ..tb.sink }, ..tb } }
/// "drop the attributes from the </br> token and act as for a <br> start tag"
pub open spec fn br_start(tag: Tag) -> Token { Token::Tag(Tag { kind: TagKind::StartTag, attrs: m0_no_attrs(), ..tag }) }
/// the number of entries "reconstruct the active formatting elements" re-creates (and pushes on the stack): none if the list is empty
/// or its last entry is a marker or an open element; otherwise the entries after the last marker-or-open entry
pub open spec fn recon_count(l: Seq<FormatEntry>, st: Seq<Handle>) -> int {
    if l.len() == 0 || entry_open(l[l.len() - 1], st) { 0 } else { l.len() - rewind_to(l, l.len() as int, st) }
}
