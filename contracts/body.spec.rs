// ---- U-inbody: the "in body" insertion mode (13.2.6.4.7) ----
pub open spec fn set_default() -> spec_fn(ExpandedName) -> bool { |p: ExpandedName| ts_default_scope(p) }
pub open spec fn set_list_item() -> spec_fn(ExpandedName) -> bool { |p: ExpandedName| ts_list_item_scope(p) }
pub open spec fn set_heading() -> spec_fn(ExpandedName) -> bool { |p: ExpandedName| ts_heading_tag(p) }
pub open spec fn is_heading() -> spec_fn(Handle) -> bool { |h: Handle| ts_heading_tag(elem_name_of(h)) }
/// facts about the tag sets used by the in-body rules (ASSUMED; instances of what U-tagsets proves)
#[verifier::external_body]
pub proof fn axiom_body_sets()
    ensures
        !ts_cursory_implied_end(html_name(local_name!("html"))), !ts_heading_tag(html_name(local_name!("html"))), ts_special_tag(html_name(local_name!("html"))),
        ts_default_scope(html_name(local_name!("html"))), ts_button_scope(html_name(local_name!("html"))), ts_list_item_scope(html_name(local_name!("html"))),
        forall|p: ExpandedName| #[trigger] ts_default_scope(p) ==> ts_button_scope(p) && ts_list_item_scope(p),
        forall|p: ExpandedName| #[trigger] ts_cursory_implied_end(p) == (p == html_name(local_name!("dd")) || p == html_name(local_name!("dt")) || p == html_name(local_name!("li"))
            || p == html_name(local_name!("option")) || p == html_name(local_name!("optgroup")) || p == html_name(local_name!("p")) || p == html_name(local_name!("rb"))
            || p == html_name(local_name!("rp")) || p == html_name(local_name!("rt")) || p == html_name(local_name!("rtc"))),
        // the formatting elements are not special
        !ts_special_tag(html_name(local_name!("a"))), !ts_special_tag(html_name(local_name!("b"))), !ts_special_tag(html_name(local_name!("big"))), !ts_special_tag(html_name(local_name!("code"))),
        !ts_special_tag(html_name(local_name!("em"))), !ts_special_tag(html_name(local_name!("font"))), !ts_special_tag(html_name(local_name!("i"))), !ts_special_tag(html_name(local_name!("nobr"))),
        !ts_special_tag(html_name(local_name!("s"))), !ts_special_tag(html_name(local_name!("small"))), !ts_special_tag(html_name(local_name!("strike"))), !ts_special_tag(html_name(local_name!("strong"))),
        !ts_special_tag(html_name(local_name!("tt"))), !ts_special_tag(html_name(local_name!("u"))),
{}
/// what the in-body rules need of the tree builder's state (ASSUMED at entry: invariants of the tree builder)
pub open spec fn body_pre(tb: &TreeBuilder) -> bool {
    &&& tb.small() && tb.stack().len() > 0 && html_named(tb.stack()[0], local_name!("html"))
    &&& tmpl_inv(tb)
    &&& aaa_inv(tb.aaa_view())
}
/// the stack still has its root
pub open spec fn root_kept(st0: Seq<Handle>, st1: Seq<Handle>) -> bool { st1.len() > 0 && st1[0] == st0[0] && st1.len() <= st0.len() && st1 == st0.take(st1.len() as int) }
pub broadcast proof fn lemma_root_implied(st: Seq<Handle>, set: spec_fn(ExpandedName) -> bool)
    requires st.len() > 0, !set(elem_name_of(st[0])),
    ensures root_kept(st, #[trigger] w_implied(st, set)),
{
    lemma_implied_keeps_at(st, set, 0);
    lemma_implied_prefix(st, set);
}
pub broadcast proof fn lemma_root_pop_until(st: Seq<Handle>, p: spec_fn(ExpandedName) -> bool)
    requires st.len() > 0, !p(elem_name_of(st[0])), top_match(st, st.len() as int, p) >= 0,
    ensures root_kept(st, #[trigger] w_pop_until(st, p)),
{
    lemma_top_match(st, st.len() as int, p);
}
/// an element found by "has an element in scope" is on the stack
pub broadcast proof fn lemma_scope_match(st: Seq<Handle>, n: int, name: LocalName, scope: spec_fn(ExpandedName) -> bool)
    requires 0 <= n <= st.len(), #[trigger] w_in_scope(st, n, is_html_named(name), scope),
    ensures top_match(st, n, name_is_html(name)) >= 0,
    decreases n,
{
    if n > 0 && !is_html_named(name)(st[n - 1]) { lemma_scope_match(st, n - 1, name, scope); }
}
/// an element that is not in the set is still the topmost match after "generate implied end tags"
pub broadcast proof fn lemma_match_after_implied(st: Seq<Handle>, set: spec_fn(ExpandedName) -> bool, p: spec_fn(ExpandedName) -> bool)
    requires top_match(st, st.len() as int, p) >= 0, forall|e: ExpandedName| #[trigger] p(e) ==> !set(e),
    ensures #[trigger] top_match(w_implied(st, set), w_implied(st, set).len() as int, p) == top_match(st, st.len() as int, p),
{
    let k = top_match(st, st.len() as int, p);
    lemma_top_match(st, st.len() as int, p);
    lemma_implied_keeps_at(st, set, k);
    lemma_implied_prefix(st, set);
    let st1 = w_implied(st, set);
    lemma_top_match(st1, st1.len() as int, p);
    assert forall|j: int| k + 1 <= j < st1.len() implies !p(elem_name_of(#[trigger] st1[j])) by { assert(st1[j] == st[j]); }
    assert(st1[k] == st[k]);
    lemma_top_match_at(st1, st1.len() as int, k + 1, p);
}
pub proof fn lemma_take_take(st: Seq<Handle>, a: int, b: int)
    requires 0 <= b <= a <= st.len(),
    ensures st.take(a).take(b) =~= st.take(b),
{}
pub broadcast proof fn lemma_root_trans(a: Seq<Handle>, b: Seq<Handle>, c: Seq<Handle>)
    requires #[trigger] root_kept(a, b), #[trigger] root_kept(b, c),
    ensures root_kept(a, c),
{
    lemma_take_take(a, b.len() as int, c.len() as int);
}
/// reconstructing the active formatting elements only pushes
pub broadcast proof fn lemma_root_reconstructed(a: &TreeBuilder, b: &TreeBuilder)
    requires #[trigger] reconstructed(a, b), a.stack().len() > 0,
    ensures b.stack().len() >= a.stack().len(), b.stack()[0] == a.stack()[0],
{
    let n = a.list().len() as int;
    if !(n == 0 || entry_open(a.list()[n - 1], a.stack())) {
        lemma_rewind(a.list(), n, a.stack());
        assert(b.stack().take(a.stack().len() as int)[0] == b.stack()[0]);
    }
}
/// the core invariant plus the size assumption is the invariant
pub broadcast proof fn lemma_core_to_inv(tb: &TreeBuilder)
    requires #[trigger] aaa_core(tb.aaa_view()), tb.small(),
    ensures aaa_inv(tb.aaa_view()),
{ lemma_core_inv(tb.aaa_view()); }
pub broadcast group group_root {
    lemma_core_to_inv,
    lemma_root_reconstructed,
    lemma_root_implied, lemma_root_pop_until, lemma_scope_match, lemma_match_after_implied, lemma_root_trans,
}
