// ---- atoms: a LocalName is determined by its string (rule R4) ----
pub struct LocalName { pub s: Vec<char> }
impl View for LocalName { type V = Seq<char>; open spec fn view(&self) -> Seq<char> { self.s@ } }
impl LocalName {
    #[verifier::external_body]
    pub fn from_tendril(t: &StrTendril) -> (r: LocalName) ensures r@ == t@ { unimplemented!() }
    #[verifier::external_body]
    pub fn clone(&self) -> (r: LocalName) ensures r@ == self@ { unimplemented!() }
    #[verifier::external_body]
    pub fn eq_tendril(&self, t: &StrTendril) -> (r: bool) ensures r == (self@ == t@) { unimplemented!() }
}
pub struct QualName { pub local: LocalName }
pub struct Attribute { pub name: QualName, pub value: StrTendril }
impl QualName {
    /// QualName::new(None, ns!(), local): the tokenizer only ever builds attribute names with no prefix
    /// and the empty namespace, so the model keeps the local name only.
    #[verifier::external_body]
    pub fn new_plain(local: LocalName) -> (r: QualName) ensures r.local@ == local@ { unimplemented!() }
}
pub struct Handle { pub id: u64 }

// ---- error message plumbing: wording is irrelevant to every property ----
pub struct Cow { pub x: u8 }
impl Cow {
    #[verifier::external_body]
    pub fn msg() -> Cow { unimplemented!() }
}
