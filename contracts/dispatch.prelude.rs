// ---- U-dispatch prelude (hand-written): what the tree-construction dispatcher (TreeBuilder::is_foreign) and the
//      fragment-case tokenizer state need ----
#[derive(PartialEq, Eq, Clone, Copy, Structural)]
pub struct LocalName(pub u64);
#[derive(PartialEq, Eq, Clone, Copy, Structural)]
pub struct Namespace(pub u64);
#[derive(PartialEq, Eq, Clone, Copy, Structural)]
pub struct ExpandedName { pub ns: Namespace, pub local: LocalName }
pub struct Handle { pub id: u64 }
pub struct StrTendril { pub x: u64 }
#[derive(PartialEq, Eq, Clone, Copy, Structural)]
pub enum TagKind { StartTag, EndTag }
pub use TagKind::{StartTag, EndTag};
/// model of tokenizer::Tag (kind and name are what the dispatcher looks at)
pub struct Tag { pub kind: TagKind, pub name: LocalName, pub id: u64 }
/// the name of an element as the sink reports it (ASSUMED: a function of the handle)
pub uninterp spec fn elem_name_of(h: Handle) -> ExpandedName;
/// the sink's answer for a MathML annotation-xml element: is it an HTML integration point (encoding text/html or
/// application/xhtml+xml)
pub uninterp spec fn annotation_xml_ip(h: Handle) -> bool;
pub struct ElemName { pub n: ExpandedName }
impl ElemName {
    pub fn expanded(&self) -> (r: ExpandedName) ensures r == self.n { self.n }
    pub fn ns(&self) -> (r: &Namespace) ensures *r == self.n.ns { &self.n.ns }
    pub fn local_name(&self) -> (r: &LocalName) ensures *r == self.n.local { &self.n.local }
}
pub struct Sink { pub x: u8 }
impl Sink {
    #[verifier::external_body]
    pub fn elem_name(&self, h: &Handle) -> (r: ElemName) ensures r.n == elem_name_of(*h) { unimplemented!() }
    #[verifier::external_body]
    pub fn is_mathml_annotation_xml_integration_point(&self, h: &Handle) -> (r: bool) ensures r == annotation_xml_ip(*h) { unimplemented!() }
}
/// the tree builder reduced to what these two functions read (a MODEL struct; the functions are the repository's)
pub struct TreeBuilder { pub sink: Sink, pub open_elems: RefCell<Vec<Handle>>, pub context_elem: RefCell<Option<Handle>>, pub acn: Ghost<Handle> }
impl TreeBuilder {
    /// adjusted_current_node (ASSUMED: the context element if the stack has one entry and there is one, else the current
    /// node; here simply "the adjusted current node", a ghost value)
    #[verifier::external_body]
    pub fn adjusted_current_node(&self) -> (r: Handle) ensures r == self.acn@ { unimplemented!() }
}
pub mod tok_state {
    #[derive(PartialEq, Eq, Clone, Copy)]
    pub enum RawKind { Rcdata, Rawtext, ScriptData }
    #[derive(PartialEq, Eq, Clone, Copy)]
    pub enum State { Data, Plaintext, RawData(RawKind) }
    pub use self::RawKind::*;
    pub use self::State::*;
}

// ---- specification: WHATWG 13.2.6 "tree construction dispatcher" ----
pub open spec fn w_mathml_tip(n: ExpandedName) -> bool {
    n.ns == ns!(mathml) && (n.local == local_name!("mi") || n.local == local_name!("mo") || n.local == local_name!("mn")
        || n.local == local_name!("ms") || n.local == local_name!("mtext"))
}
pub open spec fn w_html_ip(n: ExpandedName, h: Handle) -> bool {
    (n == expanded_name!(mathml "annotation-xml") && annotation_xml_ip(h))
    || (n.ns == ns!(svg) && (n.local == local_name!("foreignObject") || n.local == local_name!("desc") || n.local == local_name!("title")))
}
pub open spec fn is_char_token(t: Token) -> bool { t is Characters || t is NullCharacter }
pub open spec fn is_start_tag(t: Token) -> bool { t matches Token::Tag(tag) && tag.kind == TagKind::StartTag }
/// "process the token according to the rules given in the section corresponding to the current insertion mode in HTML
/// content" (as opposed to the rules for parsing tokens in foreign content)
pub open spec fn use_html_rules(stack_empty: bool, acn: Handle, t: Token) -> bool {
    let n = elem_name_of(acn);
    stack_empty
    || n.ns == ns!(html)
    || (w_mathml_tip(n) && is_start_tag(t) && t->Tag_0.name != local_name!("mglyph") && t->Tag_0.name != local_name!("malignmark"))
    || (w_mathml_tip(n) && is_char_token(t))
    || (n == expanded_name!(mathml "annotation-xml") && is_start_tag(t) && t->Tag_0.name == local_name!("svg"))
    || (w_html_ip(n, acn) && is_start_tag(t))
    || (w_html_ip(n, acn) && is_char_token(t))
    || t is Eof
}
/// fragment parsing, step 4: the tokenizer state for the context element
pub open spec fn w_fragment_state(n: ExpandedName, scripting: bool) -> tok_state::State {
    if n.ns != ns!(html) { tok_state::State::Data }
    else if n.local == local_name!("title") || n.local == local_name!("textarea") { tok_state::State::RawData(tok_state::RawKind::Rcdata) }
    else if n.local == local_name!("style") || n.local == local_name!("xmp") || n.local == local_name!("iframe")
        || n.local == local_name!("noembed") || n.local == local_name!("noframes") { tok_state::State::RawData(tok_state::RawKind::Rawtext) }
    else if n.local == local_name!("script") { tok_state::State::RawData(tok_state::RawKind::ScriptData) }
    else if n.local == local_name!("noscript") { if scripting { tok_state::State::RawData(tok_state::RawKind::Rawtext) } else { tok_state::State::Data } }
    else if n.local == local_name!("plaintext") { tok_state::State::Plaintext }
    else { tok_state::State::Data }
}
