// ---- the adoption agency algorithm (WHATWG 13.2.6.4.7), written from the standard's numbered steps ----
// State: the stack of open elements, the list of active formatting elements, the DOM operations asked of the sink so far,
// the number of elements created so far (the k-th created element has the handle fresh_handle(k)) and the number of
// parse errors.  Reading notes: "node is in the list" = the list has an entry for that element (the first one is "its"
// entry); the bookmark is either "where the formatting element is" (None) or "immediately after the entry of <element>".
pub struct Aaa { pub stack: Seq<Handle>, pub list: Seq<FormatEntry>, pub dom: Seq<DomOp>, pub created: nat, pub errs: nat }
pub open spec fn html_name(local: LocalName) -> ExpandedName { ExpandedName { ns: ns!(html), local: local } }
pub open spec fn set_default_scope() -> spec_fn(ExpandedName) -> bool { |p: ExpandedName| ts_default_scope(p) }
pub open spec fn set_special() -> spec_fn(Handle) -> bool { |h: Handle| ts_special_tag(elem_name_of(h)) }
pub open spec fn is_entry_for(h: Handle) -> spec_fn(FormatEntry) -> bool { |e: FormatEntry| e is Element && e->Element_0 == h }
/// the index of the element's entry in the list
pub open spec fn list_pos(l: Seq<FormatEntry>, h: Handle) -> Option<usize> { seq_position(l, is_entry_for(h), 0) }
/// 4.3 "the last element in the list of active formatting elements that is between the end of the list and the last marker
/// in the list, if any, or the start of the list otherwise, and has the tag name subject"
pub open spec fn fmt_entry_for(l: Seq<FormatEntry>, subject: LocalName, n: int) -> Option<int>
    decreases n
{
    if n <= 0 { None } else if l[n - 1] is Marker { None } else if l[n - 1]->Element_1.name == subject { Some(n - 1) } else { fmt_entry_for(l, subject, n - 1) }
}
/// "act as described in the 'any other end tag' entry" (see w_other_end)
pub open spec fn other_end(a: Aaa, subject: LocalName) -> Aaa {
    match w_other_end(a.stack, a.stack.len() as int, subject) {
        Some(k) => Aaa { stack: a.stack.take(k), errs: a.errs + (if k == w_implied(a.stack, implied_except(subject)).len() - 1 { 0nat } else { 1nat }), ..a },
        None => Aaa { errs: a.errs + 1, ..a },
    }
}
/// the DOM operation that inserts `child` at an insertion point (insert_at)
pub open spec fn place_op(p: InsertionPoint, child: NodeOrText) -> DomOp {
    match p {
        InsertionPoint::LastChild(parent) => DomOp::Append(parent, child),
        InsertionPoint::BeforeSibling(sibling) => DomOp::AppendBeforeSibling(sibling, child),
        InsertionPoint::TableFosterParenting { element, prev_element } => DomOp::AppendBasedOnParent(element, prev_element, child),
    }
}
/// w_place (appropriate place for inserting a node) as a function of the foster-parenting flag and the stack
pub open spec fn w_place_for(foster: bool, st: Seq<Handle>, override_target: Option<Handle>) -> InsertionPoint {
    let target = match override_target { Some(t) => t, None => st.last() };
    if foster && is_foster_target(elem_name_of(target)) { w_foster_place(st) }
    else if html_named(target, local_name!("template")) { InsertionPoint::LastChild(template_contents_of(target)) }
    else { InsertionPoint::LastChild(target) }
}

/// 4.13 the inner loop.  `node_index`: where node is in the stack; `counter`: the inner loop counter.
pub struct Inner { pub a: Aaa, pub node_index: int, pub last_node: Handle, pub bookmark: Option<Handle>, pub counter: int }
pub open spec fn aaa_inner(i: Inner, fe: Handle, fb: Handle) -> Inner
    decreases i.node_index
{
    if i.node_index <= 0 { i } else {
        // 13.1 increment the inner loop counter; 13.2 node := the element immediately above node in the stack (or the one
        // that was, if node has been removed)
        let counter = i.counter + 1;
        let ni = i.node_index - 1;
        let node = i.a.stack[ni];
        // 13.3 if node is the formatting element, leave the loop
        if node == fe { Inner { node_index: ni, counter: counter, ..i } }
        else {
            let p = list_pos(i.a.list, node);
            // 13.4 if the counter is greater than 3 and node is in the list, remove node from the list;
            // 13.5 if node is not in the list, remove node from the stack and continue
            if counter > 3 || p is None {
                let list = if p is Some { i.a.list.remove(p.unwrap() as int) } else { i.a.list };
                aaa_inner(Inner { a: Aaa { stack: i.a.stack.remove(ni), list: list, ..i.a }, node_index: ni, counter: counter, ..i }, fe, fb)
            } else {
                // 13.6 create an element for the token for which node was created, replace node's entries in the list and in
                // the stack by it, node := the new element
                let tag = i.a.list[p.unwrap() as int]->Element_1;
                let new = fresh_handle(i.a.created);
                let a2 = Aaa {
                    stack: i.a.stack.update(ni, new),
                    list: i.a.list.update(p.unwrap() as int, FormatEntry::Element(new, tag)),
                    // 13.8 append last node to node (taking it away from where it is)
                    dom: i.a.dom.push(DomOp::Create(new, html_name(tag.name), tag.attrs@, tag.had_duplicate_attributes))
                            .push(DomOp::RemoveFromParent(i.last_node)).push(DomOp::Append(new, NodeOrText::AppendNode(i.last_node))),
                    created: i.a.created + 1,
                    ..i.a
                };
                // 13.7 if last node is the furthest block, move the bookmark to be immediately after the new node in the list
                let bookmark = if i.last_node == fb { Some(new) } else { i.bookmark };
                // 13.9 last node := node
                aaa_inner(Inner { a: a2, node_index: ni, last_node: new, bookmark: bookmark, counter: counter }, fe, fb)
            }
        }
    }
}

/// 4.14 - 4.19: what follows the inner loop
#[verifier::opaque]
pub open spec fn aaa_finish(i: Inner, fe: Handle, fe_tag: Tag, fb: Handle, ca: Handle, foster: bool) -> Aaa {
    // 4.14 insert last node at the appropriate place, common ancestor as override target
    // 4.15 create an element for the formatting element's token; 4.16 move furthest block's children into it;
    // 4.17 append it to furthest block
    let new2 = fresh_handle(i.a.created);
    let dom = i.a.dom.push(DomOp::RemoveFromParent(i.last_node))
        .push(place_op(w_place_for(foster, i.a.stack, Some(ca)), NodeOrText::AppendNode(i.last_node)))
        .push(DomOp::Create(new2, html_name(fe_tag.name), fe_tag.attrs@, fe_tag.had_duplicate_attributes))
        .push(DomOp::ReparentChildren(fb, new2))
        .push(DomOp::Append(fb, NodeOrText::AppendNode(new2)));
    // 4.18 remove the formatting element from the list, insert the new element at the bookmark
    let entry = FormatEntry::Element(new2, fe_tag);
    let list = match i.bookmark {
        None => i.a.list.update(list_pos(i.a.list, fe).unwrap() as int, entry),
        Some(prev) => {
            let l2 = i.a.list.insert(list_pos(i.a.list, prev).unwrap() as int + 1, entry);
            l2.remove(list_pos(l2, fe).unwrap() as int)
        },
    };
    // 4.19 remove the formatting element from the stack, insert the new element immediately below the furthest block
    let st1 = match seq_rposition(i.a.stack, is_handle(fe), i.a.stack.len() as int) { Some(k) => i.a.stack.remove(k as int), None => i.a.stack };
    let st2 = st1.insert(seq_position(st1, is_handle(fb), 0).unwrap() as int + 1, new2);
    Aaa { stack: st2, list: list, dom: dom, created: i.a.created + 1, errs: i.a.errs }
}
pub enum AaaStep { Done(Aaa), Again(Aaa) }
/// one round of the outer loop (4.3 - 4.19)
#[verifier::opaque]
pub open spec fn aaa_iter(a: Aaa, subject: LocalName, foster: bool) -> AaaStep {
    match fmt_entry_for(a.list, subject, a.list.len() as int) {
        // 4.3 no such element: return and act as "any other end tag"
        None => AaaStep::Done(other_end(a, subject)),
        Some(fi) => {
            let fe = a.list[fi]->Element_0;
            let fe_tag = a.list[fi]->Element_1;
            match seq_rposition(a.stack, is_handle(fe), a.stack.len() as int) {
                // 4.4 not in the stack: parse error, remove it from the list, return
                None => AaaStep::Done(Aaa { errs: a.errs + 1, list: a.list.remove(fi), ..a }),
                Some(fsi) => {
                    // 4.5 in the stack but not in scope: parse error, return
                    if !w_in_scope(a.stack, a.stack.len() as int, is_handle(fe), set_default_scope()) { AaaStep::Done(Aaa { errs: a.errs + 1, ..a }) }
                    else {
                        // 4.6 not the current node: parse error
                        let a1 = if a.stack.last() != fe { Aaa { errs: a.errs + 1, ..a } } else { a };
                        // 4.7 furthest block: the topmost node lower in the stack than the formatting element that is special
                        match seq_position(a1.stack, set_special(), fsi as int + 1) {
                            // 4.8 none: pop up to and including the formatting element, remove it from the list, return
                            None => AaaStep::Done(Aaa { stack: a1.stack.take(fsi as int), list: a1.list.remove(fi), ..a1 }),
                            Some(fbi) => {
                                let fb = a1.stack[fbi as int];
                                // 4.9 common ancestor: the element immediately above the formatting element
                                let ca = a1.stack[fsi as int - 1];
                                // 4.10 - 4.13
                                let i = aaa_inner(Inner { a: a1, node_index: fbi as int, last_node: fb, bookmark: None, counter: 0 }, fe, fb);
                                AaaStep::Again(aaa_finish(i, fe, fe_tag, fb, ca, foster))
                            },
                        }
                    }
                },
            }
        },
    }
}
/// 4. the outer loop: at most 8 rounds
pub open spec fn aaa_loop(a: Aaa, subject: LocalName, foster: bool, counter: int) -> Aaa
    decreases 8 - counter
{
    if counter >= 8 { a } else {
        match aaa_iter(a, subject, foster) { AaaStep::Done(b) => b, AaaStep::Again(b) => aaa_loop(b, subject, foster, counter + 1) }
    }
}
/// the whole algorithm
pub open spec fn w_aaa(a: Aaa, subject: LocalName, foster: bool) -> Aaa {
    // 2. the current node is an HTML element named subject and is not in the list: pop it, return
    if a.stack.len() > 0 && html_named(a.stack.last(), subject) && list_pos(a.list, a.stack.last()) is None { Aaa { stack: a.stack.drop_last(), ..a } }
    else { aaa_loop(a, subject, foster, 0) }
}
impl TreeBuilder {
    pub open spec fn aaa_view(&self) -> Aaa {
        Aaa { stack: self.stack(), list: self.list(), dom: self.sink.dom@, created: self.sink.created@, errs: self.sink.errs@ }
    }
}
/// rule R36: `self.active_formatting_end_to_marker().iter().find(|&(_, _, tag)| tag.name == subject).map(|(i, h, t)| (i, h.clone(), t.clone()))`
/// - from the end of the list down to (not including) the last marker, the first entry whose tag has that name (ASSUMED to
/// be what the adaptor chain computes; the iterator's text is checked as in U-fmt)
#[verifier::external_body]
pub fn fmt_entry_named(l: &Vec<FormatEntry>, subject: &LocalName) -> (r: Option<(usize, Handle, Tag)>)
    ensures match fmt_entry_for(l@, *subject, l@.len() as int) {
        Some(i) => r == Some((i as usize, l@[i]->Element_0, l@[i]->Element_1)),
        None => r is None,
    },
{ unimplemented!() }
/// what the adoption agency algorithm needs of the tree builder's state (an invariant of the tree builder, ASSUMED at
/// entry; the algorithm is proved to keep it from round to round)
#[verifier::opaque]
pub open spec fn aaa_inv(a: Aaa) -> bool {
    // every handle was handed out by the sink (so a new one is new)
    &&& forall|i: int| 0 <= i < a.stack.len() ==> (#[trigger] a.stack[i]).id@ < a.created
    &&& forall|i: int| 0 <= i < a.list.len() && (#[trigger] a.list[i]) is Element ==> a.list[i]->Element_0.id@ < a.created
    // an entry of the list is for an HTML element with the name of the token it was created for
    &&& forall|i: int| 0 <= i < a.list.len() && (#[trigger] a.list[i]) is Element ==> elem_name_of(a.list[i]->Element_0) == html_name(a.list[i]->Element_1.name)
    // the bottom of the stack is the html element, which is special
    &&& a.stack.len() > 0 && html_named(a.stack[0], local_name!("html")) && ts_special_tag(elem_name_of(a.stack[0]))
    // ASSUMPTION (machine arithmetic): the inner loop counter is an i32 that counts stack entries
    &&& a.stack.len() < 0x7fff_fff0 && a.list.len() < usize::MAX - 16
}

/// aaa_inv without the size assumption
pub open spec fn aaa_core(a: Aaa) -> bool {
    &&& forall|i: int| 0 <= i < a.stack.len() ==> (#[trigger] a.stack[i]).id@ < a.created
    &&& forall|i: int| 0 <= i < a.list.len() && (#[trigger] a.list[i]) is Element ==> a.list[i]->Element_0.id@ < a.created
    &&& forall|i: int| 0 <= i < a.list.len() && (#[trigger] a.list[i]) is Element ==> elem_name_of(a.list[i]->Element_0) == html_name(a.list[i]->Element_1.name)
    &&& a.stack.len() > 0 && html_named(a.stack[0], local_name!("html")) && ts_special_tag(elem_name_of(a.stack[0]))
}
pub proof fn lemma_core_inv(a: Aaa)
    ensures aaa_inv(a) == (aaa_core(a) && a.stack.len() < 0x7fff_fff0 && a.list.len() < usize::MAX - 16),
{ reveal(aaa_inv); }
/// a state that keeps a prefix of the stack (with the root) and the list, possibly without one entry, keeps the invariant
pub proof fn lemma_inv_shrink(a: Aaa, b: Aaa, m: int, drop: int)
    requires aaa_inv(a), 1 <= m <= a.stack.len(), b.stack == a.stack.take(m), b.created == a.created,
             b.list == a.list || (0 <= drop < a.list.len() && b.list == a.list.remove(drop)),
    ensures aaa_inv(b),
{
    reveal(aaa_inv);
    assert(b.stack[0] == a.stack[0]);
    assert forall|i: int| 0 <= i < b.stack.len() implies (#[trigger] b.stack[i]).id@ < b.created by { assert(b.stack[i] == a.stack[i]); }
    if b.list != a.list {
        assert forall|i: int| 0 <= i < b.list.len() && (#[trigger] b.list[i]) is Element implies b.list[i]->Element_0.id@ < b.created
            && elem_name_of(b.list[i]->Element_0) == html_name(b.list[i]->Element_1.name) by {
            if i < drop { assert(b.list[i] == a.list[i]); } else { assert(b.list[i] == a.list[i + 1]); }
        }
    }
}
/// pushing a new element (created for `tag`) and giving it entry p of the list keeps the core invariant
pub proof fn lemma_core_push_replace(c: Aaa, p: int, tag: Tag, b: Aaa)
    requires
        aaa_core(c), 0 <= p < c.list.len(), elem_name_of(fresh_handle(c.created)) == html_name(tag.name),
        b.stack == c.stack.push(fresh_handle(c.created)), b.list == c.list.update(p, FormatEntry::Element(fresh_handle(c.created), tag)), b.created == c.created + 1,
    ensures aaa_core(b),
{
    let new = fresh_handle(c.created);
    assert forall|i: int| 0 <= i < b.stack.len() implies (#[trigger] b.stack[i]).id@ < b.created by { if i < c.stack.len() { assert(b.stack[i] == c.stack[i]); } }
    assert(b.stack[0] == c.stack[0]);
    assert forall|i: int| 0 <= i < b.list.len() && (#[trigger] b.list[i]) is Element implies b.list[i]->Element_0.id@ < b.created
        && elem_name_of(b.list[i]->Element_0) == html_name(b.list[i]->Element_1.name) by {
        if i != p { assert(b.list[i] == c.list[i]); }
    }
}
pub open spec fn list_has(l: Seq<FormatEntry>, h: Handle) -> bool { exists|i: int| 0 <= i < l.len() && (#[trigger] l[i]) is Element && l[i]->Element_0 == h }
pub open spec fn stack_has(st: Seq<Handle>, h: Handle) -> bool { exists|i: int| 0 <= i < st.len() && #[trigger] st[i] == h }
pub open spec fn bm_spec(b: Bookmark) -> Option<Handle> { match b { Bookmark::Replace(_) => None, Bookmark::InsertAfter(h) => Some(h) } }
/// seq_position finds an entry iff there is one (and it is the first)
pub proof fn lemma_position<T>(s: Seq<T>, t: spec_fn(T) -> bool, from: int)
    requires 0 <= from <= s.len(), s.len() <= usize::MAX,
    ensures match seq_position(s, t, from) {
        Some(k) => from <= k < s.len() && t(s[k as int]) && forall|j: int| from <= j < k ==> !t(#[trigger] s[j]),
        None => forall|j: int| from <= j < s.len() ==> !t(#[trigger] s[j]),
    },
    decreases s.len() - from,
{
    if from < s.len() && !t(s[from]) { lemma_position(s, t, from + 1); }
}

/// the inner loop's invariant (cur: the state now, a1: the state when the loop was entered)
#[verifier::opaque]
pub open spec fn inner_inv(cur: Aaa, a1: Aaa, fe: Handle, fb: Handle, fsi: int, node_index: int, bookmark: Option<Handle>, at_break: bool) -> bool {
    &&& aaa_inv(cur)
    &&& 0 < fsi <= node_index < cur.stack.len() && (at_break <==> node_index == fsi)
    &&& cur.stack[fsi] == fe
    &&& (forall|j: int| 0 <= j < node_index ==> #[trigger] cur.stack[j] == a1.stack[j])
    &&& (forall|j: int| 0 <= j < node_index ==> (#[trigger] a1.stack[j]).id@ < a1.created)
    &&& (forall|j: int| fsi < j < a1.stack.len() ==> #[trigger] a1.stack[j] != fe)
    &&& (exists|k: int| node_index <= k < cur.stack.len() && fsi < k && #[trigger] cur.stack[k] == fb)
    &&& list_has(cur.list, fe)
    &&& (bookmark is Some ==> list_has(cur.list, bookmark.unwrap()) && bookmark.unwrap().id@ >= a1.created)
    &&& fe.id@ < a1.created
    &&& cur.created >= a1.created
    &&& cur.errs == a1.errs
    &&& cur.stack.len() <= a1.stack.len() && cur.list.len() <= a1.list.len()
}
pub open spec fn inner0(a1: Aaa, fbi: int, fb: Handle) -> Inner { Inner { a: a1, node_index: fbi, last_node: fb, bookmark: None, counter: 0 } }
pub open spec fn inner_now(a: Aaa, node_index: int, last_node: Handle, bookmark: Option<Handle>, counter: int) -> Inner {
    Inner { a: a, node_index: node_index, last_node: last_node, bookmark: bookmark, counter: counter }
}
pub proof fn lemma_fmt_entry(l: Seq<FormatEntry>, subject: LocalName, n: int)
    requires 0 <= n <= l.len(),
    ensures match fmt_entry_for(l, subject, n) { Some(i) => 0 <= i < n && l[i] is Element && l[i]->Element_1.name == subject, None => true },
    decreases n,
{
    if n > 0 && !(l[n - 1] is Marker) && l[n - 1]->Element_1.name != subject { lemma_fmt_entry(l, subject, n - 1); }
}

pub open spec fn inner_removed(c: Aaa, ni0: int, drop_entry: bool) -> Aaa {
    let p = list_pos(c.list, c.stack[ni0 - 1]);
    Aaa { stack: c.stack.remove(ni0 - 1), list: if drop_entry { c.list.remove(p.unwrap() as int) } else { c.list }, ..c }
}
pub open spec fn inner_replaced(c: Aaa, ni0: int, last_node: Handle) -> Aaa {
    let p = list_pos(c.list, c.stack[ni0 - 1]).unwrap() as int;
    let new = fresh_handle(c.created);
    let tag = c.list[p]->Element_1;
    Aaa {
        stack: c.stack.update(ni0 - 1, new),
        list: c.list.update(p, FormatEntry::Element(new, tag)),
        dom: c.dom.push(DomOp::Create(new, html_name(tag.name), tag.attrs@, tag.had_duplicate_attributes))
                .push(DomOp::RemoveFromParent(last_node)).push(DomOp::Append(new, NodeOrText::AppendNode(last_node))),
        created: c.created + 1,
        ..c
    }
}
/// inner loop, steps 13.4/13.5: node (not the formatting element) is removed from the stack, and its entry, if it has one, from the list
pub proof fn lemma_inner_remove(c: Aaa, a1: Aaa, fe: Handle, fb: Handle, fsi: int, ni0: int, bm: Option<Handle>, drop_entry: bool)
    requires
        inner_inv(c, a1, fe, fb, fsi, ni0, bm, false), c.stack[ni0 - 1] != fe,
        drop_entry ==> list_pos(c.list, c.stack[ni0 - 1]) is Some,
    ensures inner_inv(inner_removed(c, ni0, drop_entry), a1, fe, fb, fsi, ni0 - 1, bm, false),
{
    reveal(inner_inv);
    reveal(aaa_inv);
    let ni = ni0 - 1;
    let node = c.stack[ni];
    let p = list_pos(c.list, node);
    lemma_position(c.list, is_entry_for(node), 0);
    let l2 = if drop_entry { c.list.remove(p.unwrap() as int) } else { c.list };
    let st2 = c.stack.remove(ni);
    let c2 = Aaa { stack: st2, list: l2, ..c };
    assert(node == a1.stack[ni]);
    assert(node.id@ < a1.created);
    assert(ni > fsi) by { if ni == fsi { assert(c.stack[fsi] == fe); } }
    // the stack
    assert forall|i: int| 0 <= i < st2.len() implies (#[trigger] st2[i]).id@ < c2.created by {
        if i < ni { assert(st2[i] == c.stack[i]); } else { assert(st2[i] == c.stack[i + 1]); }
    }
    assert forall|j: int| 0 <= j < ni implies #[trigger] st2[j] == a1.stack[j] by { assert(st2[j] == c.stack[j]); }
    let k = choose|k: int| ni0 <= k < c.stack.len() && fsi < k && #[trigger] c.stack[k] == fb;
    assert(st2[k - 1] == fb);
    assert(st2[fsi] == fe);
    assert(st2[0] == c.stack[0]);
    // the list
    if drop_entry {
        let q = p.unwrap() as int;
        assert forall|i: int| 0 <= i < l2.len() && (#[trigger] l2[i]) is Element implies l2[i]->Element_0.id@ < c2.created
            && elem_name_of(l2[i]->Element_0) == html_name(l2[i]->Element_1.name) by {
            if i < q { assert(l2[i] == c.list[i]); } else { assert(l2[i] == c.list[i + 1]); }
        }
        let wf = choose|i: int| 0 <= i < c.list.len() && (#[trigger] c.list[i]) is Element && c.list[i]->Element_0 == fe;
        assert(wf != q);
        if wf < q { assert(l2[wf] == c.list[wf]); } else { assert(l2[wf - 1] == c.list[wf]); }
        if bm is Some {
            let h = bm.unwrap();
            let wh = choose|i: int| 0 <= i < c.list.len() && (#[trigger] c.list[i]) is Element && c.list[i]->Element_0 == h;
            assert(wh != q);
            if wh < q { assert(l2[wh] == c.list[wh]); } else { assert(l2[wh - 1] == c.list[wh]); }
        }
    }
}
/// inner loop, steps 13.6-13.9: node's entries in the stack and in the list are replaced by a new element
pub proof fn lemma_inner_replace(c: Aaa, a1: Aaa, fe: Handle, fb: Handle, fsi: int, ni0: int, bm: Option<Handle>, last_node: Handle)
    requires
        inner_inv(c, a1, fe, fb, fsi, ni0, bm, false), c.stack[ni0 - 1] != fe,
        list_pos(c.list, c.stack[ni0 - 1]) is Some,
        elem_name_of(fresh_handle(c.created)) == html_name(c.list[list_pos(c.list, c.stack[ni0 - 1]).unwrap() as int]->Element_1.name),
    ensures inner_inv(inner_replaced(c, ni0, last_node), a1, fe, fb, fsi, ni0 - 1, if last_node == fb { Some(fresh_handle(c.created)) } else { bm }, false),
{
    reveal(inner_inv);
    reveal(aaa_inv);
    let ni = ni0 - 1;
    let node = c.stack[ni];
    lemma_position(c.list, is_entry_for(node), 0);
    let p = list_pos(c.list, node).unwrap() as int;
    let new = fresh_handle(c.created);
    let tag = c.list[p]->Element_1;
    let st2 = c.stack.update(ni, new);
    let l2 = c.list.update(p, FormatEntry::Element(new, tag));
    let c2 = inner_replaced(c, ni0, last_node);
    assert(node == a1.stack[ni]);
    assert(node.id@ < a1.created);
    assert(ni > fsi) by { if ni == fsi { assert(c.stack[fsi] == fe); } }
    assert forall|i: int| 0 <= i < st2.len() implies (#[trigger] st2[i]).id@ < c2.created by {
        if i != ni { assert(st2[i] == c.stack[i]); }
    }
    assert forall|j: int| 0 <= j < ni implies #[trigger] st2[j] == a1.stack[j] by { assert(st2[j] == c.stack[j]); }
    let k = choose|k: int| ni0 <= k < c.stack.len() && fsi < k && #[trigger] c.stack[k] == fb;
    assert(st2[k] == fb);
    assert(st2[fsi] == fe);
    assert(st2[0] == c.stack[0]);
    assert forall|i: int| 0 <= i < l2.len() && (#[trigger] l2[i]) is Element implies l2[i]->Element_0.id@ < c2.created
        && elem_name_of(l2[i]->Element_0) == html_name(l2[i]->Element_1.name) by {
        if i != p { assert(l2[i] == c.list[i]); }
    }
    let wf = choose|i: int| 0 <= i < c.list.len() && (#[trigger] c.list[i]) is Element && c.list[i]->Element_0 == fe;
    assert(wf != p);
    assert(l2[wf] == c.list[wf]);
    if last_node == fb {
        assert(l2[p] is Element && l2[p]->Element_0 == new);
    } else if bm is Some {
        let h = bm.unwrap();
        let wh = choose|i: int| 0 <= i < c.list.len() && (#[trigger] c.list[i]) is Element && c.list[i]->Element_0 == h;
        assert(wh != p);
        assert(l2[wh] == c.list[wh]);
    }
}
/// steps 4.14 - 4.19 keep the tree builder's invariant (so the next round starts from a good state)
pub proof fn lemma_finish_inv(i: Inner, a1: Aaa, fe: Handle, fe_tag: Tag, fb: Handle, ca: Handle, foster: bool, fsi: int)
    requires
        inner_inv(i.a, a1, fe, fb, fsi, i.node_index, i.bookmark, true), fe != fb,
        elem_name_of(fresh_handle(i.a.created)) == html_name(fe_tag.name),
    ensures
        aaa_inv(aaa_finish(i, fe, fe_tag, fb, ca, foster)),
        list_pos(i.a.list, fe) is Some,
        i.bookmark is Some ==> list_pos(i.a.list, i.bookmark.unwrap()) is Some
            && list_pos(i.a.list.insert(list_pos(i.a.list, i.bookmark.unwrap()).unwrap() as int + 1, FormatEntry::Element(fresh_handle(i.a.created), fe_tag)), fe) is Some,
        seq_rposition(i.a.stack, is_handle(fe), i.a.stack.len() as int) is Some,
        seq_position(i.a.stack.remove(seq_rposition(i.a.stack, is_handle(fe), i.a.stack.len() as int).unwrap() as int), is_handle(fb), 0) is Some,
{
    reveal(inner_inv);
    reveal(aaa_inv);
    reveal(aaa_finish);
    let c = i.a;
    let new2 = fresh_handle(c.created);
    let entry = FormatEntry::Element(new2, fe_tag);
    let r = aaa_finish(i, fe, fe_tag, fb, ca, foster);
    lemma_position(c.list, is_entry_for(fe), 0);
    let wf = choose|j: int| 0 <= j < c.list.len() && (#[trigger] c.list[j]) is Element && c.list[j]->Element_0 == fe;
    assert(is_entry_for(fe)(c.list[wf]));
    let pf = list_pos(c.list, fe).unwrap() as int;
    // the list
    match i.bookmark {
        None => {
            let l = c.list.update(pf, entry);
            assert(r.list == l);
            assert forall|j: int| 0 <= j < l.len() && (#[trigger] l[j]) is Element implies l[j]->Element_0.id@ < r.created
                && elem_name_of(l[j]->Element_0) == html_name(l[j]->Element_1.name) by {
                if j != pf { assert(l[j] == c.list[j]); }
            }
        },
        Some(prev) => {
            lemma_position(c.list, is_entry_for(prev), 0);
            let wp = choose|j: int| 0 <= j < c.list.len() && (#[trigger] c.list[j]) is Element && c.list[j]->Element_0 == prev;
            assert(is_entry_for(prev)(c.list[wp]));
            let q = list_pos(c.list, prev).unwrap() as int + 1;
            let l2 = c.list.insert(q, entry);
            assert forall|j: int| 0 <= j < l2.len() implies #[trigger] l2[j] == (if j < q { c.list[j] } else if j == q { entry } else { c.list[j - 1] }) by {}
            let wf2 = if wf < q { wf } else { wf + 1 };
            assert(is_entry_for(fe)(l2[wf2]));
            lemma_position(l2, is_entry_for(fe), 0);
            let rr = list_pos(l2, fe).unwrap() as int;
            let l = l2.remove(rr);
            assert(r.list == l);
            assert forall|j: int| 0 <= j < l.len() && (#[trigger] l[j]) is Element implies l[j]->Element_0.id@ < r.created
                && elem_name_of(l[j]->Element_0) == html_name(l[j]->Element_1.name) by {
                let j2 = if j < rr { j } else { j + 1 };
                assert(l[j] == l2[j2]);
                if j2 < q { assert(l2[j2] == c.list[j2]); } else if j2 > q { assert(l2[j2] == c.list[j2 - 1]); }
            }
        },
    }
    // the stack
    lemma_rposition(c.stack, is_handle(fe), c.stack.len() as int);
    assert(is_handle(fe)(c.stack[fsi]));
    let k = seq_rposition(c.stack, is_handle(fe), c.stack.len() as int).unwrap() as int;
    assert(k >= fsi);
    let st1 = c.stack.remove(k);
    let kb = choose|kb: int| i.node_index <= kb < c.stack.len() && fsi < kb && #[trigger] c.stack[kb] == fb;
    assert(kb != k);
    let kb1 = if kb < k { kb } else { kb - 1 };
    assert(st1[kb1] == fb);
    assert(is_handle(fb)(st1[kb1]));
    lemma_position(st1, is_handle(fb), 0);
    let nfb = seq_position(st1, is_handle(fb), 0).unwrap() as int;
    let st2 = st1.insert(nfb + 1, new2);
    assert(r.stack == st2);
    assert forall|j: int| 0 <= j < st2.len() implies (#[trigger] st2[j]).id@ < r.created by {
        if j < nfb + 1 { assert(st2[j] == st1[j]); if j < k { assert(st1[j] == c.stack[j]); } else { assert(st1[j] == c.stack[j + 1]); } }
        else if j > nfb + 1 { assert(st2[j] == st1[j - 1]); if j - 1 < k { assert(st1[j - 1] == c.stack[j - 1]); } else { assert(st1[j - 1] == c.stack[j]); } }
    }
    assert(st2[0] == st1[0]);
    assert(st1[0] == c.stack[0]);
}

/// "any other end tag" for a non-special name keeps the invariant (the element it closes is not the root)
pub proof fn lemma_other_end_inv(a: Aaa, subject: LocalName)
    requires aaa_inv(a), !ts_special_tag(html_name(subject)),
    ensures aaa_inv(other_end(a, subject)),
{
    reveal(aaa_inv);
    lemma_other_end(a.stack, a.stack.len() as int, subject);
    match w_other_end(a.stack, a.stack.len() as int, subject) {
        Some(k) => {
            assert(k >= 1) by { if k == 0 { assert(html_named(a.stack[0], subject)); } }
            lemma_inv_shrink(a, Aaa { errs: other_end(a, subject).errs, stack: a.stack.take(k), ..a }, k, 0);
        },
        None => { assert(a.stack.take(a.stack.len() as int) =~= a.stack); lemma_inv_shrink(a, other_end(a, subject), a.stack.len() as int, 0); },
    }
}
/// the invariant does not mention the error count or the DOM log
pub proof fn lemma_errs_inv(a: Aaa, errs: nat)
    requires aaa_inv(a),
    ensures aaa_inv(Aaa { errs: errs, ..a }),
{ reveal(aaa_inv); }
