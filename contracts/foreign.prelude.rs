// ======== U-foreign prelude ========
#[derive(PartialEq, Eq, Clone, Copy, Structural)]
pub struct LocalName(pub u64);
#[derive(PartialEq, Eq, Clone, Copy, Structural)]
pub struct Namespace(pub u64);
#[derive(PartialEq, Eq, Clone, Copy, Structural)]
pub struct Prefix(pub u64);
#[derive(PartialEq, Eq, Clone, Copy, Structural)]
pub struct QualName { pub prefix: Option<Prefix>, pub ns: Namespace, pub local: LocalName }
