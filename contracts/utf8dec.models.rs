// ---- U-utf8 models (hand-written; ASSUMED contracts on the standard library) ----
/// model of core::str::Utf8Error
pub struct Utf8Error { pub v: usize, pub l: Option<u8> }
impl Utf8Error {
    pub fn valid_up_to(&self) -> (r: usize) ensures r == self.v { self.v }
    pub fn error_len(&self) -> (r: Option<usize>)
        ensures match self.l { Some(n) => r == Some(n as usize), None => r is None }
    { match self.l { Some(n) => Some(n as usize), None => None } }
}
/// ASSUMED contract of core::str::from_utf8 (from its documentation: valid_up_to is the end of the longest well-formed
/// prefix; error_len is the length of the maximal ill-formed subpart there, or None if the input ends unexpectedly)
#[verifier::external_body]
pub fn from_utf8(b: &[u8]) -> (r: Result<&str, Utf8Error>)
    ensures match r {
        Ok(s) => well_formed(b@) && s.spec_bytes() == b@,
        Err(e) => e.v as int == valid_to(b@, 0) && e.v < b@.len() && match step_at(b@, e.v as int) {
            U8Step::Bad(n) => e.l == Some(n as u8),
            U8Step::Inc => e.l is None,
            U8Step::Ok(_) => false,
        },
    }
{ unimplemented!() }
/// core::str::from_utf8_unchecked: its safety condition is an OBLIGATION of the caller
#[verifier::external_body]
pub unsafe fn from_utf8_unchecked(b: &[u8]) -> (r: &str)
    requires well_formed(b@),
    ensures r.spec_bytes() == b@,
{ unimplemented!() }
pub fn min_usize(a: usize, b: usize) -> (r: usize) ensures r == (if a <= b { a } else { b }) { if a <= b { a } else { b } }
/// `dst[start..start + src.len()].copy_from_slice(src)` (ASSUMED contract of slice indexing + copy_from_slice; both
/// panic conditions are the requires)
#[verifier::external_body]
pub fn array_copy_in<const N: usize>(dst: &mut [u8; N], start: usize, src: &[u8])
    requires start + src@.len() <= N,
    ensures final(dst)@ == old(dst)@.subrange(0, start as int) + src@ + old(dst)@.subrange(start + src@.len(), N as int),
{ unimplemented!() }
pub fn array_len<const N: usize>(a: &[u8; N]) -> (r: usize) ensures r == N { N }
impl IncompleteUtf8 {
    /// the bytes carried over
    pub open spec fn pending(&self) -> Seq<u8> { self.buffer@.subrange(0, self.buffer_len as int) }
    pub open spec fn wf(&self) -> bool { self.buffer_len <= 4 }
}
