// ---- U-xtb: models for the XML tree-construction rules (xml5ever/src/tree_builder/mod.rs) ----
impl Handle {
    pub fn clone(&self) -> (r: Handle) ensures r == *self { Handle { id: self.id } }
}
#[derive(PartialEq, Eq, Clone, Copy, Structural)]
pub struct ExpandedName { pub ns: Namespace, pub local: LocalName }
impl QualName {
    pub open spec fn xname(&self) -> ExpandedName { ExpandedName { ns: self.ns, local: self.local } }
    #[verifier::external_body]
    pub fn expanded(&self) -> (r: ExpandedName) ensures r == self.xname() { unimplemented!() }
}
pub enum NodeOrText { AppendNode(Handle), AppendText(StrTendril) }
pub use NodeOrText::{AppendNode, AppendText};
/// the name of an element as the sink reports it (ASSUMED: a function of the handle)
pub uninterp spec fn xelem_name_of(h: Handle) -> ExpandedName;
pub struct ElemName { pub n: ExpandedName }
impl ElemName {
    pub fn expanded(&self) -> (r: ExpandedName) ensures r == self.n { self.n }
    pub fn local_name(&self) -> (r: &LocalName) ensures *r == self.n.local { &self.n.local }
}
/// the tree sink (ASSUMED contract-abiding; its effects are not modelled in this unit - the rules are checked for the state of
/// the tree builder: the stack of open elements, the phase)
impl TreeSink {
    #[verifier::external_body]
    pub fn elem_name(&self, h: &Handle) -> (r: ElemName) ensures r.n == xelem_name_of(*h) { unimplemented!() }
    #[verifier::external_body]
    pub fn get_document(&self) -> Handle { unimplemented!() }
    #[verifier::external_body]
    pub fn append(&mut self, parent: &Handle, child: NodeOrText) { unimplemented!() }
    #[verifier::external_body]
    pub fn pop(&mut self, node: &Handle) { unimplemented!() }
    #[verifier::external_body]
    pub fn create_comment(&mut self, text: StrTendril) -> Handle { unimplemented!() }
    #[verifier::external_body]
    pub fn create_pi(&mut self, target: StrTendril, data: StrTendril) -> Handle { unimplemented!() }
    #[verifier::external_body]
    pub fn append_doctype_to_document(&mut self, name: StrTendril, public_id: StrTendril, system_id: StrTendril) { unimplemented!() }
}
/// markup5ever::interface::create_element (ASSUMED)
#[verifier::external_body]
pub fn create_element(sink: &TreeSink, name: QualName, attrs: Vec<Attribute>) -> (r: Handle) ensures xelem_name_of(r) == name.xname() { unimplemented!() }
/// `x.bytes().all(|b| matches!(b, b'\t' | b'\r' | b'\n' | b'\x0C' | b' '))` negated (ASSUMED: a function of the text)
pub uninterp spec fn w_any_nws(t: StrTendril) -> bool;
#[verifier::external_body]
pub fn any_not_whitespace(x: &StrTendril) -> (r: bool) ensures r == w_any_nws(*x) { unimplemented!() }
/// R37: `.iter().any(|a| self.sink.elem_name(a).expanded() == NAME)` over the stack of open elements (ASSUMED: what `any` means)
#[verifier::external_body]
pub fn elems_any_named(v: &Vec<Handle>, sink: &TreeSink, name: ExpandedName) -> (r: bool)
    ensures r == any_named(v@, name),
{ unimplemented!() }
/// the predicate (a closure) certainly holds for the element: whatever result it may give on the element's name is `true`
pub open spec fn sure<P: Fn(ExpandedName) -> bool>(pred: P, h: Handle) -> bool { forall|b: bool| pred.ensures((xelem_name_of(h),), b) ==> b }
/// some open element has that expanded name
pub open spec fn any_named(s: Seq<Handle>, name: ExpandedName) -> bool { exists|i: int| 0 <= i < s.len() && xelem_name_of(#[trigger] s[i]) == name }

// ---- what the rules need of the state, and keep (PROVED to be an invariant: established by `new`, kept by `step`) ----
impl XmlTreeBuilder {
    pub open spec fn elems(&self) -> Seq<Handle> { self.open_elems.v@ }
    /// in the main phase there is a current node; the per-tag namespace declarations are a well-formed map; the stack of namespace
    /// scopes and the stack of open elements grow and shrink together
    pub open spec fn xinv(&self) -> bool {
        &&& (self.phase.v == XmlPhase::Main ==> self.elems().len() > 0)
        &&& self.cur().scope.wf()
        // one namespace scope per open element, above the default scope (until the end phase)
        &&& (self.phase.v != XmlPhase::End ==> self.balanced())
    }
    pub open spec fn balanced(&self) -> bool { self.stack().len() == self.elems().len() + 1 }
    /// nothing but the sink changed
    pub open spec fn same_state(&self, o: &XmlTreeBuilder) -> bool { self.same_tree(o) && self.same_scopes(o) }
}
impl Tag {
    /// derived Clone (ASSUMED: an equal value)
    #[verifier::external_body]
    pub fn clone(&self) -> (r: Tag) ensures r == *self { unimplemented!() }
}
