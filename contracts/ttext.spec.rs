// ---- U-ttext: the "in table text" insertion mode (13.2.6.4.10) ----
/// "any of the tokens in the pending table character tokens list are character tokens that are not ASCII whitespace" (the scan
/// `pending.iter().any(..)` over the split status / text pairs; ASSUMED: an uninterpreted function of the list)
pub uninterp spec fn w_pending_nonspace(p: Seq<(SplitStatus, StrTendril)>) -> bool;
#[verifier::external_body]
pub fn pending_any_nonspace(p: &Vec<(SplitStatus, StrTendril)>) -> (r: bool) ensures r == w_pending_nonspace(p@) { unimplemented!() }
/// ASSUMED link to another block: what the "in body" rule for a character token does.  U-inbody PROVES this clause (slice 1 of
/// step__in_body: result Done, original insertion mode and pending table text untouched) for every state that satisfies body_pre;
/// here it is assumed of the uninterpreted rules function for the state the foster-parented reprocessing reaches.
#[verifier::external_body]
pub proof fn axiom_inbody_characters(m: TreeBuilder, split: SplitStatus, text: StrTendril)
    ensures ({
        let s = w_step(m, InsertionMode::InBody, Token::Characters(split, text));
        s.1 is Done && s.0.orig_mode == m.orig_mode && s.0.pending_table_text == m.pending_table_text
    }),
{}
impl RefCell<Vec<(SplitStatus, StrTendril)>> {
    /// RefCell::take: the vector moves out, an empty one stays
    pub fn take(&mut self) -> (r: Vec<(SplitStatus, StrTendril)>) ensures r@ == old(self).v@, final(self).v@.len() == 0 {
        let mut x = Vec::new(); std::mem::swap(&mut self.v, &mut x); x
    }
}
