// ---- U-fmt prelude (hand-written): the part of the HTML tree builder that the list of active formatting elements needs ----
#[derive(PartialEq, Eq, Clone, Copy, Structural)]
pub struct LocalName(pub u64);
#[derive(PartialEq, Eq, Clone, Copy, Structural)]
pub struct Namespace(pub u64);
pub struct Handle { pub id: u64 }
impl Handle {
    #[verifier::external_body]
    pub fn clone(&self) -> (r: Handle) ensures r == *self { unimplemented!() }
}
pub struct Attribute { pub x: u64 }
/// model of tokenizer::Tag: only identity and the equivalence used by the Noah's Ark clause matter here
pub struct Tag { pub id: u64, pub name: LocalName, pub attrs: Vec<Attribute>, pub had_duplicate_attributes: bool }
/// "same tag name, namespace and attributes" (Tag::equiv_modulo_attr_order; ASSUMED to implement it)
pub uninterp spec fn tag_equiv(a: Tag, b: Tag) -> bool;
impl Tag {
    #[verifier::external_body]
    pub fn equiv_modulo_attr_order(&self, other: &Tag) -> (r: bool) ensures r == tag_equiv(*self, *other) { unimplemented!() }
}
impl LocalName {
    pub fn clone(&self) -> (r: LocalName) ensures r == *self { *self }
}
#[verifier::external_body]
pub fn attrs_clone(a: &Vec<Attribute>) -> (r: Vec<Attribute>) ensures r@ == a@ { unimplemented!() }
pub enum PushFlag { Push, NoPush }
/// the tree builder reduced to the field these functions touch (a MODEL struct; the functions are the repository's)
pub struct TreeBuilder { pub active_formatting: RefCell<Vec<FormatEntry>> }
impl TreeBuilder {
    /// insert_element (ASSUMED frame): creates and inserts the element; does not touch the list of active formatting elements
    #[verifier::external_body]
    pub fn insert_element(&mut self, push: PushFlag, ns: Namespace, name: LocalName, attrs: Vec<Attribute>, had_duplicate_attributes: bool) -> (r: Handle)
        ensures final(self).active_formatting == old(self).active_formatting,
    { unimplemented!() }
    pub open spec fn list(&self) -> Seq<FormatEntry> { self.active_formatting.v@ }
}
// ---- specification (WHATWG 13.2.4.3 "the list of active formatting elements") ----
/// index of the last marker among the first n entries (-1: none)
pub open spec fn last_marker(l: Seq<FormatEntry>, n: int) -> int
    decreases n
{
    if n <= 0 { -1 } else if l[n - 1] is Marker { n - 1 } else { last_marker(l, n - 1) }
}
/// entry i is an element after the last marker with the same tag name, namespace and attributes as `tag`
pub open spec fn ark_match(l: Seq<FormatEntry>, tag: Tag, i: int) -> bool {
    last_marker(l, l.len() as int) < i < l.len() && l[i] is Element && tag_equiv(tag, l[i]->Element_1)
}
/// number of matches among the entries from index j on
pub open spec fn ark_count(l: Seq<FormatEntry>, tag: Tag, j: int) -> int
    decreases l.len() - j
{
    if j >= l.len() { 0 } else { (if ark_match(l, tag, j) { 1int } else { 0int }) + ark_count(l, tag, j + 1) }
}
/// "If there are already three elements in the list after the last marker ... that have the same tag name, namespace,
/// and attributes as element, then remove the earliest such element from the list"
pub open spec fn noah(l: Seq<FormatEntry>, tag: Tag) -> Seq<FormatEntry> {
    if ark_count(l, tag, 0) >= 3 {
        let e = choose|e: int| ark_match(l, tag, e) && forall|i: int| ark_match(l, tag, i) ==> e <= i;
        l.remove(e)
    } else { l }
}
/// "clear the list of active formatting elements up to the last marker"
pub open spec fn clear_to_marker(l: Seq<FormatEntry>) -> Seq<FormatEntry> {
    let m = last_marker(l, l.len() as int);
    if m < 0 { Seq::<FormatEntry>::empty() } else { l.take(m) }
}
pub proof fn lemma_last_marker(l: Seq<FormatEntry>, n: int)
    requires 0 <= n <= l.len(),
    ensures ({
        let r = last_marker(l, n);
        -1 <= r < n && (r >= 0 ==> l[r] is Marker) && forall|j: int| r < j < n ==> !(#[trigger] l[j] is Marker)
    }),
    decreases n,
{
    if n > 0 && !(l[n - 1] is Marker) { lemma_last_marker(l, n - 1); }
}
/// the last marker is where the first marker from the end is
pub proof fn lemma_last_marker_at(l: Seq<FormatEntry>, k: int)
    requires 0 <= k <= l.len(), forall|j: int| k <= j < l.len() ==> !(#[trigger] l[j] is Marker), k > 0 ==> l[k - 1] is Marker,
    ensures last_marker(l, l.len() as int) == k - 1,
    decreases l.len() - k,
{
    lemma_last_marker_from(l, l.len() as int, k);
}
pub proof fn lemma_last_marker_from(l: Seq<FormatEntry>, n: int, k: int)
    requires 0 <= k <= n <= l.len(), forall|j: int| k <= j < l.len() ==> !(#[trigger] l[j] is Marker), k > 0 ==> l[k - 1] is Marker,
    ensures last_marker(l, n) == k - 1,
    decreases n,
{
    if n > k { lemma_last_marker_from(l, n - 1, k); }
    else if k > 0 { } else { }
}
/// nothing before (or at) the last marker is a match
pub proof fn lemma_ark_count_skip(l: Seq<FormatEntry>, tag: Tag, j: int)
    requires 0 <= j <= last_marker(l, l.len() as int) + 1,
    ensures ark_count(l, tag, j) == ark_count(l, tag, last_marker(l, l.len() as int) + 1),
    decreases last_marker(l, l.len() as int) + 1 - j,
{
    lemma_last_marker(l, l.len() as int);
    if j < last_marker(l, l.len() as int) + 1 { lemma_ark_count_skip(l, tag, j + 1); }
}
