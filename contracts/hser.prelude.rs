// ======== U-hser prelude (hand-written) ========
#[derive(PartialEq, Eq, Clone, Copy, Structural)]
pub struct LocalName(pub u64);
#[derive(PartialEq, Eq, Clone, Copy, Structural)]
pub struct Namespace(pub u64);
pub uninterp spec fn local_bytes(id: u64) -> Seq<u8>;
impl LocalName {
    #[verifier::external_body]
    pub fn as_bytes(&self) -> (r: &[u8]) ensures r@ == local_bytes(self.0) { unimplemented!() }
}
#[derive(Clone, Copy)]
pub struct QualName { pub ns: Namespace, pub local: LocalName }
pub struct IoError { pub x: u8 }
pub type IoResult = Result<(), IoError>;
/// byte sink: write_all either appends everything or fails
pub struct Writer { pub log: Ghost<Seq<u8>> }
impl Writer {
    #[verifier::external_body]
    pub fn write_all(&mut self, buf: &[u8]) -> (r: IoResult)
        ensures r is Ok ==> final(self).log@ == old(self).log@ + buf@,
    { unimplemented!() }
}
impl ElemInfo {
    pub fn default() -> (r: ElemInfo) ensures r.html_name is None, !r.ignore_children {
        ElemInfo { html_name: None, ignore_children: false }
    }
}
// memchr: ASSUMED contracts (first index of any needle)
#[verifier::external_body]
pub fn memchr2(a: u8, b: u8, s: &[u8]) -> (r: Option<usize>)
    ensures match r {
        Some(i) => i < s@.len() && (s@[i as int] == a || s@[i as int] == b) && forall|j: int| 0 <= j < i ==> #[trigger] s@[j] != a && s@[j] != b,
        None => forall|j: int| 0 <= j < s@.len() ==> #[trigger] s@[j] != a && s@[j] != b,
    }
{ unimplemented!() }
#[verifier::external_body]
pub fn memchr3(a: u8, b: u8, c: u8, s: &[u8]) -> (r: Option<usize>)
    ensures match r {
        Some(i) => i < s@.len() && (s@[i as int] == a || s@[i as int] == b || s@[i as int] == c)
            && forall|j: int| 0 <= j < i ==> #[trigger] s@[j] != a && s@[j] != b && s@[j] != c,
        None => forall|j: int| 0 <= j < s@.len() ==> #[trigger] s@[j] != a && s@[j] != b && s@[j] != c,
    }
{ unimplemented!() }

// ---- specification of HTML escaping (WHATWG "escaping a string"; '<' and '>' are escaped in attribute mode too) ----
pub open spec fn r_amp() -> Seq<u8> { seq![38u8, 97, 109, 112, 59] }          // &amp;
pub open spec fn r_quot() -> Seq<u8> { seq![38u8, 113, 117, 111, 116, 59] }   // &quot;
pub open spec fn r_lt() -> Seq<u8> { seq![38u8, 108, 116, 59] }               // &lt;
pub open spec fn r_gt() -> Seq<u8> { seq![38u8, 103, 116, 59] }               // &gt;
pub open spec fn r_nbsp() -> Seq<u8> { seq![38u8, 110, 98, 115, 112, 59] }    // &nbsp;
pub open spec fn spec_escape(b: Seq<u8>, attr: bool) -> Seq<u8>
    decreases b.len()
{
    if b.len() == 0 { Seq::<u8>::empty() }
    else if b[0] == 38 { r_amp() + spec_escape(b.drop_first(), attr) }
    else if b[0] == 34 && attr { r_quot() + spec_escape(b.drop_first(), attr) }
    else if b[0] == 60 { r_lt() + spec_escape(b.drop_first(), attr) }
    else if b[0] == 62 { r_gt() + spec_escape(b.drop_first(), attr) }
    else if b[0] == 0xC2 && b.len() > 1 && b[1] == 0xA0 { r_nbsp() + spec_escape(b.skip(2), attr) }
    else { seq![b[0]] + spec_escape(b.drop_first(), attr) }
}
pub open spec fn mq(attr: bool) -> u8 { if attr { 34u8 } else { 60u8 } }
/// bytes at which write_escaped has to stop and look
pub open spec fn special(x: u8, attr: bool) -> bool { x == 38 || x == 0xC2 || x == mq(attr) || x == 60 || x == 62 }
pub proof fn lemma_plain_run(b: Seq<u8>, k: int, attr: bool)
    requires 0 <= k <= b.len(), forall|j: int| 0 <= j < k ==> !special(#[trigger] b[j], attr),
    ensures spec_escape(b, attr) == b.take(k) + spec_escape(b.skip(k), attr),
    decreases k,
{
    if k == 0 {
        assert(b.skip(0) =~= b);
        assert(b.take(0) + spec_escape(b, attr) =~= spec_escape(b, attr));
    } else {
        assert(!special(b[0], attr));
        assert forall|j: int| 0 <= j < k - 1 implies !special(#[trigger] b.drop_first()[j], attr) by { assert(b.drop_first()[j] == b[j + 1]); }
        lemma_plain_run(b.drop_first(), k - 1, attr);
        assert(b.drop_first().skip(k - 1) =~= b.skip(k));
        assert(seq![b[0]] + b.drop_first().take(k - 1) =~= b.take(k));
        assert(seq![b[0]] + (b.drop_first().take(k - 1) + spec_escape(b.skip(k), attr)) =~= b.take(k) + spec_escape(b.skip(k), attr));
    }
}
/// ASSUMED: bytes of the five ASCII replacement literals and of the fixed markup pieces
#[verifier::external_body]
pub proof fn axiom_literal_bytes()
    ensures
        "&amp;".spec_bytes() == r_amp(), "&quot;".spec_bytes() == r_quot(), "&lt;".spec_bytes() == r_lt(),
        "&gt;".spec_bytes() == r_gt(), "&nbsp;".spec_bytes() == r_nbsp(),
{}

// ---- consequences the property needs (proved, no code involved) ----
/// the escaped form contains no '<' and no '>', and no '"' in attribute mode: text cannot leave its context
pub proof fn lemma_escape_confined(b: Seq<u8>, attr: bool)
    ensures forall|i: int| 0 <= i < spec_escape(b, attr).len() ==>
        #[trigger] spec_escape(b, attr)[i] != 60 && spec_escape(b, attr)[i] != 62 && (attr ==> spec_escape(b, attr)[i] != 34),
    decreases b.len(),
{
    if b.len() > 0 {
        let e = spec_escape(b, attr);
        let rest = if b[0] == 0xC2 && b.len() > 1 && b[1] == 0xA0 { b.skip(2) } else { b.drop_first() };
        lemma_escape_confined(rest, attr);
        let er = spec_escape(rest, attr);
        let head = if b[0] == 38 { r_amp() } else if b[0] == 34 && attr { r_quot() } else if b[0] == 60 { r_lt() } else if b[0] == 62 { r_gt() }
            else if b[0] == 0xC2 && b.len() > 1 && b[1] == 0xA0 { r_nbsp() } else { seq![b[0]] };
        assert(e == head + er);
        assert forall|i: int| 0 <= i < e.len() implies #[trigger] e[i] != 60 && e[i] != 62 && (attr ==> e[i] != 34) by {
            if i < head.len() {
                assert(e[i] == head[i]);
            } else {
                assert(e[i] == er[i - head.len()]);
            }
        }
    }
}
/// decoding the five references of the escaped form gives the text back (reversibility)
pub open spec fn starts(s: Seq<u8>, p: Seq<u8>) -> bool { s.len() >= p.len() && s.take(p.len() as int) == p }
pub open spec fn spec_unescape(s: Seq<u8>) -> Seq<u8>
    decreases s.len()
{
    if s.len() == 0 { Seq::<u8>::empty() }
    else if starts(s, r_amp()) { seq![38u8] + spec_unescape(s.skip(5)) }
    else if starts(s, r_quot()) { seq![34u8] + spec_unescape(s.skip(6)) }
    else if starts(s, r_lt()) { seq![60u8] + spec_unescape(s.skip(4)) }
    else if starts(s, r_gt()) { seq![62u8] + spec_unescape(s.skip(4)) }
    else if starts(s, r_nbsp()) { seq![0xC2u8, 0xA0u8] + spec_unescape(s.skip(6)) }
    else { seq![s[0]] + spec_unescape(s.drop_first()) }
}
pub proof fn lemma_escape_reversible(b: Seq<u8>, attr: bool)
    ensures spec_unescape(spec_escape(b, attr)) == b,
    decreases b.len(),
{
    if b.len() > 0 {
        let e = spec_escape(b, attr);
        let rest = if b[0] == 0xC2 && b.len() > 1 && b[1] == 0xA0 { b.skip(2) } else { b.drop_first() };
        lemma_escape_reversible(rest, attr);
        let er = spec_escape(rest, attr);
        if b[0] == 38 { assert(e.take(5) =~= r_amp()); assert(e.skip(5) =~= er); assert(seq![38u8] + rest =~= b); }
        else if b[0] == 34 && attr { assert(e.take(6) =~= r_quot()); assert(e.skip(6) =~= er); assert(e[1] == 113); assert(seq![34u8] + rest =~= b); }
        else if b[0] == 60 { assert(e.take(4) =~= r_lt()); assert(e.skip(4) =~= er); assert(e[1] == 108); assert(seq![60u8] + rest =~= b); }
        else if b[0] == 62 { assert(e.take(4) =~= r_gt()); assert(e.skip(4) =~= er); assert(e[1] == 103); assert(seq![62u8] + rest =~= b); }
        else if b[0] == 0xC2 && b.len() > 1 && b[1] == 0xA0 { assert(e.take(6) =~= r_nbsp()); assert(e.skip(6) =~= er); assert(e[1] == 110); assert(seq![0xC2u8, 0xA0u8] + rest =~= b); }
        else {
            assert(e[0] == b[0]); assert(e[0] != 38);
            assert(e.drop_first() =~= er);
            assert(seq![b[0]] + rest =~= b);
        }
    }
}

// ---- which parents keep their text unescaped (WHATWG "serializing HTML fragments") ----
pub open spec fn parent_name(stack: Seq<ElemInfo>) -> Option<LocalName> {
    if stack.len() > 0 { stack.last().html_name } else { None }
}
pub open spec fn is_raw_text_parent(n: Option<LocalName>, scripting: bool) -> bool {
    n == Some(local_name!("style")) || n == Some(local_name!("script")) || n == Some(local_name!("xmp")) || n == Some(local_name!("iframe"))
    || n == Some(local_name!("noembed")) || n == Some(local_name!("noframes")) || n == Some(local_name!("plaintext"))
    || (n == Some(local_name!("noscript")) && scripting)
}

/// R25 model of str::len (ASSUMED): the length in bytes
#[verifier::external_body]
pub fn str_len(s: &str) -> (r: usize) ensures r == s.spec_bytes().len() { unimplemented!() }

// ---- start tags (WHATWG "serializing HTML fragments": the start tag and its attributes) ----
pub type AttrRef<'a> = (&'a QualName, &'a str);
/// the prefix an attribute name is written with: none in no namespace, "xml:" / "xlink:" in those namespaces, "xmlns:"
/// in the XMLNS namespace unless the local name is xmlns itself.  (Any other namespace cannot come out of the HTML parser;
/// the code writes a placeholder prefix for it, marked FIXME in the repository - mirrored here.)
pub open spec fn attr_prefix(ns: Namespace, local: LocalName) -> Seq<u8> {
    if ns == ns!() { Seq::<u8>::empty() }
    else if ns == ns!(xml) { b"xml:"@ }
    else if ns == ns!(xmlns) { if local == local_name!("xmlns") { Seq::<u8>::empty() } else { b"xmlns:"@ } }
    else if ns == ns!(xlink) { b"xlink:"@ }
    else { b"unknown_namespace:"@ }
}
/// ` name="escaped value"` for the first n attributes
pub open spec fn attrs_ser(attrs: Seq<AttrRef>, n: int) -> Seq<u8>
    decreases n
{
    if n <= 0 { Seq::<u8>::empty() }
    else {
        let a = attrs[n - 1];
        attrs_ser(attrs, n - 1) + b" "@ + attr_prefix(a.0.ns, a.0.local) + local_bytes(a.0.local.0) + b"=\""@
            + spec_escape(a.1.spec_bytes(), true) + b"\""@
    }
}
/// elements serialized without children and without an end tag
pub open spec fn void_elem(name: QualName) -> bool {
    name.ns == ns!(html) && (name.local == local_name!("area") || name.local == local_name!("base") || name.local == local_name!("basefont")
        || name.local == local_name!("bgsound") || name.local == local_name!("br") || name.local == local_name!("col")
        || name.local == local_name!("embed") || name.local == local_name!("frame") || name.local == local_name!("hr")
        || name.local == local_name!("img") || name.local == local_name!("input") || name.local == local_name!("keygen")
        || name.local == local_name!("link") || name.local == local_name!("meta") || name.local == local_name!("param")
        || name.local == local_name!("source") || name.local == local_name!("track") || name.local == local_name!("wbr"))
}
/// the element stack `parent()` works on: the stack itself, or one anonymous entry if it is empty
pub open spec fn hser_base(st: Seq<ElemInfo>) -> Seq<ElemInfo> { if st.len() > 0 { st } else { seq![ElemInfo { html_name: None, ignore_children: false }] } }
