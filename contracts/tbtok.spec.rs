// ---- U-tbtok specification: what the tree builder does with one tokenizer token before the insertion-mode rules run ----
/// what the sink is told, in order (ASSUMED contract-abiding sink: a log)
pub enum Ev {
    Error,
    Line(u64),
    Doctype(Seq<char>, Seq<char>, Seq<char>),
    Quirks(QuirksMode),
    /// the token handed to the insertion-mode rules (process_to_completion)
    Rules(Token),
}
pub struct Sink { pub log: Ghost<Seq<Ev>> }
impl Sink {
    #[verifier::external_body]
    pub fn parse_error(&mut self, msg: Cow) ensures final(self).log@ == old(self).log@.push(Ev::Error) { unimplemented!() }
    #[verifier::external_body]
    pub fn set_current_line(&mut self, line: u64) ensures final(self).log@ == old(self).log@.push(Ev::Line(line)) { unimplemented!() }
    #[verifier::external_body]
    pub fn append_doctype_to_document(&mut self, name: StrTendril, public_id: StrTendril, system_id: StrTendril)
        ensures final(self).log@ == old(self).log@.push(Ev::Doctype(name@, public_id@, system_id@)),
    { unimplemented!() }
    #[verifier::external_body]
    pub fn set_quirks_mode(&mut self, mode: QuirksMode) ensures final(self).log@ == old(self).log@.push(Ev::Quirks(mode)) { unimplemented!() }
}
/// data::doctype_error_and_quirks: "is this DOCTYPE a parse error" and the quirks mode it selects (13.2.6.4.1; the lists are
/// not compared with the standard here)
pub uninterp spec fn w_doctype_error_and_quirks(dt: tokenizer::Doctype, iframe_srcdoc: bool) -> (bool, QuirksMode);
pub mod data {
    use super::*;
    #[verifier::external_body]
    pub fn doctype_error_and_quirks(doctype: &tokenizer::Doctype, iframe_srcdoc: bool) -> (r: (bool, QuirksMode))
        ensures r == w_doctype_error_and_quirks(*doctype, iframe_srcdoc),
    { unimplemented!() }
}
pub open spec fn opt_text(x: Option<StrTendril>) -> Seq<char> { match x { Some(t) => t@, None => Seq::<char>::empty() } }
impl TreeBuilder {
    /// everything but the sink, the insertion mode, the quirks mode and the ignore-LF flag
    pub open spec fn same_but(&self, o: &TreeBuilder) -> bool {
        *self == (TreeBuilder { sink: self.sink, mode: self.mode, quirks_mode: self.quirks_mode, ignore_lf: self.ignore_lf, ..*o })
    }
    /// process_to_completion (ASSUMED frame): the insertion-mode rules see the token; what they do is logged as one event
    #[verifier::external_body]
    pub fn process_to_completion(&mut self, token: Token) -> (r: tokenizer::TokenSinkResult)
        // the "ignore a following LF" request concerns the next token only: it has been consumed when the rules run
        requires !old(self).ignore_lf.v,
        ensures final(self).sink.log@ == old(self).sink.log@.push(Ev::Rules(token)), final(self).opts == old(self).opts,
    { unimplemented!() }
}
/// the events of a DOCTYPE token: in the "initial" mode a parse error if the DOCTYPE is not one of the allowed ones, the
/// doctype node (unless drop_doctype), the quirks mode; elsewhere a parse error.  No mention of exact_errors.
pub open spec fn doctype_events(initial: bool, dt: tokenizer::Doctype, iframe_srcdoc: bool, drop_doctype: bool) -> Seq<Ev> {
    if initial {
        let eq = w_doctype_error_and_quirks(dt, iframe_srcdoc);
        (if eq.0 { seq![Ev::Error] } else { Seq::<Ev>::empty() })
        + (if drop_doctype { Seq::<Ev>::empty() } else { seq![Ev::Doctype(opt_text(dt.name), opt_text(dt.public_id), opt_text(dt.system_id))] })
        + seq![Ev::Quirks(eq.1)]
    } else { seq![Ev::Error] }
}
/// a character token: a leading LF is dropped if the previous token asked for it; an empty token is not passed on
pub open spec fn chars_after_lf(ignore_lf: bool, x: Seq<char>) -> Seq<char> {
    if ignore_lf && x.len() > 0 && x[0] == '\n' { x.drop_first() } else { x }
}
