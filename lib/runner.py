"""runner — run Verus on a generated unit file and classify the outcome."""
import hashlib
import importlib
import json
import os
import re
import shutil
import subprocess
import sys
import tempfile
import time

HERE = os.path.dirname(os.path.abspath(__file__))
VERIF = os.path.dirname(HERE)
sys.path.insert(0, HERE)
sys.path.insert(0, os.path.join(VERIF, 'units'))

from rsx import ExtractError  # noqa: E402
from unitgen import UnitBuild  # noqa: E402

SEMANTIC = [
    ('postcondition not satisfied', 'ensures'),
    ('unable to prove post-condition of closure', 'ensures'),
    ('unable to prove precondition of closure', 'requires@call'),
    ('precondition not satisfied', 'requires@call'),
    ('invariant not satisfied', 'invariant'),
    ('assertion failed', 'assert'),
    ('possible arithmetic underflow/overflow', 'overflow'),
    ('possible division by zero', 'div0'),
    ('decreases not satisfied', 'decreases'),
    ('could not prove termination', 'decreases'),
    ('cannot show', 'unreachable'),
    ('unreachable', 'unreachable'),
    ('panic', 'unreachable'),
    ('possible bit shift underflow/overflow', 'overflow'),
    ('recommendation not met', None),     # notes only
    ('index out of bounds', 'bounds'),
    ('loop invariant', 'invariant'),
    ('failed precondition', 'requires@call'),
    ('possible truncation', 'overflow'),
]

ASSUMPTION_PAT = re.compile(
    r'(#\[verifier::external_body\]|#\[verifier::external[a-z_]*\]|\bassume_specification\b|\badmit\s*\(|'
    r'\bassume\s*\(|#\[verifier::exec_allows_no_decreases_clause\]|#\[verifier::external_type_specification\]|'
    r'#\[verifier::accept_recursive_types|\buninterp\s+spec\s+fn\b|\baxiom\s+fn\b|#\[verifier::loop_isolation\(false\)\])')


def scratch_dir():
    base = os.environ.get('VERIF_SCRATCH') or ('/dev/shm' if os.path.isdir('/dev/shm') else '/var/tmp')
    return tempfile.mkdtemp(prefix='verif-scratch-', dir=base)


def scan_assumptions(text):
    """Return list of (kind, name) for every trusted construct in the generated file."""
    res = []
    lines = text.split('\n')
    for i, l in enumerate(lines):
        for m in ASSUMPTION_PAT.finditer(l):
            kind = m.group(1)
            name = ''
            # look ahead for the item name
            for j in range(i, min(i + 6, len(lines))):
                mm = re.search(r'\b(?:fn|struct|enum)\s+(\w+)', lines[j][m.end():] if j == i else lines[j])
                if mm:
                    name = mm.group(1)
                    break
                mm = re.search(r'assume_specification\s*(?:<[^>]*>)?\s*\[\s*([^\]]+)\]', lines[j])
                if mm:
                    name = mm.group(1).strip()
                    break
            res.append((re.sub(r'\s+', ' ', kind), name))
    return res


def own_spans(dg):
    """the spans that say WHERE a diagnostic was raised: the primary ones (all spans if none is marked primary).  For
    `postcondition not satisfied` the primary span is the ensures clause and the secondary one the end of the body - both lie in
    the same function; for `precondition not satisfied` the primary span is the call site."""
    spans = dg.get('spans', [])
    prim = [sp for sp in spans if sp.get('is_primary')]
    return prim or spans


def prelude_fn(ub, line):
    """the lemma / spec function of hand-written or generated specification text that encloses a generated line"""
    try:
        lines = ub.gen.lines
        for k in range(min(line, len(lines)) - 1, max(0, line - 80), -1):
            m = re.search(r'\b(?:proof\s+)?fn\s+(\w+)', lines[k] if isinstance(lines[k], str) else lines[k][0])
            if m:
                return '<prelude>::' + m.group(1)
    except Exception:
        pass
    return '<prelude>'


def run_verus(path, rlimit=None, threads=None, extra=()):
    cmd = ['verus', path, '--output-json', '--time', '--error-format=json',
           '--multiple-errors', os.environ.get('VERIF_MULTI_ERRORS', '4'), '--num-threads', str(threads or os.cpu_count() or 8)]
    if rlimit:
        cmd += ['--rlimit', str(rlimit)]
    cmd += list(extra)
    t0 = time.time()
    p = subprocess.run(cmd, cwd=os.path.dirname(path), capture_output=True, text=True)
    wall = time.time() - t0
    out = None
    try:
        # stdout is one JSON document (possibly preceded by notes)
        s = p.stdout
        k = s.find('{')
        out = json.loads(s[k:]) if k >= 0 else None
    except Exception:
        out = None
    diags = []
    other = []
    for line in p.stderr.split('\n'):
        line = line.strip()
        if line.startswith('{'):
            try:
                diags.append(json.loads(line))
                continue
            except Exception:
                pass
        if line:
            other.append(line)
    return dict(cmd=' '.join(cmd), rc=p.returncode, json=out, diags=diags, stderr_other=other, wall=wall)


def classify(msg):
    for key, kind in SEMANTIC:
        if key in msg:
            return kind
    return None


class UnitResult:
    def __init__(self, name):
        self.name = name
        self.status = 'undecided'
        self.reason = ''
        self.functions = []
        self.failures = []      # semantic failures in non-canary functions
        self.canary_ok = []
        self.canary_bad = []    # canaries that verified (vacuity!)
        self.verified = 0
        self.errors = 0
        self.obligations = []   # names
        self.smt_ms = 0
        self.wall = 0.0
        self.fn_times = {}
        self.assumptions = []
        self.rule_counts = {}
        self.cmd = ''
        self.gen_path = None
        self.gen_text = ''
        self.raw_messages = []
        self.drops = []
        self.retries = []
        self.lost_hints = []


def run_unit(modname, keep_dir=None, rlimit=None):
    """Build + verify one unit. Returns UnitResult."""
    mod = importlib.import_module(modname)
    res = UnitResult(mod.NAME)
    res.drops = list(getattr(mod, 'DROPS', []))
    t0 = time.time()
    try:
        ub = UnitBuild(mod)
        text = ub.build()
    except ExtractError as e:
        res.status = 'undecided'
        res.reason = 'extraction: %s' % e
        res.wall = time.time() - t0
        return res
    res.rule_counts = dict(ub.rule_counts)
    res.lost_hints = ['%s #%d' % h for h in getattr(ub, 'lost_hints', [])]
    res.gen_text = text
    res.functions = ub.functions
    res.assumptions = scan_assumptions(text)
    allow = getattr(mod, 'ASSUMPTIONS_MAX', None)
    d = scratch_dir()
    retry_info = []
    try:
        path = os.path.join(d, mod.NAME + '.rs')
        with open(path, 'w') as f:
            f.write(text)
        base_rl = rlimit or getattr(mod, 'RLIMIT', None)
        r = run_verus(path, rlimit=base_rl)
        # --- stability: a function that fails (or runs out of resources) in the whole-file run is re-run
        # on its own with a doubled resource limit; an obligation counts as discharged if either run proves it
        # (a proof found by the verifier is a proof).  Only failures that persist are reported.
        if os.environ.get('VERIF_NO_RETRY') != '1' and r['json'] is not None:
            bad_fns = set()
            for dg in r['diags']:
                if dg.get('level') != 'error' or dg.get('code'):
                    continue
                msg = dg.get('message', '')
                if msg.startswith('aborting'):
                    continue
                for sp in own_spans(dg):
                    while sp.get('expansion') and sp['expansion'].get('span'):
                        sp = sp['expansion']['span']
                    f, _o = ub.locate(sp['line_start'])
                    if f is not None and f['mode'] == 'verify':
                        bad_fns.add(f['qname'])
            if bad_fns and len(bad_fns) <= 6:
                import concurrent.futures
                def rerun(qn):
                    short = qn.split('::')[-1]
                    rr = run_verus(path, rlimit=(base_rl or 10) * 2, threads=2,
                                   extra=['--verify-root', '--verify-function', qn if '::' in qn else short])
                    return qn, rr
                with concurrent.futures.ThreadPoolExecutor(max_workers=6) as ex:
                    reruns = list(ex.map(rerun, sorted(bad_fns)))
                cleared = set()
                expanded = {}
                for qn, rr in reruns:
                    errs = [dg for dg in rr['diags'] if dg.get('level') == 'error' and not dg.get('message', '').startswith('aborting')]
                    ok = rr['json'] is not None and not errs and rr['json'].get('verification-results', {}).get('verified', 0) > 0
                    retry_info.append(dict(function=qn, cleared=ok))
                    if ok:
                        cleared.add(qn)
                    elif any('postcondition' in dg.get('message', '') or 'invariant' in dg.get('message', '') for dg in errs):
                        # a persistent failure of a (possibly large, case-by-case) clause: ask Verus which conjuncts fail, for the report
                        try:
                            short = qn.split('::')[-1]
                            p2 = subprocess.run(['verus', path, '--verify-root', '--verify-function', qn if '::' in qn else short, '--expand-errors',
                                                 '--rlimit', str((base_rl or 10) * 2), '--multiple-errors', '8'],
                                                cwd=os.path.dirname(path), capture_output=True, text=True, timeout=900)
                            leaves = [re.sub(r'^[\s|]+', '', l).rstrip() for l in (p2.stdout + p2.stderr).split('\n') if '\u2718' in l]
                            if leaves:
                                expanded[qn] = leaves[:12]
                        except Exception:
                            pass
                if cleared:
                    kept = []
                    for dg in r['diags']:
                        # a diagnostic belongs to the function being verified when it was raised (its primary span: the
                        # call site of a failed precondition, the end of the body for a failed postcondition); a secondary
                        # span (the callee's `requires` clause, the `ensures` clause) may lie in ANOTHER function, and that
                        # function verifying on its own says nothing about this failure
                        hit = False
                        for sp in own_spans(dg):
                            while sp.get('expansion') and sp['expansion'].get('span'):
                                sp = sp['expansion']['span']
                            f, _o = ub.locate(sp['line_start'])
                            if f is not None and f['qname'] in cleared:
                                hit = True
                        if not hit:
                            kept.append(dg)
                    r['diags'] = kept
                    try:
                        vr0 = r['json']['verification-results']
                        vr0['verified'] = vr0.get('verified', 0) + len(cleared)
                        vr0['errors'] = max(0, vr0.get('errors', 0) - len(cleared))
                        for mt in r['json']['times-ms']['smt'].get('smt-run-module-times', []):
                            for fb in mt.get('function-breakdown', []):
                                if any(fb['function'].endswith(c) for c in cleared):
                                    fb['success'] = True
                    except Exception:
                        pass
        if keep_dir:
            os.makedirs(keep_dir, exist_ok=True)
            shutil.copy(path, os.path.join(keep_dir, mod.NAME + '.rs'))
            res.gen_path = os.path.join(keep_dir, mod.NAME + '.rs')
    finally:
        shutil.rmtree(d, ignore_errors=True)
    res.cmd = r['cmd'].replace(d, '<scratch>')
    res.retries = retry_info
    res.expanded = locals().get('expanded', {}) or {}
    res.wall = time.time() - t0
    j = r['json']
    hard = []
    sem = []
    for dg in r['diags']:
        if dg.get('level') != 'error':
            continue
        msg = dg.get('message', '')
        if msg.startswith('aborting due to'):
            continue
        prim = None
        for sp in dg.get('spans', []):
            if sp.get('is_primary'):
                prim = sp
        line = prim['line_start'] if prim else 0
        # all spans, to locate the function (precondition failures point at the callee's clause)
        def outer(sp):
            # follow macro expansions to the outermost call site
            while sp.get('expansion') and sp['expansion'].get('span'):
                sp = sp['expansion']['span']
            return sp
        span_lines = [outer(sp)['line_start'] for sp in dg.get('spans', [])]
        site_texts = {outer(sp)['line_start']: (outer(sp)['text'][0]['text'].strip() if outer(sp).get('text') else '')
                      for sp in dg.get('spans', [])}
        kind = classify(msg)
        rec = dict(message=msg, kind=kind, line=line, span_lines=span_lines, site_texts=site_texts,
                   text=(prim['text'][0]['text'].strip() if prim and prim.get('text') else ''),
                   rendered=dg.get('rendered', ''))
        res.raw_messages.append(rec)
        in_canary = False
        for ln in span_lines:
            f0, _o = ub.locate(ln)
            if f0 is not None and f0['mode'] == 'canary':
                in_canary = True
        if kind is None and in_canary and ('rlimit' in msg.lower() or 'resource limit' in msg.lower()):
            rec['fn'] = 'canary-timeout'
            res.canary_timeouts = getattr(res, 'canary_timeouts', 0) + 1
            continue
        if kind is None or dg.get('code'):
            hard.append(rec)
        else:
            sem.append(rec)
    if j is None:
        res.status = 'undecided'
        res.reason = 'verus produced no JSON (rc=%s): %s' % (r['rc'], ' | '.join(r['stderr_other'][:5]) or
                                                              ' | '.join(m['message'] for m in hard[:3]))
        return res
    vr = j.get('verification-results', {})
    res.verified = vr.get('verified', 0)
    res.errors = vr.get('errors', 0)
    try:
        smt = j['times-ms']['smt']
        res.smt_ms = smt.get('smt-run', 0)
        for mt in smt.get('smt-run-module-times', []):
            for fb in mt.get('function-breakdown', []):
                res.fn_times[fb['function']] = dict(ms=fb.get('time', 0), rlimit=fb.get('rlimit', 0),
                                                    success=fb.get('success'))
    except Exception:
        pass
    if vr.get('encountered-vir-error') or hard:
        rl = [m for m in hard if 'rlimit' in m['message'].lower() or 'resource limit' in m['message'].lower()]
        res.status = 'undecided'
        res.reason = ('resource limit: ' if rl else 'not accepted by Verus: ') + ' | '.join(
            '%s (gen line %d)' % (m['message'][:200], m['line']) for m in (rl or hard)[:4])
        # still record semantic failures for diagnostics
    # attribute semantic failures to functions
    canary_failed = set()
    for rec in sem:
        fn = None
        # the failing function is the one containing a non-primary span or the primary one;
        # for precondition failures the primary span is in the callee => prefer the span
        # that lies inside a verify/canary function body and is not the primary clause.
        cands = []
        for ln in rec['span_lines']:
            f, origin = ub.locate(ln)
            if f is not None and f['mode'] in ('verify', 'canary'):
                cands.append((ln, f, origin))
        if rec['kind'] == 'requires@call' and len(cands) > 1:
            # pick the call site: Verus marks it as the primary span (the secondary span is the callee's `requires` clause,
            # which lies in another function of the unit when the callee is verified here too)
            c2 = [c for c in cands if c[0] == rec['line']]
            cands = c2 or cands
        if cands:
            ln, fn, origin = cands[-1] if rec['kind'] == 'requires@call' else cands[0]
            rec['fn'] = fn['qname']
            pf, porigin = ub.locate(rec['line'])
            rec['origin'] = porigin
            rec['site_origin'] = origin
        else:
            f, origin = ub.locate(rec['line'])
            rec['fn'] = f['qname'] if f else prelude_fn(ub, rec['line'])
            rec['origin'] = origin
            rec['site_origin'] = origin
        if rec['kind'] in ('ensures', 'invariant') and rec['fn'] in getattr(res, 'expanded', {}):
            rec['expanded'] = res.expanded[rec['fn']]
            rec['rendered'] = rec.get('rendered', '') + '\nfailing conjuncts (verus --expand-errors):\n' + '\n'.join('  ' + l for l in rec['expanded'])
        if rec['fn'].endswith('__canary'):
            canary_failed.add(rec['fn'])
        else:
            res.failures.append(rec)
    timed_out = set()
    for name, t in res.fn_times.items():
        if name.endswith('__canary') and t.get('success') is False:
            timed_out.add(name.split('::', 1)[-1])
    for c in ub.canaries:
        # a canary twin that fails (or that the solver gives up on) is not evidence of vacuity
        (res.canary_ok if (c in canary_failed or c in timed_out) else res.canary_bad).append(c)
    # obligations = verification units reported by Verus (functions, lemmas, loops counted inside)
    res.obligations = sorted(k for k in res.fn_times if not k.endswith('__canary'))
    if res.failures and (not res.reason or res.reason.startswith('resource limit')):
        # a definite semantic failure is a violation even if some other obligation ran out of resources
        res.status = 'violation'
        return res
    if res.status == 'undecided' and res.reason:
        return res
    if res.canary_bad:
        res.status = 'undecided'
        res.reason = 'vacuity: canary twins verified: ' + ', '.join(res.canary_bad)
        return res
    exp_err = len(res.canary_ok)
    if res.verified == 0:
        res.status = 'undecided'
        res.reason = 'zero obligations verified'
        return res
    if allow is not None and len(res.assumptions) > allow:
        res.status = 'undecided'
        res.reason = 'assumption scan: %d trusted constructs, allow-list has %d' % (len(res.assumptions), allow)
        return res
    res.status = 'pass'
    return res


def obligation_id(unit, rec):
    clause = re.sub(r'\s+', ' ', rec.get('text', ''))[:160]
    site = ''
    for ln, t in sorted(rec.get('site_texts', {}).items()):
        if ln != rec.get('line') and t:
            site = ' @ ' + re.sub(r'\s+', ' ', t)[:100]
    return '%s/%s/%s: %s%s' % (unit, rec.get('fn', '?'), rec.get('kind', '?'), clause, site)


def short_hash(s):
    return hashlib.sha1(s.encode()).hexdigest()[:10]
