"""unitgen — build one Verus input file for a unit from /repo's working tree.

A unit is described by a python module in /verif/units/ exposing:

  NAME        : str
  PROPERTIES  : list of property ids it serves
  PARTS       : ordered list of parts (see below)
  REWRITES    : list of Rewrite applied to every extracted item
  CONTRACTS   : name of the contracts file under /verif/contracts/
  DROPS       : human-readable list of what extraction drops (for evidence)

Parts:
  Raw(text)                     literal text (e.g. 'verus! {')
  Prelude(file)                 hand-written spec/shim file from /verif/contracts/
  Item(file, kind, name, ...)   real code extracted verbatim from /repo

Only the following is ever added to extracted code: contract clauses after a
signature or loop header, a name for the return value (`-> T` => `-> (r: T)`),
`proof { .. }` blocks, and the rewrites listed (with counts) in the evidence.
"""
import os
import re
from dataclasses import dataclass, field

from rsx import Source, ExtractError, mask, match_delim, apply_cfg, strip_macro_calls, find_loops

VERIF = os.path.dirname(os.path.dirname(os.path.abspath(__file__)))
REPO = os.environ.get('VERIF_REPO', '/repo')


@dataclass
class Rewrite:
    rule: str          # rule id from DESIGN.md §3.1 (R1..)
    pattern: str       # regex, applied to code text (string/comment aware not needed here)
    repl: str
    min_count: int = 0  # over the whole unit
    only: tuple = ()   # restrict to items whose qualified name is listed
    flags: int = 0
    balanced: bool = False   # pattern ends at an opening delimiter; replace through its matching closer
    skip: tuple = ()   # do not apply to items whose qualified name is listed


@dataclass
class Raw:
    text: str


@dataclass
class Prelude:
    file: str


@dataclass
class Generated:
    """text produced mechanically from /repo by a unit-supplied function `fn(unitbuild) -> str` (spec-only text)."""
    fn: object
    label: str = 'generated'


@dataclass
class Atoms:
    """rule R4: placeholder replaced, after all items are extracted, by generated `macro_rules!` that map every
    `local_name!("x")` / `ns!(x)` / `namespace_prefix!("x")` occurring in the extracted text to a distinct integer
    literal (two atoms are equal iff their strings are equal)."""
    local_ctor: str = 'LocalName'
    ns_ctor: str = 'Namespace'
    prefix_ctor: str = 'Prefix'


@dataclass
class Fragment:
    """A block of a big function verified as a function of its own: the `{ .. }` block that follows the first match of
    `anchor` (a regex on the code, e.g. the pattern of a match arm) inside function `fn` is copied verbatim and given the
    hand-written `header` (name, parameters = the variables the pattern binds, return type).  What this drops: the
    enclosing dispatch (that the block runs for exactly those tokens / in that mode is NOT verified)."""
    file: str
    fn: str
    impl: str
    anchor: str
    header: str          # e.g. 'fn step__in_head_meta(&mut self, tag: Tag) -> ProcessResult<Handle>'
    name: str            # name used for contracts: impl::name
    wrap: str = None
    rewrites: tuple = ()
    canary: bool = True
    attrs: str = None


@dataclass
class Item:
    file: str
    kind: str           # fn | macro | enum | struct | const | static
    name: str
    impl: str = None    # type whose impl block contains the fn
    trait_impl: str = None
    mode: str = 'verify'   # verify | assume | plain
    wrap: str = None    # impl header to wrap with, e.g. 'impl Tokenizer'
    nth: int = 0
    attrs: str = ''     # extra attributes (ghost-only, e.g. #[verifier::exec_allows_no_decreases_clause])
    rewrites: tuple = ()
    canary: bool = True
    unit_rewrites: bool = True
    split: int = 0          # verify a big `match` function as N parts (by state constructor), see split_parts()
    contract_q: str = None  # look contracts up under this name (used by the parts)
    extra_requires: str = ''
    emit_name: str = None
    qname: str = None
    optional: bool = False  # a helper that may disappear in a refactoring: if it is gone it is skipped together with its contracts

    def q(self):
        if self.qname:
            return self.qname
        return (self.impl + '::' if self.impl else '') + self.name


class Contracts:
    """Parser for /verif/contracts/*.contracts

        @fn Type::name
        @ret r
        requires ...
        ensures ...
        @end
        @loop Type::name 1|*        (ordinal within the function, source order)
        invariant ...
        decreases ...
        @end
        @proof Type::name entry
        @proof Type::name before|after /regex/ [nth]
        ...ghost statements (wrapped in proof { } by the splicer)...
        @end
    """

    def __init__(self, path=None):
        self.fn = {}
        self.ret = {}
        self.loops = {}
        self.proofs = {}
        self.closures = {}
        self.nested = {}
        self.autoreveal = {}
        self.scsfacts = set()
        self.strlits = set()
        self.path = path
        self.shared = set()     # keys that come from a shared file (no unused check)
        self.slices = {}
        if path is not None:
            self.load(path)

    def load(self, path, shared=False):
        if shared:
            tmp = Contracts(path)
            for k, v in tmp.fn.items():
                if k not in self.fn:
                    self.fn[k] = v
                    self.shared.add(k)
                    if k in tmp.ret:
                        self.ret[k] = tmp.ret[k]
            return
        self.path = self.path or path
        before = set(self.fn)
        cur = None
        buf = []
        for ln, line in enumerate(open(path).read().split('\n'), 1):
            s = line.strip()
            if s.startswith('@fn '):
                cur = ('fn', s[4:].strip(), ln)
                buf = []
            elif s.startswith('@ret ') and cur and cur[0] == 'fn':
                self.ret[cur[1]] = s[5:].strip()
            elif s.startswith('@loop '):
                m = re.match(r'@loop\s+(\S+)\s+(.*)$', s)
                cur = ('loop', m.group(1), m.group(2).strip(), ln)
                buf = []
            elif s.startswith('@closure '):
                # `@closure F N` (N-th closure of F) or `@closure F /regex/` (the closure whose text matches; none: skipped)
                m = re.match(r'@closure\s+(\S+)\s+(.*)$', s)
                cur = ('closure', m.group(1), m.group(2).strip(), ln, {})
                buf = []
            elif s.startswith('@nestedfn '):
                parts = s.split()
                cur = ('nested', parts[1], parts[2], ln, {})
                buf = []
            elif s.startswith('@ret ') and cur and cur[0] == 'nested':
                cur[4]['ret'] = s[5:].strip()
            elif s.startswith('@params ') and cur and cur[0] == 'closure':
                cur[4]['params'] = s[8:].strip()
            elif s.startswith('@ret ') and cur and cur[0] == 'closure':
                cur[4]['ret'] = s[5:].strip()
            elif s.startswith('@slices '):
                self.slices[s.split()[1]] = int(s.split()[2])
            elif s.startswith('@scsfacts '):
                self.scsfacts.add(s.split()[1])
            elif s.startswith('@strlits '):
                self.strlits.add(s.split()[1])
            elif s.startswith('@autoreveal '):
                parts = s.split()
                kv = dict(x.split('=', 1) for x in parts[2:])
                self.autoreveal[parts[1]] = kv
            elif s.startswith('@proof '):
                arm = None
                ma = re.search(r'\s+arm=/(.*)/\s*$', s)
                if ma:
                    arm = ma.group(1)
                    s = s[:ma.start()]
                m = re.match(r'@proof\s+(\S+)\s+(entry|before-stmt|before|after|loopstart)(?:\s+/(.*)/\s*(\d+)?)?\s*$', s)
                if not m:
                    raise ExtractError('%s:%d bad @proof' % (path, ln))
                cur = ('proof', m.group(1), m.group(2), m.group(3), int(m.group(4) or 0), ln, arm)
                buf = []
            elif s == '@end':
                text = '\n'.join(buf)
                if cur[0] == 'fn':
                    self.fn[cur[1]] = (text, cur[2])
                elif cur[0] == 'loop':
                    self.loops.setdefault(cur[1], {})[cur[2]] = (text, cur[3])
                elif cur[0] == 'closure':
                    self.closures.setdefault(cur[1], {})[cur[2]] = (text, cur[3], cur[4])
                elif cur[0] == 'nested':
                    self.nested.setdefault(cur[1], {})[cur[2]] = (text, cur[3], cur[4])
                else:
                    self.proofs.setdefault(cur[1], []).append((cur[2], cur[3], cur[4], text, cur[5], cur[6]))
                cur = None
            elif cur is not None:
                if s.startswith('//'):
                    buf.append('')
                else:
                    buf.append(line)
            elif s and not s.startswith('#') and not s.startswith('//'):
                raise ExtractError('%s:%d text outside a block' % (path, ln))
        if shared:
            self.shared |= set(self.fn) - before
        self.expand_slices()

    SLICE_RE = re.compile(r'@\{(\d+):(.*?)@\}', re.S)

    def expand_slices(self):
        """`@slices F K`: the postcondition of F is too large for one query, so it is proved in K+1 copies of F (the unit
        extracts the same source text K+1 times as F, F__s1 .. F__sK).  In the contract of F a leaf written `@{k: expr @}` is
        `expr` in copy F__sk and `true` in every other copy (F itself keeps the preconditions and proves the body's own
        obligations); loop contracts, proof hints and closure contracts of F apply to every copy."""
        for f, k in list(self.slices.items()):
            if f not in self.fn or (f + '__s1') in self.fn:
                continue
            text, ln = self.fn[f]

            def pick(j):
                def rep(m):
                    body = m.group(2)
                    keep = int(m.group(1)) == j
                    out = '(' + body + ')' if keep else 'true'
                    # keep the line count
                    return out + '\n' * (body.count('\n') - out.count('\n')) if not keep else out
                return self.SLICE_RE.sub(rep, text)
            used = set(int(m.group(1)) for m in self.SLICE_RE.finditer(text))
            if used - set(range(1, k + 1)):
                raise ExtractError('%s: slice numbers %s out of range 1..%d' % (f, sorted(used - set(range(1, k + 1))), k))
            for j in range(1, k + 1):
                g = '%s__s%d' % (f, j)
                self.fn[g] = (pick(j), ln)
                if f in self.ret:
                    self.ret[g] = self.ret[f]
                for table in (self.loops, self.closures, self.nested):
                    if f in table:
                        table[g] = dict(table[f])
                if f in self.proofs:
                    self.proofs[g] = list(self.proofs[f])
                for st in (self.scsfacts, self.strlits):
                    if f in st:
                        st.add(g)
                if f in self.autoreveal:
                    self.autoreveal[g] = self.autoreveal[f]
            self.fn[f] = (pick(0), ln)


def sig_return_arrow(sm, name):
    """position of the `->` of the function's own return type in the (masked) signature text, and the position where the
    return type ends (a `where` clause or the end of the signature); (-1, -1) if there is none.  Arrows inside generic
    bounds (`F: Fn(&u8) -> bool`) and where clauses are not the function's."""
    m = re.search(r'\bfn\s+%s\b' % re.escape(name), sm)
    i = m.end() if m else 0
    while i < len(sm) and sm[i].isspace():
        i += 1
    if i < len(sm) and sm[i] == '<':
        depth = 0
        while i < len(sm):
            if sm[i] == '<':
                depth += 1
            elif sm[i] == '>' and sm[i - 1] != '-':
                depth -= 1
                if depth == 0:
                    i += 1
                    break
            i += 1
    lp = sm.find('(', i)
    if lp < 0:
        return -1, -1
    rp = match_delim(sm, lp)
    rest = sm[rp + 1:]
    am = re.match(r'\s*->', rest)
    if not am:
        return -1, -1
    arrow = rp + 1 + am.end() - 2
    wm = re.search(r'\bwhere\b', sm[arrow:])
    tail = arrow + wm.start() if wm else len(sm)
    return arrow, tail


def wrap_proof(ptext):
    """`let ghost x = e;` lines become ghost declarations of the enclosing block (visible to later
    proof blocks); everything else is wrapped in proof { }.  Both are ghost code only."""
    ghosts = [l for l in ptext.split('\n') if re.match(r'\s*let ghost\b', l)]
    for g in ghosts:
        if not g.rstrip().endswith(';') or '{' in g:
            raise ExtractError('ghost declaration must be a single `let ghost x = e;` line')
    rest = '\n'.join(l for l in ptext.split('\n') if not re.match(r'\s*let ghost\b', l))
    return '\n' + ''.join(g + '\n' for g in ghosts) + 'proof {\n' + rest + '\n}\n'


def spec_callgraph(path):
    """opaque spec fns of a prelude file and their call graph; plus `Ctor => fn(` dispatch entries."""
    text = open(path).read()
    fns = {}
    opaque = set()
    for m in re.finditer(r'((?:#\[verifier::opaque\]\s*)?)pub open spec fn (\w+)\s*\(', text):
        name = m.group(2)
        i = text.index('{', m.end())
        # skip `decreases` etc: find body start = first '{' at depth 0 after the signature's ')'
        depth = 0
        j = i
        while True:
            if text[j] == '{':
                depth += 1
            elif text[j] == '}':
                depth -= 1
                if depth == 0:
                    break
            j += 1
        fns[name] = text[i:j + 1]
        if m.group(1):
            opaque.add(name)
    calls = {n: set(c for c in re.findall(r'\b(\w+)\s*\(', b) if c in fns and c != n) for n, b in fns.items()}
    return fns, opaque, calls


def reveal_closure(fns, opaque, calls, roots):
    seen = []
    todo = list(roots)
    visited = set()
    while todo:
        f = todo.pop()
        if f in visited or f not in fns:
            continue
        visited.add(f)
        if f in opaque:
            seen.append(f)
        todo.extend(calls.get(f, ()))
    return sorted(seen)


class Gen:
    """Accumulates generated text with a per-line origin map."""

    def __init__(self):
        self.lines = []     # text
        self.origin = []    # (kind, file, line, qname)

    def add(self, text, kind, file=None, line0=None, qname=None):
        for k, l in enumerate(text.split('\n')):
            self.lines.append(l)
            self.origin.append((kind, file, (line0 + k) if line0 is not None else None, qname))

    def text(self):
        return '\n'.join(self.lines) + '\n'


def splice(text, inserts):
    """inserts: list of (pos, text).  Returns list of segments [(text, is_inserted)]."""
    segs = []
    last = 0
    for pos, ins in sorted(inserts, key=lambda x: x[0]):
        segs.append((text[last:pos], False))
        segs.append((ins, True))
        last = pos
    segs.append((text[last:], False))
    return segs


LOG_MACROS = ('trace', 'debug', 'warn', 'info')


class UnitBuild:
    def __init__(self, unit, repo=None):
        self.unit = unit
        self.repo = repo or REPO
        self.contracts = Contracts()
        if getattr(unit, 'CONTRACTS', None):
            self.contracts.load(os.path.join(VERIF, 'contracts', unit.CONTRACTS))
        for sh in getattr(unit, 'SHARED_CONTRACTS', []):
            self.contracts.load(os.path.join(VERIF, 'contracts', sh), shared=True)
        self.gen = Gen()
        self.rule_counts = {}
        self.functions = []      # dicts: qname, file, line, mode, gen_start, gen_end
        self.canaries = []       # qname of canary twins
        self.sources = {}
        self.used_contracts = set()
        self.used_loops = set()
        self.used_proofs = set()
        self.used_closures = set()
        self.lost_hints = []

    def src(self, rel):
        if rel not in self.sources:
            p = os.path.join(self.repo, rel)
            if not os.path.exists(p):
                raise ExtractError('anchor file missing: ' + rel)
            self.sources[rel] = Source(p)
        return self.sources[rel]

    def count(self, rule, n):
        if n:
            self.rule_counts[rule] = self.rule_counts.get(rule, 0) + n

    # ------------------------------------------------------------------
    def apply_rewrites(self, text, item):
        nl = text.count('\n')
        rws = (list(self.unit.REWRITES) if item.unit_rewrites else []) + list(item.rewrites)
        for rw in rws:
            if rw.only and item.q() not in rw.only:
                continue
            if rw.skip and item.q() in rw.skip:
                continue
            if rw.balanced:
                n = 0
                pos = 0
                while True:
                    mk = mask(text)
                    m = re.compile(rw.pattern, rw.flags).search(mk, pos)
                    if not m:
                        break
                    close = match_delim(mk, m.end() - 1)
                    old = text[m.start():close + 1]
                    new = m.expand(rw.repl)
                    new = new + '\n' * (old.count('\n') - new.count('\n'))
                    text = text[:m.start()] + new + text[close + 1:]
                    pos = m.start() + len(new)
                    n += 1
                self.count(rw.rule, n)
                continue
            def _sub(m, rw=rw):
                new = m.expand(rw.repl)
                d = m.group(0).count('\n') - new.count('\n')
                if d < 0:
                    raise ExtractError('rewrite %s adds lines' % rw.rule)
                return new + '\n' * d
            text, n = re.subn(rw.pattern, _sub, text, flags=rw.flags)
            self.count(rw.rule, n)
        if text.count('\n') != nl:
            raise ExtractError('rewrite changed the line count in ' + item.q())
        return text

    def build(self):
        open_wrap = None
        for part in self.unit.PARTS:
            wrap = part.wrap if isinstance(part, (Item, Fragment)) else None
            if wrap != open_wrap:
                if open_wrap is not None:
                    self.gen.add('}', 'gen')
                if wrap is not None:
                    self.gen.add(wrap + ' {', 'gen')
                open_wrap = wrap
            if isinstance(part, Generated):
                self.gen.add(part.fn(self), 'generated', part.label, 1)
            elif isinstance(part, Fragment):
                self.emit_fragment(part)
            elif isinstance(part, Atoms):
                self.atoms_at = len(self.gen.lines)
                self.atoms_part = part
                self.gen.add('/*ATOMS*/', 'gen')
            elif isinstance(part, Raw):
                self.gen.add(part.text, 'gen')
            elif isinstance(part, Prelude):
                p = os.path.join(VERIF, 'contracts', part.file)
                self.gen.add(open(p).read().rstrip('\n'), 'prelude', part.file, 1)
            else:
                self.emit_item(part)
        if open_wrap is not None:
            self.gen.add('}', 'gen')
        self.autoconst()
        if getattr(self, 'atoms_at', None) is not None:
            alltext = '\n'.join(l for l, o in zip(self.gen.lines, self.gen.origin) if o[0] in ('repo', 'contract', 'prelude', 'generated'))
            en = re.findall(r'expanded_name!\(\s*(\w+)\s+"([^"]*)"\s*\)', alltext)
            mc = []
            for mm in re.finditer(r'declare_tag_set!\(', alltext):
                close = alltext.find(');', mm.end())
                mc += re.findall(r'"([^"]*)"', alltext[mm.end():close if close > 0 else None])
            # names inside `tag!(<a> | </b> ..)` patterns (rules.rs) reach local_name! as bare tokens
            tagtok = []
            for mm in re.finditer(r'\btag!\(', alltext):
                close = match_delim(alltext, mm.end() - 1)
                tagtok += re.findall(r'</?\s*([A-Za-z][\w-]*)\s*>', alltext[mm.end():close])
            locals_ = sorted(set(re.findall(r'local_name!\(\s*"([^"]*)"\s*\)', alltext)) | set(l for _, l in en) | set(mc) | set(tagtok))
            nss = sorted((set(re.findall(r'\bns!\(\s*(\w*)\s*\)', alltext)) | set(n for n, _ in en) | set(re.findall(r'expanded_name!\(\s*(\w+)\s+\$', alltext))) - set(['$ns']))
            qn3 = re.findall(r'qualname!\(\s*"([^"]*)"\s+(\w+)\s+"([^"]*)"\s*\)', alltext)
            qn2 = re.findall(r'qualname!\(\s*""\s*,\s*"([^"]*)"\s*\)', alltext)
            locals_ = sorted(set(locals_) | set(l for _, _, l in qn3) | set(qn2))
            nss = sorted(set(nss) | set(n for _, n, _ in qn3) | (set(['']) if qn2 else set()))
            prefixes = sorted(set(re.findall(r'namespace_prefix!\(\s*"([^"]*)"\s*\)', alltext)) | set(p for p, _, _ in qn3))
            ap = self.atoms_part
            self.atom_table = dict(local={n: i + 1 for i, n in enumerate(locals_)}, ns={n: i + 1 for i, n in enumerate(nss)},
                                   prefix={n: i + 1 for i, n in enumerate(prefixes)})
            m = ''
            if locals_:
                m += 'macro_rules! local_name {' + ' '.join('("%s") => { %s(%d) };' % (n, ap.local_ctor, i + 1) for i, n in enumerate(locals_))
                m += ' ' + ' '.join('(%s) => { %s(%d) };' % (n, ap.local_ctor, i + 1) for i, n in enumerate(locals_) if n in set(tagtok) and re.fullmatch(r'[A-Za-z_]\w*', n)) + ' }\n'
            if nss:
                m += 'macro_rules! ns {' + ' '.join('(%s) => { %s(%d) };' % (n, ap.ns_ctor, i + 1) for i, n in enumerate(nss)) + ' }\n'
            if prefixes:
                m += 'macro_rules! namespace_prefix {' + ' '.join('("%s") => { %s(%d) };' % (n, ap.prefix_ctor, i + 1) for i, n in enumerate(prefixes)) + ' }'
            self.gen.lines[self.atoms_at] = m.replace('\n', ' ')
            self.count('R4-atoms', len(locals_) + len(nss) + len(prefixes))
        # every contract block must have been used (a lost anchor is undecided, not a pass)
        gone = getattr(self, 'missing_optional', set())
        for k in self.contracts.fn:
            if k not in self.used_contracts and k not in self.contracts.shared and k not in gone:
                raise ExtractError('contract for %s has no extracted function' % k)
        verified = set(f['qname'] for f in self.functions if f['mode'] == 'verify')
        dev = bool(os.environ.get('VERIF_DEV_ASSUME'))
        for k, d in self.contracts.loops.items():
            if (dev and k not in verified) or k in gone:
                continue
            for o in d:
                if (k, o) not in self.used_loops:
                    raise ExtractError('loop contract %s #%s matched no loop' % (k, o))
        for k, d in self.contracts.closures.items():
            if (dev and k not in verified) or k in gone:
                continue
            for o in d:
                if (k, o) not in self.used_closures and not o.startswith('/'):
                    raise ExtractError('closure contract %s #%s matched no closure' % (k, o))
        for k, lst in self.contracts.proofs.items():
            if (dev and k not in verified) or k in gone:
                continue
            for idx in range(len(lst)):
                if (k, idx) not in self.used_proofs:
                    if os.environ.get('VERIF_STRICT_HINTS') == '1':
                        raise ExtractError('proof block %s #%d matched no anchor' % (k, idx))
                    # a proof HINT that can no longer be placed (the function was restructured) is dropped: hints carry no
                    # obligation; the contract clauses themselves are still checked (and recorded as lost in the evidence)
                    if (k, idx) not in self.lost_hints:
                        self.lost_hints.append((k, idx))
        # all min_counts reached
        for rw in self.unit.REWRITES:
            if rw.min_count and self.rule_counts.get(rw.rule, 0) < rw.min_count:
                raise ExtractError('rewrite %s expected >= %d sites, found %d (anchor lost)' % (
                    rw.rule, rw.min_count, self.rule_counts.get(rw.rule, 0)))
        return self.gen.text()

    # ------------------------------------------------------------------
    def autoconst(self):
        """rule R42: a file-level `const NAME: T = <literal expression>;` of a source file from which a function is extracted is pulled
        in automatically when the extracted text mentions NAME and the generated file does not define it (a refactoring that names
        a magic number must not make the unit undecided).  Only integer / bool / char / string-literal constants."""
        repo_text = '\n'.join(l for l, o in zip(self.gen.lines, self.gen.origin) if o[0] == 'repo')
        whole = '\n'.join(self.gen.lines)
        files = sorted(set(o[1] for o in self.gen.origin if o[0] == 'repo' and o[1]))
        added = []
        for f in files:
            try:
                src = self.src(f)
            except ExtractError:
                continue
            for m in re.finditer(r'(?m)^(?:pub(?:\([a-z]+\))?\s+)?const\s+([A-Z][A-Z0-9_]*)\s*:\s*(u8|u16|u32|u64|usize|i32|i64|isize|bool|char)\s*=\s*([^;{}]+);', src.masked):
                name = m.group(1)
                if not re.search(r'\b%s\b' % name, repo_text):
                    continue
                if re.search(r'\b(?:const|static)\s+%s\b' % name, whole) or name in added:
                    continue
                text = 'pub const %s: %s = %s;' % (name, m.group(2), src.text[m.start(3):m.end(3)].strip())
                added.append(name)
                # before the closing of the verus! block
                k = max(i for i, l in enumerate(self.gen.lines) if l.startswith('} // verus!'))
                self.gen.lines.insert(k, text)
                self.gen.origin.insert(k, ('repo', f, src.line_of(m.start()), None))
                for fn in self.functions:
                    if fn.get('gen_start', 0) > k:
                        fn['gen_start'] += 1
                        fn['gen_end'] += 1
        self.count('R42-autoconst', len(added))

    def emit_item(self, it):
        s = self.src(it.file)
        if it.kind == 'fn':
            try:
                start, lb, end = s.find_fn(it.name, it.impl, it.nth, it.trait_impl)
            except ExtractError:
                if not it.optional:
                    raise
                self.missing_optional = getattr(self, 'missing_optional', set()) | set([it.q()])
                return
        else:
            start, end = s.find_kw_item(it.kind, it.name)
            lb = None
        line0 = s.line_of(start)
        text = s.text[start:end]
        # R9: cfg resolution and log stripping
        text, kept, dropped = apply_cfg(text)
        self.count('R9-cfg', kept + dropped)
        if it.kind == 'fn':
            text, n = strip_macro_calls(text, LOG_MACROS)
            self.count('R9-log', n)
        text = self.apply_rewrites(text, it)
        q = it.q()
        if it.kind != 'fn' or it.mode == 'plain':
            g0 = len(self.gen.lines)
            if it.attrs:
                self.gen.add(it.attrs, 'gen')
            self.gen.add(text, 'repo', it.file, line0, q)
            self.functions.append(dict(qname=q, file=it.file, line=line0, mode='plain:' + it.kind,
                                       gen_start=g0 + 1, gen_end=len(self.gen.lines)))
            return
        if it.split and os.environ.get('VERIF_NOSPLIT') != '1':
            self.emit_split(it, text, line0)
            return
        self.emit_fn(it, text, line0)

    def emit_fragment(self, fr):
        s = self.src(fr.file)
        start, lb, end = s.find_fn(fr.fn, fr.impl)
        m = re.compile(fr.anchor).search(s.masked, lb, end)
        if not m:
            raise ExtractError('fragment anchor /%s/ not found in %s::%s' % (fr.anchor, fr.impl, fr.fn))
        b0 = s.masked.index('{', m.end() - 1) if s.masked[m.end() - 1] != '{' else m.end() - 1
        b1 = match_delim(s.masked, b0)
        line0 = s.line_of(b0)
        text = s.text[b0:b1 + 1]
        text, kept, dropped = apply_cfg(text)
        self.count('R9-cfg', kept + dropped)
        text, n = strip_macro_calls(text, LOG_MACROS)
        self.count('R9-log', n)
        it = Item(fr.file, 'fn', fr.name, impl=fr.impl, wrap=fr.wrap, rewrites=fr.rewrites, canary=fr.canary, attrs=fr.attrs)
        text = self.apply_rewrites(text, it)
        self.count('S-fragment', 1)
        self.emit_fn(it, fr.header + ' ' + text, line0)

    def emit_split(self, it, text, line0):
        """Case split for verification only: the function whose body is one big `match` over the
        tokenizer state is verified as N functions NAME__partI.  Part I keeps, verbatim and in order,
        exactly the arms whose pattern starts with one of its state constructors, requires that the
        state is one of those constructors, and ends with `_ => unreachable!()`.  Every constructor is
        in exactly one part (checked here), so the parts together cover the original match; the
        original function is emitted with its contract and no body (callers use the contract)."""
        import dataclasses
        m = mask(text)
        mm = re.search(r'match self\.state\.get\(\) \{', m)
        if not mm:
            raise ExtractError('split: no `match self.state.get()` in ' + it.q())
        lb = mm.end() - 1
        rb = match_delim(m, lb)
        inner0 = lb + 1
        # arms: split at depth-0 commas / closing braces followed by comma
        arms = []
        i = inner0
        start = inner0
        depth = 0
        while i < rb:
            ch = m[i]
            if ch in '([{':
                i = match_delim(m, i) + 1
                # an arm whose body is a block may end without a comma
                j = i
                while j < rb and m[j] in ' \t\n':
                    j += 1
                if m[i - 1] == '}' and j < rb and m[j] != ',' and re.match(r'\s*(//[^\n]*\n\s*)*(states::|_\s*=>)', text[i:rb]):
                    arms.append((start, i))
                    start = i
                continue
            if ch == ',':
                arms.append((start, i + 1))
                start = i + 1
            i += 1
        if text[start:rb].strip():
            tail = text[start:rb]
            if re.search(r'states::', mask(tail)):
                arms.append((start, rb))
                start = rb
        ctor_of = []
        for (a, b) in arms:
            cm = re.search(r'states::(\w+)', m[a:b])
            if not cm:
                raise ExtractError('split: arm without a states:: pattern in ' + it.q())
            ctor_of.append(cm.group(1))
        ctors = []
        for c in ctor_of:
            if c not in ctors:
                ctors.append(c)
        # balance by text size
        size = {c: sum(b - a for (a, b), cc in zip(arms, ctor_of) if cc == c) for c in ctors}
        parts = [[] for _ in range(it.split)]
        load = [0] * it.split
        for c in sorted(ctors, key=lambda c: -size[c]):
            k = load.index(min(load))
            parts[k].append(c)
            load[k] += size[c]
        assert sorted(sum(parts, [])) == sorted(ctors)
        self.split_info = dict(function=it.q(), constructors=ctors, parts=parts)
        for k, cs in enumerate(parts, 1):
            if not cs:
                continue
            kept = ''.join(text[a:b] if cc in cs else re.sub(r'[^\n]', ' ', text[a:b]) for (a, b), cc in zip(arms, ctor_of))
            ptext = text[:inner0] + kept + ' _ => unreachable!(), ' + re.sub(r'[^\n]', ' ', text[arms[-1][1]:rb]) + text[rb:]
            req = ' || '.join('old(self).abs().state is %s' % c for c in cs)
            pit = dataclasses.replace(it, split=0, contract_q=it.q(), extra_requires=req,
                                      attrs=(it.attrs + '\n' if it.attrs else '') + '#[verifier::spinoff_prover]',
                                      emit_name='%s__part%d' % (it.name, k), qname='%s__part%d' % (it.q(), k))
            self.emit_fn(pit, ptext, line0)
        ait = dataclasses.replace(it, split=0, mode='assume')
        self.emit_fn(ait, text, line0)

    def emit_fn(self, it, text, line0, canary=False):
        q = it.contract_q or it.q()
        m = mask(text)
        lb = None
        # body brace: first `{` at paren depth 0
        i = 0
        while i < len(m):
            if m[i] in '([':
                i = match_delim(m, i)
            elif m[i] == '{':
                lb = i
                break
            i += 1
        if lb is None:
            raise ExtractError('no body: ' + q)
        rb = match_delim(m, lb)
        sig = text[:lb]
        inserts = []
        contract = self.contracts.fn.get(q)
        ctext = ''
        if contract is not None:
            self.used_contracts.add(q)
            ctext = contract[0]
        if canary:
            if re.search(r'(?m)^\s*ensures\b', ctext):
                ctext = re.sub(r'(?m)^(\s*)ensures\b', r'\1ensures false,', ctext, count=1)
            else:
                ctext = ctext + '\n    ensures false,'
        # name the return value
        ret = self.contracts.ret.get(q)
        if ret is None and canary and sig_return_arrow(mask(sig), it.name)[0] >= 0:
            ret = 'r__'
        if ret:
            sm = mask(sig)
            arrow, tail = sig_return_arrow(sm, it.name)
            if arrow < 0:
                raise ExtractError('@ret on a function without return type: ' + q)
            ty = sig[arrow + 2:tail].strip()
            sig = sig[:arrow] + '-> (%s: %s)' % (ret, ty) + ('\n' + sig[tail:].rstrip() if sig[tail:].strip() else '') + '\n'
            self.count('S-retname', 1)
        if it.emit_name:
            sig = re.sub(r'\bfn\s+%s\b' % re.escape(it.name), 'fn %s' % it.emit_name, sig, count=1)
        if it.extra_requires:
            if re.search(r'(?m)^\s*requires\b', ctext):
                ctext = re.sub(r'(?m)^(\s*)requires\b', r'\1requires ' + it.extra_requires.replace('\\', '\\\\') + ',', ctext, count=1)
            else:
                ctext = '    requires ' + it.extra_requires + ',\n' + ctext
        if canary:
            sig = re.sub(r'\bfn\s+%s\b' % re.escape(it.emit_name or it.name), 'fn %s__canary' % (it.emit_name or it.name), sig, count=1)
        g0 = len(self.gen.lines)
        if it.attrs:
            self.gen.add(it.attrs, 'gen')
        dev_assume = os.environ.get('VERIF_DEV_ASSUME', '')
        if dev_assume.startswith('!'):
            dev_hit = it.q() not in dev_assume[1:].split(',')
        else:
            dev_hit = bool(dev_assume) and it.q() in dev_assume.split(',')
        if it.mode == 'assume' or dev_hit:
            self.gen.add('#[verifier::external_body]', 'gen')
            self.gen.add(sig.rstrip(), 'repo', it.file, line0, q)
            if ctext.strip():
                self.gen.add(ctext, 'contract', self.contracts.path, contract[1] + 1, q)
            self.gen.add('{ unimplemented!() }', 'gen')
            self.functions.append(dict(qname=it.q(), file=it.file, line=line0, mode='assume',
                                       gen_start=g0 + 1, gen_end=len(self.gen.lines)))
            return
        body = text[lb:rb + 1]
        bm = m[lb:rb + 1]
        # loop contracts
        loop_bodies = []
        loops = find_loops(bm)
        ldict = self.contracts.loops.get(q, {})
        for k, (kw, kpos, lpos) in enumerate(loops, 1):
            pre = bm[max(0, kpos - 160):kpos]
            texts = []
            for sel, lt in ldict.items():
                if sel == str(k) or sel == '*' or (sel.startswith('/') and sel.endswith('/') and re.search(sel[1:-1], pre)):
                    self.used_loops.add((q, sel))
                    texts.append(lt)
            if not texts:
                continue
            # the match-arm pattern guarding this loop, if any: `PAT => loop {`
            arm = None
            am = re.search(r'([\w:]+(?:\([^()]*(?:\([^()]*\))?[^()]*\))?)\s*=>\s*$', pre)
            if am:
                arm = body[max(0, kpos - 160):kpos][am.start(1):am.end(1)]
            merged = {}
            order = []
            for lt in texts:
                # merge clause groups of several blocks: invariant / invariant_except_break / ensures / decreases
                cur_kw = None
                for line in lt[0].split('\n'):
                    mm = re.match(r'\s*(invariant_except_break|invariant|ensures|decreases)\b(.*)$', line)
                    if mm:
                        cur_kw = mm.group(1)
                        if cur_kw not in merged:
                            merged[cur_kw] = []
                            order.append(cur_kw)
                        rest = mm.group(2).strip()
                        if rest:
                            merged[cur_kw].append(rest)
                    elif line.strip() and cur_kw:
                        merged[cur_kw].append(line.strip())
            t = ''
            for kw2 in ['invariant_except_break', 'invariant', 'ensures', 'decreases']:
                if kw2 in merged:
                    t += '    ' + kw2 + '\n' + ''.join('        ' + c + '\n' for c in merged[kw2])
            if '$ARM' in t:
                if arm is None:
                    raise ExtractError('loop contract uses $ARM but loop #%d of %s is not a match arm' % (k, q))
                t = t.replace('$ARM', arm)
            inserts.append((lpos, ('\n' + t, 'contract', texts[0][1] + 1)))
            loop_bodies.append((k, lpos, match_delim(bm, lpos)))
        if q in self.contracts.scsfacts:
            def char_ord(lit):
                lit = lit.strip()
                inner = lit[1:-1]
                esc = {'\\r': 13, '\\n': 10, '\\t': 9, '\\0': 0, "\\'": 39, '\\"': 34, '\\\\': 92}
                if inner in esc:
                    return esc[inner]
                mm = re.match(r'\\x([0-9a-fA-F]{2})$', inner)
                if mm:
                    return int(mm.group(1), 16)
                if len(inner) == 1:
                    return ord(inner)
                raise ExtractError('scsfacts: cannot evaluate char literal ' + lit)
            for k, (kw, kpos, lpos) in enumerate(loops, 1):
                rbp = match_delim(bm, lpos)
                seen = []
                txt = ''
                for mm in re.finditer(r'small_char_set!\(', bm[lpos:rbp]):
                    a0 = lpos + mm.end() - 1
                    a1 = match_delim(bm, a0)
                    args = body[a0 + 1:a1]
                    lits = re.findall(r"'(?:\\.[0-9a-fA-F]{0,2}|[^'\\])'", args)
                    if not lits or args in seen:
                        continue
                    seen.append(args)
                    ords = [char_ord(l) for l in lits]
                    if len(ords) not in (3, 4, 5, 7, 8) or max(ords) >= 64:
                        raise ExtractError('scsfacts: unsupported small_char_set!(%s)' % args)
                    o = ', '.join(str(x) for x in ords)
                    txt += 'assert(small_char_set!(%s).bits == scs%d(%s)); lemma_scs%d(%s);\n' % (args.strip(), len(ords), o, len(ords), o)
                if txt:
                    inserts.append((lpos + 1, ('\nproof {\n' + txt + '}\n', 'contract', None)))
                    self.count('S-scsfacts', 1)
        if q in self.contracts.strlits:
            def lit_chars(lit):
                out = []
                i = 0
                while i < len(lit):
                    if lit[i] == '\\':
                        nx = lit[i + 1]
                        if nx == 'u':
                            j = lit.index('}', i)
                            out.append("'\\u{%s}'" % lit[i + 3:j])
                            i = j + 1
                            continue
                        out.append("'\\%s'" % nx)
                        i += 2
                    else:
                        out.append("'%s'" % (lit[i] if lit[i] != "'" else "\\'"))
                        i += 1
                return out
            for k, (kw, kpos, lpos) in enumerate(loops, 1):
                rbp = match_delim(bm, lpos)
                seen = []
                txt = ''
                for mm in re.finditer(r'(?:append_comment\s+|eq_str\(|push_slice\(|eat(?:_exact)?!\(self, input, )"', bm[lpos:rbp]):
                    a0 = lpos + mm.end()
                    a1 = bm.index('"', a0)
                    lit = body[a0:a1]
                    if lit in seen:
                        continue
                    seen.append(lit)
                    cs = lit_chars(lit)
                    txt += 'reveal_strlit("%s"); assert("%s"@ =~= seq![%s]);\n' % (lit, lit, ', '.join(cs))
                    txt += 'assert forall|c__: Seq<char>| #[trigger] (c__ + "%s"@) =~= c__%s by {}\n' % (lit, ''.join('.push(%s)' % c for c in cs))
                if txt:
                    inserts.append((lpos + 1, ('\nproof {\n' + txt + '}\n', 'contract', None)))
                    self.count('S-strlits', 1)
        ar = self.contracts.autoreveal.get(q)
        if ar:
            fns, opaque, calls = spec_callgraph(os.path.join(VERIF, 'contracts', ar['spec']))
            table = {}
            for d in ar['dispatch'].split(','):
                for mm in re.finditer(r'State::(\w+)[^=\n]*=>\s*(\w+)\(', fns.get(d, '')):
                    table.setdefault(mm.group(1), mm.group(2))
            always = [x for x in ar.get('always', '').split(',') if x]
            for k, (kw, kpos, lpos) in enumerate(loops, 1):
                pre = bm[max(0, kpos - 160):kpos]
                am = re.search(r'states::(\w+)[^=]*=>\s*$', pre)
                if not am:
                    continue
                if am.group(1) in ar.get('skip', '').split(','):
                    continue
                top = table.get(am.group(1))
                if top is None:
                    raise ExtractError('autoreveal: no spec dispatch entry for state %s' % am.group(1))
                stop = set(x for x in ar.get('stop', '').split(',') if x)
                names = always + [n for n in reveal_closure(fns, opaque, calls, [top]) if n not in always and n not in stop]
                txt = '\nproof {\n' + ' '.join('reveal(%s);' % n for n in names) + '\n}\n'
                inserts.append((lpos + 1, (txt, 'contract', None)))
                self.count('S-autoreveal', 1)
        # closure contracts: `|p| EXPR` => `|params| -> (ret) <contract> { EXPR }`
        cdict = self.contracts.closures.get(q, {})
        if cdict:
            cl = [mm for mm in re.finditer(r'(?<=[(,=])\s*\|([^|]*)\|(?!\|)', bm)]
            for k, mm in enumerate(cl, 1):
                # extent of the closure body: up to the unmatched `)` or `,` at depth 0
                j = mm.end()
                while j < len(bm):
                    ch = bm[j]
                    if ch in '([{':
                        j = match_delim(bm, j) + 1
                        continue
                    if ch in ')],;}':
                        break
                    j += 1
                ct = cdict.get(str(k))
                key = str(k)
                if ct is None:
                    for rk, rv in cdict.items():
                        if rk.startswith('/') and rk.endswith('/') and (q, rk) not in self.used_closures and re.search(rk[1:-1], bm[mm.start():j]):
                            ct, key = rv, rk
                            break
                if ct is None:
                    continue
                self.used_closures.add((q, key))
                params = ct[2].get('params', mm.group(1))
                ret = ct[2].get('ret')
                hdr = '|%s|' % params + (' -> (%s)' % ret if ret else '')
                # replace the header by spaces + insert new header / braces as contract text
                inserts.append((mm.end(), ('\n' + hdr + '\n' + ct[0] + '\n{', 'contract', ct[1] + 1)))
                inserts.append((j, ('}', 'contract', ct[1] + 1)))
                body = body[:mm.start()] + ' ' * (mm.end() - mm.start()) + body[mm.end():]
                self.count('S-closure-contract', 1)
        # contracts of fn items nested in the body: `fn NAME(..) -> T {` => `fn NAME(..) -> (ret: T) <contract> {`
        for nname, (ntext, nln, nopts) in self.contracts.nested.get(q, {}).items():
            nm = re.search(r'\bfn\s+%s\s*\(' % re.escape(nname), bm)
            if not nm:
                raise ExtractError('nested fn %s not found in %s' % (nname, q))
            pclose = match_delim(bm, nm.end() - 1)
            nlb = bm.index('{', pclose)
            sigtail = body[pclose + 1:nlb]
            if nopts.get('ret'):
                am = re.match(r'\s*->\s*(.*?)\s*$', sigtail, re.S)
                if not am:
                    raise ExtractError('@ret on nested fn %s without return type' % nname)
                body = body[:pclose + 1] + ' ' * (nlb - pclose - 1) + body[nlb:]
                inserts.append((nlb, (' -> (%s: %s)\n%s\n' % (nopts['ret'], am.group(1), ntext), 'contract', nln + 1)))
            else:
                inserts.append((nlb, ('\n' + ntext + '\n', 'contract', nln + 1)))
            self.used_nested = getattr(self, 'used_nested', set()) | {(q, nname)}
            self.count('S-nested-contract', 1)
        # proof blocks.  If one hint of this function can no longer be placed (restructured function), ALL hints of the
        # function are dropped (they refer to each other's ghost variables); the contract clauses are still checked.
        plist = self.contracts.proofs.get(q, [])
        dropped = set()
        if plist and os.environ.get('VERIF_STRICT_HINTS') != '1' and not it.contract_q:
            def _placeable(where, rx, nth, parm):
                if where in ('entry',):
                    return True
                if where == 'loopstart':
                    return any(rx is None or re.search(rx, bm[lpos:match_delim(bm, lpos)]) for (kw, kpos, lpos) in loops)
                hits = list(re.finditer(rx, bm))
                if parm:
                    spans = [(lpos, match_delim(bm, lpos)) for (kw, kpos, lpos) in loops
                             if re.search(parm + r'[^=]*=>\s*$', bm[max(0, kpos - 160):kpos])]
                    hits = [h for h in hits if any(a <= h.start() <= b for a, b in spans)]
                return len(hits) > nth
            if not all(_placeable(w, rx, nth, parm) for (w, rx, nth, _t, _l, parm) in plist):
                drop_all = os.environ.get('VERIF_DROP_ALL_HINTS') == '1'
                # only the hints whose anchor is gone are dropped (all of the function's with VERIF_DROP_ALL_HINTS=1); if a
                # kept hint refers to a ghost name declared in a dropped one the generated file does not compile and the unit
                # is undecided
                for idx, h in enumerate(plist):
                    if drop_all or not _placeable(h[0], h[1], h[2], h[5]):
                        self.lost_hints.append((q, idx))
                        self.used_proofs.add((q, idx))
                        dropped.add(idx)
        for idx, (where, rx, nth, ptext, pln, parm) in enumerate(plist):
            if idx in dropped:
                continue
            if ptext.count('{') != ptext.count('}'):
                raise ExtractError('unbalanced proof block for ' + q)
            if where == 'loopstart':
                hit = False
                for (kw, kpos, lpos) in loops:
                    rbp = match_delim(bm, lpos)
                    if rx is None or re.search(rx, bm[lpos:rbp]):
                        inserts.append((lpos + 1, (wrap_proof(ptext), 'contract', pln + 1)))
                        hit = True
                if hit:
                    self.used_proofs.add((q, idx))
                continue
            if where == 'entry':
                pos = 1
            else:
                hits = list(re.finditer(rx, bm))
                if parm:
                    # restrict to the loop(s) guarded by a match arm whose pattern matches `parm`
                    spans = []
                    for (kw, kpos, lpos) in loops:
                        if re.search(parm + r'[^=]*=>\s*$', bm[max(0, kpos - 160):kpos]):
                            spans.append((lpos, match_delim(bm, lpos)))
                    hits = [h for h in hits if any(a <= h.start() <= b for a, b in spans)]
                if len(hits) <= nth:
                    if it.contract_q:
                        continue    # a part of a split function: the anchor lives in another part (checked at the end)
                    if os.environ.get('VERIF_STRICT_HINTS') == '1':
                        raise ExtractError('proof anchor /%s/ #%d not found in %s' % (rx, nth, q))
                    self.lost_hints.append((q, idx))
                    self.used_proofs.add((q, idx))
                    continue
                pos = hits[nth].start() if where in ('before', 'before-stmt') else hits[nth].end()
                if where == 'before-stmt':
                    # move back to the start of the enclosing statement (after the previous `;`, `{` or `}`)
                    j = pos
                    while j > 0 and bm[j - 1] not in ';{}':
                        j -= 1
                    pos = j
            self.used_proofs.add((q, idx))
            inserts.append((pos, (wrap_proof(ptext), 'contract', pln + 1)))
        self.gen.add(sig.rstrip(), 'repo', it.file, line0, q)
        if ctext.strip():
            self.gen.add(ctext, 'contract', self.contracts.path, (contract[1] + 1) if contract else None, q)
        # emit body with inserts, tracking repo line numbers
        body_line0 = line0 + text[:lb].count('\n')
        last = 0
        cur_line = body_line0
        pending = ''
        for pos, (ins, kind, cln) in sorted(inserts, key=lambda x: x[0]):
            seg = body[last:pos]
            pending += seg
            # flush pending up to here
            self.gen.add(pending, 'repo', it.file, cur_line, q)
            cur_line += pending.count('\n')
            pending = ''
            self.gen.add(ins.strip('\n'), kind, self.contracts.path, cln, q)
            last = pos
        pending += body[last:]
        self.gen.add(pending, 'repo', it.file, cur_line, q)
        name = it.q() + ('__canary' if canary else '')
        self.functions.append(dict(qname=name, file=it.file, line=line0,
                                   mode='canary' if canary else 'verify',
                                   gen_start=g0 + 1, gen_end=len(self.gen.lines),
                                   loops=len(loops), has_contract=contract is not None))
        if canary:
            self.canaries.append(name)
        elif it.canary and (os.environ.get('VERIF_CANARIES', '1') == '1'
                            or (os.environ.get('VERIF_CANARIES') == 'noparts' and not it.contract_q
                                and getattr(self.unit, 'QUICK_CANARIES', True))):
            self.emit_fn(it, text, line0, canary=True)

    # ------------------------------------------------------------------
    def locate(self, gen_line):
        """Map a generated-file line to (function record, origin)."""
        origin = self.gen.origin[gen_line - 1] if 0 < gen_line <= len(self.gen.origin) else ('?', None, None, None)
        fn = None
        for f in self.functions:
            if f['gen_start'] <= gen_line <= f['gen_end']:
                fn = f
        return fn, origin
