"""replayer — search for a concrete failing input against the real crates for a
failed obligation (Verus yields no model).  Filled in per unit; returns None when
no executable self-consistency form exists for the obligation."""


def search(prop, unit, rec):
    return None


def rerun(conc):
    print('no concrete replay implemented for this obligation')
    return 1
