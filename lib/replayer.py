"""replayer — search for a concrete failing input against the real crates for a failed obligation.

Verus yields no model.  For the tokenizer units the search runs the *real* tokenizer (built from
/repo's working tree) over a corpus of short inputs that put a probe string into every tokenizer
state, and looks for a self-inconsistency that witnesses a broken clause:
  * chunked feed != whole feed                  (C03)
  * exact_errors on != exact_errors off         (C08: slow path vs fast path)
  * EOF line != 1 + number of line breaks       (C09)
A violation of the WHATWG transition function itself has no such executable form; then the replay
file only names the obligation (VIOLATION line ends with no-failing-input-found).
"""
import os
import re
import subprocess
import tempfile

VERIF = os.path.dirname(os.path.dirname(os.path.abspath(__file__)))
TARGET = os.environ.get('VERIF_REPLAY_TARGET', '/var/tmp/verif-replay-target')

PROBES = ['', '\\n', '\\r', '\\r\\n', '\\r\\r', '\\n\\n', '\\0', '&', '<', '>', '-', '"', "'", '=', '/', ' ', '\\t',
          'A', '\\u{feff}', '\\u{e9}', '\\n\\r\\n', ']', '!', '\\r\\n\\n', '\\r\\n\\r\\n', '\\r\\r\\n']

HTML_CONTEXTS = [
    'x{P}y', '{P}x', 'x{P}',
    '<a{P}b>', '<a {P}b=c>', '<a b{P}c=d>', '<a b {P}=c>', '<a b={P}c>', '<a b={P}"c">', "<a b={P}'c'>",
    '<a b="c{P}d">', "<a b='c{P}d'>", '<a b=c{P}d>', '<a b="c"{P}d>', '<a /{P}>', '<a b="c" b="d"{P}>x',
    '</a{P}>x', '<{P}a>', '</{P}a>',
    '<!--{P}-->x', '<!--a{P}b-->x', '<!-{P}x', '<!---{P}x-->', '<!--a-{P}b-->', '<!--a--{P}b-->', '<!--a--!{P}b-->',
    '<!--a<{P}b-->', '<!--a<!{P}b-->', '<!--a<!-{P}b-->', '<!--a<!--{P}b-->', '<?{P}x>y', '</ {P}x>y',
    '<!DOCTYPE{P}html>x', '<!DOCTYPE {P}html>x', '<!DOCTYPE h{P}tml>x', '<!DOCTYPE html{P}PUBLIC "x">y',
    '<!DOCTYPE html {P}>y', '<!DOCTYPE html {P}PUBLIC "x">y', '<!DOCTYPE html PU{P}BLIC "x">y',
    '<!DOCTYPE html PUBLIC{P}"x">y', '<!DOCTYPE html PUBLIC {P}"x">y', '<!DOCTYPE html PUBLIC "x{P}y">z',
    "<!DOCTYPE html PUBLIC 'x{P}y'>z", '<!DOCTYPE html PUBLIC "x"{P}"y">z', '<!DOCTYPE html PUBLIC "x" {P}"y">z',
    '<!DOCTYPE html SYSTEM "y"{P}>z', '<!DOCTYPE html SYS{P}TEM "y">z', '<!DOCTYPE html x{P}y>z',
    '<!{P}--x-->y', '<!-{P}-x-->y', '<!do{P}ctype html>y', '<!doctype{P} html>y', '<![CDA{P}TA[x]]>y', '<!{P}x>y',
    '&{P}x', '&am{P}p;x', '&amp{P}x', '&amp;{P}x', '&#{P}65;x', '&#x{P}41;x', '&#6{P}5;x', '&#65{P}x', '&no{P}tit;x',
    '<a b="&am{P}p;c">', '<a b=&am{P}p;c>', '<a b="&amp{P}=c">',
    'raw=rcdata;last=title;x{P}y</title>z', 'raw=rcdata;last=title;x</ti{P}tle>z', 'raw=rcdata;last=title;x</title{P}>z',
    'raw=rcdata;last=title;x<{P}/title>z', 'raw=rcdata;last=title;x&am{P}p;</title>z',
    'raw=rawtext;last=style;x{P}y</style>z', 'raw=rawtext;last=style;x</sty{P}le >z',
    'raw=script;last=script;x{P}y</script>z', 'raw=script;last=script;<!--{P}x--></script>z',
    'raw=script;last=script;<!--<script>{P}</script>x--></script>z', 'raw=script;last=script;<!--<scr{P}ipt>y</script>x--></script>z',
    'raw=script;last=script;<!--x-{P}y--></script>z', 'raw=script;last=script;<!--x--{P}y></script>z',
    'raw=script;last=script;<!--<script>x-{P}y</script>--></script>z', 'raw=script;last=script;<!--<script>x--{P}y</script>--></script>z',
    'raw=script;last=script;<!--<script>x<{P}/script>--></script>z', 'raw=script;last=script;<!{P}--x--></script>z',
    'raw=plaintext;x{P}y<z>',
]


def corpus(contexts):
    out = []
    for c in contexts:
        for p in PROBES:
            out.append(c.replace('{P}', p))
    return out


def build_tool(bin_name):
    """Build a replay tool against the tree under check.  The crate in /verif/replay path-depends on /repo; when the
    check is pointed at another tree (VERIF_REPO, used only for seeded-change runs on scratch worktrees) a scratch copy
    of the crate with the paths substituted is built instead."""
    repo = os.environ.get('VERIF_REPO', '/repo')
    src = os.path.join(VERIF, 'replay')
    target = TARGET
    if os.path.abspath(repo) != '/repo':
        import hashlib
        import shutil
        tag = hashlib.sha1(os.path.abspath(repo).encode()).hexdigest()[:8]
        target = TARGET + '-' + tag
        dst = target + '-src'
        shutil.rmtree(dst, ignore_errors=True)
        shutil.copytree(src, dst, ignore=shutil.ignore_patterns('target'))
        for fn in ('Cargo.toml',):
            t = open(os.path.join(dst, fn)).read().replace('"/repo/', '"%s/' % os.path.abspath(repo))
            open(os.path.join(dst, fn), 'w').write(t)
        src = dst
    env = dict(os.environ, CARGO_TARGET_DIR=target, CARGO_NET_OFFLINE='true')
    p = subprocess.run(['cargo', 'build', '--offline', '--quiet', '--bin', bin_name], cwd=src,
                       env=env, capture_output=True, text=True)
    if p.returncode != 0:
        return None, p.stderr[-2000:]
    return os.path.join(target, 'debug', bin_name), ''


def run_selfcheck(tool, inputs):
    with tempfile.NamedTemporaryFile('w', suffix='.txt', delete=False) as f:
        f.write('\n'.join(inputs) + '\n')
        path = f.name
    try:
        p = subprocess.run([tool, '--selfcheck', path], capture_output=True, text=True, timeout=600)
    finally:
        os.unlink(path)
    return p.stdout


XRT_INPUTS = [
    '<a xmlns:p="u" p:b="c"/>', '<r><p:a xmlns:p="u"/><p:b xmlns:p="u"/></r>', '<a xmlns="u"><b xmlns=""/></a>', '<a xmlns="u"><b xmlns=""><c/></b></a>',
    '<a>x&#13;y</a>', '<a b="x&#13;y"/>', '<a b="x&#10;y&#9;z"/>', '<a xmlns="u" b="c"><c d="e"/></a>', '<a xml:lang="en"/>', '<p:a xmlns:p="u"><p:b xmlns:p="v"/></p:a>',
    '<a>&lt;&amp;&gt;&quot;&apos;</a>', '<a b="&lt;&amp;&gt;&quot;&apos;"/>', "<a b='\"'/>", '<a><!-- x --><?pi d?></a>', '<a xmlns:p="u" xmlns:q="v" p:b="1" q:b="2"/>',
    '<p:a xmlns:p="u" p:b="c"><p:c/><q:d xmlns:q="u"/></p:a>', '<a xmlns="u"><b xmlns="v"><c xmlns="u"/></b><d/></a>', '<a><b xmlns="u"/><c/></a>',
    '<a xmlns:p="u"><b p:c="d"/><e p:f="g"/></a>', '<a>\\u{e9}\\u{4e2d}\\u{1f600}</a>', '<!DOCTYPE a><a/>', '<a>x]]&gt;y</a>',
]


def search_xrt():
    tool, err = build_tool('xrt')
    if tool is None:
        return None
    out = run_selfcheck(tool, XRT_INPUTS)
    m = re.search(r'INCONSISTENT kind=(\S+) input=("(?:[^"\\]|\\.)*")\n((?:  .*\n?)+)', out)
    if not m:
        return None
    return dict(tool='replay/src/bin/xrt.rs --selfcheck', kind=m.group(1), input=m.group(2), split_at=None,
                observed=m.group(3).strip().split('\n'), raw=out.strip()[:4000])


def search(prop, unit, rec):
    if unit == 'u_xser':
        return search_xrt()
    if unit not in ('u_htok', 'u_xtok'):
        return None
    bin_name = 'htok' if unit == 'u_htok' else 'xtok'
    tool, err = build_tool(bin_name)
    if tool is None:
        return None
    inputs = corpus(HTML_CONTEXTS if unit == 'u_htok' else XML_CONTEXTS)
    out = run_selfcheck(tool, inputs)
    m = re.search(r'INCONSISTENT kind=(\S+) input=("(?:[^"\\]|\\.)*")( split_at=(\d+))?.*?\n((?:  .*\n?)+)', out)
    if not m:
        return None
    return dict(tool='replay/src/bin/%s.rs --selfcheck' % bin_name, kind=m.group(1), input=m.group(2),
                split_at=int(m.group(4)) if m.group(4) else None, observed=m.group(5).strip().split('\n'),
                raw=out.strip()[:4000])


def fallback(prop, unit):
    """Bounded stand-in, used ONLY when the verifier could not decide the unit (construct outside the accepted
    subset, lost anchor, resource limit): run the real code over a stated finite space and report a concrete
    failing input if there is one.  Returns (concrete-or-None, description-of-bound)."""
    if unit in ('u_bq', 'u_small'):
        tool, err = build_tool('bqcheck')
        if tool is None:
            return None, 'bqcheck did not build: ' + err[-300:]
        p = subprocess.run([tool], capture_output=True, text=True, timeout=900)
        bound = '<=3 buffers, <=4 chars over {a,B,-,e-acute,U+2026}, 6 patterns, ops next/peek/pop_except_from/eat'
        m = re.search(r'MISMATCH (.*)', p.stdout)
        if m:
            return dict(tool='replay/src/bin/bqcheck.rs', kind='bounded-model-mismatch', input=m.group(1), raw=p.stdout[-2000:]), bound
        return None, bound + ' :: ' + p.stdout.strip()[-200:]
    if unit == 'u_xser':
        return search_xrt(), 'XML round trip (parse, serialize, parse) over %d fixed documents' % len(XRT_INPUTS)
    if unit in ('u_htok', 'u_xtok'):
        conc = search(prop, unit, {})
        return conc, 'self-consistency sweep over %d short inputs x all 2-chunkings x exact_errors' % len(corpus(HTML_CONTEXTS if unit == 'u_htok' else XML_CONTEXTS))
    return None, ''


XML_CONTEXTS = [
    'x{P}y', '<a{P}b/>', '<a {P}b="c"/>', '<a b="c{P}d"/>', "<a b='c{P}d'/>", '<a b=c{P}d/>', '<a>x{P}y</a>',
    '<!--a{P}b-->x', '<?pi a{P}b?>x', '<![CDATA[a{P}b]]>x', '<!DOCTYPE a{P}b>x', '<!DOCTYPE x{P}PUBLIC "p">y', '<!DOC{P}TYPE x>y',
    '&am{P}p;x', '&a{P}b', '&#{P}65;x', '&#x{P}41;x', '<a b="&am{P}p;"/>', '<a>&a{P}b</a>', '</a{P}>x', '{P}<a/>',
    '<a b{P}="c"/>', '<a b={P}"c"/>', '<a b="c"{P}/>', '<a b="c" {P}d="e"/>', '<a/{P}>', '<{P}a/>', '</{P}a>', '<a:b{P}c/>',
    '<!--{P}-->x', '<!-{P}-x-->', '<!--a-{P}b-->', '<!--a--{P}b-->x', '<!--a--{P}>x', '<?{P}pi x?>y', '<?pi{P}?>y', '<?pi {P}x?>y',
    '<?pi x?{P}>y', '<?pi x{P}?>y', '<![CDATA[{P}]]>x', '<![CDATA[a]{P}]>x', '<![CDATA[a]]{P}>x', '<![CD{P}ATA[a]]>x', '<!{P}[CDATA[a]]>x',
    '<!DOCTYPE{P} a>x', '<!DOCTYPE {P}a>x', '<!DOCTYPE a {P}>x', '<!DOCTYPE a PUBLIC{P} "p">x', '<!DOCTYPE a PUBLIC {P}"p">x',
    '<!DOCTYPE a PUBLIC "p{P}q">x', "<!DOCTYPE a PUBLIC 'p{P}q'>x", '<!DOCTYPE a PUBLIC "p"{P} "s">x', '<!DOCTYPE a PUBLIC "p" "s{P}t">x',
    '<!DOCTYPE a SYSTEM{P} "s">x', '<!DOCTYPE a SYSTEM "s"{P}>x', '<!DOCTYPE a SYS{P}TEM "s">x', '<!DOCTYPE a PUB{P}LIC "p">x',
    '<!DOCTYPE a x{P}y>z', '<!DOCTYPE a [{P}]>x', '<!x{P}y>z', '&{P}x', '&amp{P};x', '&amp;{P}x', '&#65{P};x', '&#6{P}5;x', '&#x4{P}1;x',
    '&#x41{P}x', '&no{P}tit;x', '&notit{P};x', '<a b="&a{P}b"/>', '<a b=&am{P}p;c/>', "<a b='&#{P}65;'/>", '<a b="x"/>{P}', '<a>{P}</a>{P}',
]


def rust_unescape(body):
    """undo Rust's {:?} escaping of a string literal's body"""
    def rep(m):
        t = m.group(1)
        if t.startswith('u{'):
            return chr(int(t[2:-1], 16))
        return {'n': '\n', 'r': '\r', 't': '\t', '0': '\0', '\\': '\\', '"': '"', "'": "'"}.get(t, m.group(0))
    return re.sub(r'\\(u\{[0-9a-fA-F]+\}|.)', rep, body)


def rerun(conc):
    m = re.search(r'replay/src/bin/(\w+)\.rs', conc.get('tool', ''))
    bin_name = m.group(1) if m and m.group(1) in ('xtok', 'xrt', 'htok', 'hser', 'htrace', 'henc', 'hshadow', 'xns') else 'htok'
    tool, err = build_tool(bin_name)
    if tool is None:
        print('cannot build the replay tool:', err)
        return 2
    inp = conc['input']
    body = inp[1:-1] if inp.startswith('"') else inp
    # the tools print inputs with Rust's {:?}; their --selfcheck reader knows \n \r \t \0 \\ \u{..} but not \" and \'
    line = re.sub(r'\\(["\'])', r'\1', body)
    if bin_name == 'henc':
        # henc's --selfcheck lines are `labels<TAB>document`: look the document up in the registered cases
        import kanirun
        doc = rust_unescape(body)
        hit = [c for c in kanirun.HENC_CASES if c[1] == doc]
        if not hit:
            print('the document of this replay file is not one of the registered cases:', doc)
            return 2
        line = '%s\t%s' % hit[0]
    if bin_name == 'xns':
        import kanirun
        doc = rust_unescape(body)
        hit = [c for c in kanirun.XNS_CASES if c[1] == doc]
        if not hit:
            print('the document of this replay file is not one of the registered cases:', doc)
            return 2
        line = '%s\t%s' % hit[0]
    if bin_name == 'hshadow':
        import kanirun
        doc = rust_unescape(body)
        hit = [c for c in kanirun.SHADOW_CASES if c[2] == doc]
        if not hit:
            print('the document of this replay file is not one of the registered cases:', doc)
            return 2
        line = '%s\t%s\t%s' % hit[0]
    out = run_selfcheck(tool, [line])
    print(out)
    return 1 if 'INCONSISTENT' in out else 0
