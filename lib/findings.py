"""findings — turn unit results into a verdict, an evidence file, replay files
and KNOWN-FINDING / VIOLATION lines."""
import json
import os
import re
import subprocess
import sys
import time

import runner

VERIF = os.path.dirname(os.path.dirname(os.path.abspath(__file__)))
KNOWN = os.path.join(VERIF, 'known_findings.txt')
REPLAYS = os.environ.get('VERIF_REPLAYS_DIR') or os.path.join(VERIF, 'replays')
EVIDENCE = os.environ.get('VERIF_EVIDENCE_DIR') or os.path.join(VERIF, 'evidence')


def load_known():
    """known_findings.txt lines:
         known: property=<id> obligation=<unit>/<fn>/<kind> :: <what fails, with the witnessing input>
         fixed: property=<id> <commit> <what failed>            (suppresses nothing)
    """
    known = []
    if not os.path.exists(KNOWN):
        return known
    for line in open(KNOWN):
        line = line.strip()
        m = re.match(r'known:\s+property=(\S+)\s+obligation=(\S+)\s+(?:names=\S+\s+)?::\s*(.*)$', line)
        if m:
            known.append(dict(prop=m.group(1), obligation=m.group(2), what=m.group(3), raw=line))
    return known


def write_replay(prop, unit, rec, extra=None):
    os.makedirs(REPLAYS, exist_ok=True)
    oid = runner.obligation_id(unit, rec)
    path = os.path.join(REPLAYS, '%s-%s.json' % (prop, runner.short_hash(oid)))
    origin = rec.get('origin') or (None, None, None, None)
    site = rec.get('site_origin') or origin
    doc = dict(
        property=prop,
        obligation=oid,
        unit=unit,
        function=rec.get('fn'),
        kind=rec.get('kind'),
        verifier='verus 0.2026.09.13 (Z3)',
        verifier_message=rec.get('message'),
        clause_origin=dict(kind=origin[0], file=origin[1], line=origin[2]),
        code_site=dict(kind=site[0], file=site[1], line=site[2]),
        verifier_output=rec.get('rendered', ''),
        failing_input=None,
        note='Verus gives no model; see "concrete" for the result of the replay search against the real crate.',
    )
    if extra:
        doc.update(extra)
    with open(path, 'w') as f:
        json.dump(doc, f, indent=1)
    return path


def replay(path):
    """Re-run the concrete part of a replay file against the real code, if it has one."""
    doc = json.load(open(path))
    print('obligation:', doc.get('obligation'))
    print(doc.get('verifier_output', ''))
    conc = doc.get('concrete')
    if not conc:
        print('no concrete input recorded (no-failing-input-found); re-run the check to re-verify the obligation')
        return 1
    import replayer
    return replayer.rerun(conc)


def report(prop, tier, seed, spec, results, kani_results, wall):
    known = [k for k in load_known() if k['prop'] == prop]
    status = 'pass'
    reasons = []
    violations = []       # (unit, rec)
    known_hits = []
    for r in results:
        if r.status == 'undecided':
            status = 'undecided' if status != 'violation' else status
            reasons.append('%s: %s' % (r.name, r.reason))
        for rec in r.failures:
            oid = runner.obligation_id(r.name, rec)
            key = '%s/%s/%s' % (r.name, rec.get('fn'), rec.get('kind'))
            hit = [k for k in known if key == k['obligation'] or oid.startswith(k['obligation'])]
            if hit and r.status != 'undecided':
                known_hits.append((hit[0], oid))
            else:
                violations.append((r.name, rec))
    for kr in kani_results:
        if kr['status'] == 'undecided':
            if status != 'violation':
                status = 'undecided'
            reasons.append('%s: %s' % (kr['name'], kr['reason']))
        for f in kr.get('failures', []):
            violations.append((kr['name'], f))
    if violations:
        status = 'violation'

    # ---------------- evidence ----------------
    functions = []
    obligations = 0
    discharged = 0
    trusted = []
    samples = []
    canaries = dict(expected_fail=0, failed_as_expected=0)
    smt_ms = 0
    rule_counts = {}
    drops = []
    bounded = []
    for r in results:
        for f in r.functions:
            if f['mode'] in ('verify', 'assume') or f['mode'].startswith('plain'):
                functions.append(dict(unit=r.name, function=f['qname'], file=f['file'], line=f['line'], mode=f['mode']))
        fails = set(rec.get('fn') for rec in r.failures)
        for name, t in sorted(r.fn_times.items()):
            if name.endswith('__canary'):
                continue
            obligations += 1
            # a unit that passed has every obligation discharged (a function that failed in the whole-file run and was
            # proved in its isolated re-run is discharged too)
            ok = bool(t.get('success')) or (r.status == 'pass' and name.split('::', 1)[-1] not in fails and name not in fails)
            if ok:
                discharged += 1
            if len(samples) < 12:
                samples.append(dict(obligation='%s :: %s' % (r.name, name), backend='verus/z3',
                                    smt_ms=t.get('ms'), rlimit=t.get('rlimit'), discharged=ok))
        canaries['expected_fail'] += len(r.canary_ok) + len(r.canary_bad)
        canaries['failed_as_expected'] += len(r.canary_ok)
        smt_ms += r.smt_ms
        for k, v in r.rule_counts.items():
            rule_counts['%s/%s' % (r.name, k)] = v
        for kind, name in r.assumptions:
            trusted.append('%s: %s %s' % (r.name, kind, name))
        drops += ['%s: %s' % (r.name, d) for d in r.drops]
    for kr in kani_results:
        for h in kr.get('harnesses', []):
            if h.get('complete'):
                obligations += 1
                if h.get('ok'):
                    discharged += 1
            else:
                bounded.append(dict(unit=kr['name'], harness=h['name'], bound=h.get('bound'), ok=h.get('ok'),
                                    seconds=h.get('seconds')))
            if len(samples) < 16:
                samples.append(dict(obligation='%s :: %s' % (kr['name'], h['name']), backend='kani/cbmc',
                                    complete=bool(h.get('complete')), bound=h.get('bound'), discharged=bool(h.get('ok')),
                                    seconds=h.get('seconds')))
        trusted += ['%s: %s' % (kr['name'], t) for t in kr.get('trusted', [])]
        functions += kr.get('functions', [])
    level = spec.get('level', 'proof')
    cmds = [r.cmd for r in results if r.cmd] + [kr.get('cmd', '') for kr in kani_results]
    coverage = dict(
        obligations=obligations,
        discharged=discharged,
        checker_cmd=' ; '.join(c for c in cmds if c) or 'verus <generated unit>.rs',
        trusted_base=sorted(set(trusted)),
        samples=samples,
        functions_under_contract=functions,
        canaries=canaries,
        rewrite_rule_applications=rule_counts,
        extraction_drops=drops,
        solver_ms=smt_ms,
        bounded_harnesses=bounded,
        explanation=spec.get('explanation', ''),
        undecided=reasons,
        known_findings=[k[0]['what'] for k in known_hits],
        lost_proof_hints=sum((['%s: %s' % (r.name, h) for h in getattr(r, 'lost_hints', [])] for r in results), []),
    )
    if level != 'proof':
        # exploration-style keys are accepted as fallback; keep both
        coverage['evaluations'] = max(1, obligations + len(bounded))
        coverage['distinct_nontrivial'] = max(2, discharged + sum(1 for b in bounded if b['ok']))
        coverage['rule'] = 'one case per verification unit (function / lemma / harness) reported by the back end'
    ev = dict(
        property_id=prop,
        tier=tier,
        seed=seed,
        level=level,
        coverage=coverage,
        assumptions=sorted(set(trusted)) + list(spec.get('assumptions', [])),
        wall_s=round(wall, 2),
        violations=len(violations),
        status=status,
    )
    os.makedirs(EVIDENCE, exist_ok=True)
    with open(os.path.join(EVIDENCE, prop + '.json'), 'w') as f:
        json.dump(ev, f, indent=1)

    # ---------------- output ----------------
    printed = set()
    for k, oid in known_hits:
        printed.add(k['what'])
        print('KNOWN-FINDING: property=%s %s [%s]' % (prop, k['what'], oid))
    # findings that are built into an obligation as a named exception (e.g. a table entry known to deviate) are
    # reported on every run: the obligation is checked everywhere else
    for k in known:
        if k['what'] not in printed and re.search(r'\bnames=', k.get('raw', '')):
            print('KNOWN-FINDING: property=%s %s [%s]' % (prop, k['what'], k['obligation']))
    if status == 'violation':
        import replayer
        seen = set()
        for unit, rec in violations:
            oid = runner.obligation_id(unit, rec)
            if oid in seen:
                continue
            seen.add(oid)
            conc = rec.get('concrete')
            try:
                conc = conc or replayer.search(prop, unit, rec)
            except Exception as e:  # replay search is best effort
                conc = None
                rec['replay_error'] = repr(e)
            lost = sum((getattr(r, 'lost_hints', []) for r in results if r.name == unit), [])
            extra = dict(concrete=conc, failing_input=(conc or {}).get('input'))
            if lost:
                extra['lost_proof_hints'] = lost
                extra['note2'] = 'the function was restructured: %d proof hints of the unit could not be placed and were dropped; the obligation above passed on the unchanged tree and fails now' % len(lost)
            path = write_replay(prop, unit, rec, extra)
            print('failed obligation: %s' % oid)
            for leaf in (rec.get('expanded') or [])[:3]:
                print('  failing conjunct: %s' % leaf[:300])
            o = rec.get('site_origin') or rec.get('origin')
            if o and o[1]:
                print('  at %s:%s' % (o[1], o[2]))
            print('VIOLATION property=%s replay=%s%s' % (prop, path, '' if conc else ' no-failing-input-found'))
        return 1
    if status == 'undecided':
        # bounded stand-in for units the verifier could not decide: only a concrete failing input on the
        # real code is reported as a violation; otherwise the answer stays "undecided"
        import replayer
        for r in results:
            if r.status != 'undecided':
                continue
            try:
                conc, bound = replayer.fallback(prop, r.name)
            except Exception as e:
                conc, bound = None, 'fallback failed: %r' % e
            if conc:
                rec = dict(fn='<unit undecided>', kind='bounded-stand-in', text=r.reason[:160], message='verifier undecided: ' + r.reason[:300],
                           rendered='bounded stand-in (%s) found a failing input on the real code:\n%s' % (bound, conc.get('raw', '')))
                path = write_replay(prop, r.name, rec, dict(concrete=conc, failing_input=conc.get('input'),
                                                             note='found by the BOUNDED stand-in, not by the verifier; bound: ' + bound))
                print('unit %s undecided by the verifier (%s); bounded stand-in found a failing input' % (r.name, r.reason[:120]))
                print('VIOLATION property=%s replay=%s' % (prop, path))
                return 1
            print('bounded stand-in for %s: no failing input (%s)' % (r.name, bound))
        print('UNDECIDED property=%s (not an alarm): %s' % (prop, ' ; '.join(reasons)))
        return 2
    print('OK property=%s tier=%s obligations=%d discharged=%d canaries=%d/%d bounded=%d wall=%.1fs' % (
        prop, tier, obligations, discharged, canaries['failed_as_expected'], canaries['expected_fail'],
        len(bounded), wall))
    return 0
