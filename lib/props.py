"""Property -> units table.  Each entry: verus units (modules under /verif/units),
kani units (quick / thorough), evidence level and the technique string."""

PROPS = {
    'C13': dict(
        verus=['u_small', 'u_bq'],
        kani_quick=[], kani_thorough=[],
        level='proof',
        technique='contract-based deductive verification (Verus) of the verbatim-extracted BufferQueue / SmallCharSet code',
    ),
}
