"""Property -> units table.  Each entry: verus units (modules under /verif/units),
kani units (quick / thorough), evidence level and the technique string."""

HTOK_T = 'contract-based deductive verification (Verus): simulation of the WHATWG tokenizer machine by the verbatim-extracted Tokenizer code'

PROPS = {
    'C01': dict(verus=['u_small', 'u_htok', 'u_hcr'], level='proof', technique=HTOK_T),
    'C02': dict(verus=['u_tagsets', 'u_foreign', 'u_fmt', 'u_dispatch', 'u_stack', 'u_aaa', 'u_fcontent', 'u_tmpl', 'u_modes', 'u_table', 'u_inbody', 'u_inhead', 'u_misa', 'u_frag', 'u_ttext'], kani_quick=['b_shadow'], level='proof', technique='contract-based deductive verification (Verus): tag-set predicates and foreign-content tables checked for every name against the lists of the standard; stack-of-open-elements algorithms (in scope, implied end tags, pop until, any other end tag, reset insertion mode, reconstruct formatting, appropriate insertion place, adoption agency) against recursive definitions written from the standard'),
    'C03': dict(verus=['u_small', 'u_bq', 'u_htok', 'u_hcr'], level='proof', technique=HTOK_T),
    'C04': dict(verus=['u_small', 'u_bq', 'u_htok', 'u_hcr', 'u_xtok', 'u_xcr', 'u_qname', 'u_utf8', 'u_stack', 'u_aaa', 'u_fcontent', 'u_tmpl', 'u_modes', 'u_table', 'u_inbody', 'u_inhead', 'u_misa', 'u_frag', 'u_ttext', 'u_xtb'], level='proof', technique=HTOK_T),
    'C07': dict(verus=['u_hser'], kani_quick=['b_hser'], level='proof', technique='contract-based deductive verification (Verus) of the verbatim-extracted HtmlSerializer escaping / raw-text logic against a spec escape function with proved reversibility and confinement lemmas'),
    'C08': dict(verus=['u_htok', 'u_tbtok'], level='proof', technique=HTOK_T),
    'C09': dict(verus=['u_htok', 'u_hcr', 'u_tbtok'], level='proof', technique=HTOK_T),
    'C10': dict(verus=['u_utf8'], level='proof', technique='contract-based deductive verification (Verus) of the verbatim-extracted incremental UTF-8 decoder (utf8_decode.rs, Utf8LossyDecoder::process/finish) against a byte-level maximal-subpart specification of lossy decoding; chunking independence by a proved induction over the per-call contract'),
    'C11': dict(verus=['u_tendril'], level='proof', technique='contract-based deductive verification (Verus) of the verbatim-extracted Tendril operations that sit above the raw-pointer representation layer, against the byte string each tendril stands for, over an ASSUMED model of that layer'),
    'C13': dict(
        verus=['u_small', 'u_bq'],
        kani_quick=[], kani_thorough=[],
        level='proof',
        technique='contract-based deductive verification (Verus) of the verbatim-extracted BufferQueue / SmallCharSet code',
    ),
    'C14': dict(verus=['u_small', 'u_hcr'], kani_quick=['b_enttab'], level='proof', technique='contract-based deductive verification (Verus) of the verbatim-extracted character-reference tokenizer (all functions of char_ref/mod.rs and its glue in the tokenizer) against a per-character transcription of the WHATWG character-reference states (longest match, attribute exception, numeric ranges and C1 table); the generated entity table is compared exhaustively with the WHATWG list'),
    'C15': dict(verus=['u_small', 'u_bq', 'u_xtok', 'u_xcr'], kani_thorough=['b_xtok'], level='proof', technique='contract-based deductive verification (Verus) of the verbatim-extracted XmlTokenizer input primitives and state machine against the normalised pending stream (stream-level contracts, fast-path loop invariant, call-site set preconditions) and of all 19 functions of the XML character-reference sub-tokenizer (suspension iff no input pending, conservation of spelling + pending input, CR flag off)'),
    'C16': dict(verus=['u_qname', 'u_xns', 'u_xtb'], kani_quick=['b_xns'], level='proof', technique='contract-based deductive verification (Verus) of the verbatim-extracted XML qualified-name splitter, duplicate-attribute test and namespace handling of the tree builder (declaration rules, innermost-first scope search, resolution of element and attribute names, what is pushed for descendants and what is dropped) against a scope-resolution specification written from Namespaces in XML'),
    'C17': dict(verus=['u_xser'], kani_quick=['b_xrt'], level='proof', technique='contract-based deductive verification (Verus) of the verbatim-extracted XmlSerializer: output equals a spec escape function with proved reversibility/confinement lemmas; namespace-scope postconditions (every prefix of the element and its attributes bound by the declarations actually written; end_elem leaves enclosing scopes alone)'),
    'C19': dict(verus=['u_enc', 'u_meta'], kani_quick=['b_henc'], level='proof', technique='contract-based deductive verification (Verus) of the verbatim-extracted extract_a_character_encoding_from_a_meta_element against a transcription of the WHATWG algorithm; bounded sweep of the real tree builder for which elements raise an indicator'),
    'C18': dict(verus=['u_trace'], kani_quick=['b_trace'], level='proof', technique='contract-based deductive verification (Verus): trace_handles against a handle set generated from the struct definition'),
}
