"""kanirun — the BOUNDED stand-ins registered next to the Verus units of a property.

Two kinds, both reported under coverage.bounded_harnesses and never counted as proved:
  b_*  a sweep of the REAL code (replay tools built from /repo's working tree) over a stated finite input space,
       looking for a self-inconsistency or a difference from a prescribed answer;
  k_*  (none registered: see DESIGN.md - Kani could not finish the smallest tendril harness: 2 symbolic bytes of
       Utf8LossyDecoder ran 20 min / 9.7 GB without an answer).
"""
import re
import time

import replayer


def _sweep(name, tool, inputs, bound, kind_re=r'INCONSISTENT kind=(\S+) input=("(?:[^"\\]|\\.)*")( split_at=(\d+))?.*?\n((?:  .*\n?)+)'):
    t0 = time.time()
    path, err = replayer.build_tool(tool)
    if path is None:
        return dict(name=name, status='undecided', reason='replay tool %s did not build: %s' % (tool, err[-300:]), harnesses=[], failures=[])
    out = replayer.run_selfcheck(path, inputs)
    secs = round(time.time() - t0, 2)
    m = re.search(kind_re, out)
    ok = m is None and 'CONSISTENT' in out
    h = dict(name='%s --selfcheck' % tool, complete=False, bound=bound, ok=ok, seconds=secs)
    res = dict(name=name, status='pass' if ok else 'violation', reason='', harnesses=[h], failures=[],
               cmd='replay/src/bin/%s.rs --selfcheck <%d inputs>' % (tool, len(inputs)),
               trusted=[], functions=[])
    if m:
        conc = dict(tool='replay/src/bin/%s.rs --selfcheck' % tool, kind=m.group(1), input=m.group(2),
                    split_at=int(m.group(4)) if m.group(4) else None, observed=m.group(5).strip().split('\n'), raw=out.strip()[:4000])
        res['failures'].append(dict(fn='<bounded sweep %s>' % tool, kind='bounded-stand-in', text=m.group(1), message='bounded sweep of the real code found an inconsistency',
                                    rendered='bounded stand-in (%s):\n%s' % (bound, out.strip()[:3000]), concrete=conc, origin=None))
    elif not ok:
        res['status'] = 'undecided'
        res['reason'] = 'sweep produced no verdict: ' + out[-200:]
    return res


HENC_CASES = [
    ('utf-8', '<meta charset=utf-8>'), ('UTF-8', '<meta CHARSET=UTF-8>'), ('-', '<link charset="koi8-r" rel=x>'), ('-', '<base charset=x href=y>'),
    ('-', '<bgsound charset=q>'), ('-', '<basefont charset=q>'),
    ('latin1', '<meta http-equiv=Content-Type content="text/html; charset=latin1">'), ('-', '<meta http-equiv=content-type content="text/html">'),
    ('-', '<meta content="text/html; charset=x">'), ('-', '<meta http-equiv=refresh content="charset=x">'),
    ('a', '<meta charset=a http-equiv=content-type content="charset=b">'), ('a,b', '<meta charset=a><meta charset=b>'),
    ('x', '<body><p><meta charset=x>'), ('x', '<template><meta charset=x></template>'), ('-', '<!-- <meta charset=x> -->'),
    ('-', '<title><meta charset=x></title>'), ('-', '<script><meta charset=x></script>'), ('-', '</meta charset=x>'),
    ('big5', '<meta http-equiv="CONTENT-TYPE" content="a;Charset = \'big5\' x">'), ('-', '<meta http-equiv="content-type" content="charset=\'big5">'),
    ('y', '<meta http-equiv="content-type" content="charset x; charset=y;z">'),
    # only TAB, LF, FF, CR and SPACE are skipped around '=' (not U+00A0, U+000B, U+3000 ...)
    ('-', '<meta http-equiv=content-type content="charset\u00a0=koi8-r">'), ('\u3000shift_jis', '<meta http-equiv=content-type content="charset=\u3000shift_jis">'),
    ('windows-1252', '<meta http-equiv=content-type content="charset\u000b=x-user-defined; charset=windows-1252">'), ('latin1,utf-8', '<link charset=q><meta charset=latin1><base charset=r><meta charset=utf-8>'),
]


# (prescribed names in document order, document): Namespaces in XML; an end tag closes every open element up to the matching one,
# and the declarations of the closed elements go out of scope with them
XNS_CASES = [
    ("{}a|{}b|{}c|{urn:outer}p:d", "<a xmlns:p='urn:outer'><b xmlns:p='urn:inner'><c></b><p:d/></a>"),
    ("{u}a|{}b|{}c|{u}d", "<a xmlns='u'><b xmlns=''><c/></b><d/></a>"),
    ("{}a {u}p:x {}y|{u}p:b {u}p:z", "<a xmlns:p='u' p:x='1' y='2'><p:b p:z='3'/></a>"),
    ("{}r|{}a|{}b|{}p:c", "<r><a xmlns:p='u'><b></a><p:c/></r>"),
    ("{d}r|{e}a|{e}b|{e}c|{d}f", "<r xmlns='d'><a xmlns='e'><b><c></a><f/></r>"),
    ("{}a|{}b|{v}p:c|{u}p:d", "<a xmlns:p='u'><b xmlns:p='v'><p:c/></b><p:d/></a>"),
    ("{}a|{}b|{}c|{}d|{}q:e", "<a><b xmlns:q='w'><c><d></b><q:e/></a>"),
    ("{}x {http://www.w3.org/XML/1998/namespace}xml:lang|{u}p:y", "<x xml:lang='en' xmlns:p='u'><p:y/></x>"),
]


# (prescribed hosts, context element or "-" for a document, input); "@" = the context element
SHADOW_CASES = [
    ('div', '-', '<div><template shadowrootmode=open>x</template></div>'),
    ('@', 'div', '<template shadowrootmode=open>x</template>'),
    ('p', 'div', '<p><template shadowrootmode=closed>x</template></p>'),
    ('head', '-', '<template shadowrootmode=open>x</template>'),
    ('-', 'div', '<template shadowrootmode=bogus>x</template>'),
    ('-', '-', '<div><template>x</template></div>'),
    ('@', 'section', 'a<template shadowrootmode=closed><b>x</b></template>c'),
    ('div,span', '-', '<div><template shadowrootmode=open><span><template shadowrootmode=open>x</template></span></template></div>'),
    ('td', '-', '<table><tr><td><template shadowrootmode=open>x</template></td></tr></table>'),
]


TRACE_DOCS = [
    '<div><b>bold</div><table><tr><td>cell</td></tr></table><a>link</a> tail',
    '<p><b><i>x</p>y<table><td><a>z</table>w',
    '<b><template><i>x</template>y</b>z',
    '<form><input><table><input></form>x<input>',
    '<a><p>x</a>y</p>z',
    '<b><applet><i>x</applet>y</b>z',
    '<i><object><b>x</object></i><b>y',
    '<table><caption><b>x</caption><tr><td><i>y</td></tr></table>z',
    '<head><title>t</title></head><body><b><marquee><u>x</marquee>y',
    '<b><p><table><tr><th><em>x</th></tr></table></b>y',
    '<select><option>a<option>b</select><b>c',
    '<svg><desc><b>x</desc></svg><i>y',
    '<b><b><b><b>x</b></b>y<table>z<td>w',
    '<html><head></head><frameset><frame></frameset>',
    '<template><b><td>x</td></b></template><i>y',
    '#frag:div:<b>x<table><td>y</td></table>z', '#frag:template:<tr><td>x</td></tr>y', '#frag:select:<option>x<b>y', '#frag:td:<i>x<p>y</i>z',
]


def _enttab(name):
    """Complete enumeration of the generated entity table (finite): equals the WHATWG list (the copy shipped with
    Python: html.entities.html5, taken from the standard's entities.json) plus every proper prefix with (0, 0); and the
    facts the Verus unit u_hcr ASSUMES of the table (axiom_ent_table, named_entities_get) hold for it."""
    import html.entities
    import subprocess
    t0 = time.time()
    path, err = replayer.build_tool('enttab')
    if path is None:
        return dict(name=name, status='undecided', reason='replay tool enttab did not build: ' + err[-300:], harnesses=[], failures=[])
    out = subprocess.run([path], capture_output=True, text=True, timeout=300).stdout
    table = {}
    for line in out.split('\n'):
        if not line or line.startswith('#'):
            continue
        k, a, b = line.split('\t')
        table[k] = (int(a), int(b))
    problems = []
    want = {}
    for nm, val in html.entities.html5.items():
        cps = [ord(c) for c in val]
        want[nm] = (cps[0], cps[1] if len(cps) > 1 else 0)
        if len(cps) > 2:
            problems.append('WHATWG entry %r has more than two code points' % nm)
    full = {k: v for k, v in table.items() if v[0] != 0}
    for k in sorted(set(want) | set(full)):
        if want.get(k) != full.get(k):
            problems.append('entity &%s: table has %r, WHATWG list has %r' % (k, full.get(k), want.get(k)))
    prefixes = set()
    for k in want:
        for n in range(0, len(k)):
            prefixes.add(k[:n])
    for k, v in table.items():
        if v[0] == 0 and (v != (0, 0) or k not in prefixes or k in want):
            problems.append('entry %r -> %r is neither an entity nor a proper prefix mapped to (0, 0)' % (k, v))
        if not all(c.isascii() and (c.isalnum() or c == ';') for c in k):
            problems.append('key %r has a character that is neither ASCII alphanumeric nor ";"' % k)
        for cp in v:
            if cp > 0x10FFFF or 0xD800 <= cp <= 0xDFFF:
                problems.append('entry %r has a value that is not a scalar value' % k)
    for p in prefixes:
        if p not in table:
            problems.append('proper prefix %r of an entity is missing from the table' % p)
    if '' not in table:
        problems.append('the empty prefix is missing')
    secs = round(time.time() - t0, 2)
    ok = not problems and len(table) > 2231
    bound = 'complete enumeration: all %d entries of the generated table vs the %d WHATWG entities and their %d proper prefixes' % (len(table), len(want), len(prefixes))
    h = dict(name='enttab (exhaustive table comparison)', complete=False, bound=bound, ok=ok, seconds=secs)
    res = dict(name=name, status='pass' if ok else 'violation', reason='', harnesses=[h], failures=[], cmd='replay/src/bin/enttab.rs | compare with html.entities.html5',
               trusted=['the WHATWG list is taken from Python\'s html.entities.html5 (generated from the standard\'s entities.json)'], functions=[])
    if problems:
        conc = dict(tool='replay/src/bin/enttab.rs', kind='entity-table-mismatch', input=problems[0], observed=problems[:20], raw='\n'.join(problems[:50]))
        res['failures'].append(dict(fn='<entity table>', kind='enumeration', text=problems[0][:160], message='the generated entity table differs from the WHATWG list / violates an assumed table fact',
                                    rendered='\n'.join(problems[:50]), concrete=conc, origin=None))
    return res


def run_kani_unit(name, tier):
    if name == 'b_enttab':
        return _enttab(name)
    if name == 'b_henc':
        return _sweep(name, 'henc', ['%s\t%s' % c for c in HENC_CASES],
                      '%d documents x every 2-chunk split; EncodingIndicators raised vs the labels the WHATWG rules prescribe' % len(HENC_CASES))
    if name == 'b_xns':
        return _sweep(name, 'xns', ['%s\t%s' % c for c in XNS_CASES],
                      '%d XML documents (prefix shadowing, default namespace un-declared, unclosed elements closed by an ancestor\'s end tag, unbound prefix, xml prefix): expanded names of all elements and attributes vs what Namespaces in XML prescribes' % len(XNS_CASES))
    if name == 'b_shadow':
        return _sweep(name, 'hshadow', ['%s\t%s\t%s' % c for c in SHADOW_CASES],
                      '%d template start tags (documents and fragments): hosts of the declarative shadow roots requested from the sink vs the hosts the WHATWG rule prescribes' % len(SHADOW_CASES))
    if name == 'b_trace':
        return _sweep(name, 'htrace', TRACE_DOCS, '%d HTML documents and fragments x every split point x (no script action | a script detaches one of the existing elements); '
                      'handles used by the tree builder after the suspension point vs the handles trace_handles reported (and what is connected to them)' % len(TRACE_DOCS))
    if name == 'b_hser':
        import itertools
        alpha = ['a', '&', '<', '>', '"', "'", '\\u{a0}', '\\u{a9}', '\\u{e9}', ' ']
        inputs = [''.join(t) for n in (1, 2, 3) for t in itertools.product(alpha, repeat=n)]
        return _sweep(name, 'hser', inputs, 'all %d strings of length 1..3 over %s as text of <p>, as an attribute value and as text of <style>, vs the WHATWG "escaping a string" rules' % (len(inputs), ' '.join(alpha)))
    if name == 'b_xrt':
        return _sweep(name, 'xrt', replayer.XRT_INPUTS, 'XML round trip (parse, serialize, parse) over %d fixed documents' % len(replayer.XRT_INPUTS))
    if name == 'b_xtok':
        inputs = replayer.corpus(replayer.XML_CONTEXTS)
        return _sweep(name, 'xtok', inputs, '%d short XML inputs (every probe in every context) x all 2-chunkings x exact_errors x CRLF->LF' % len(inputs))
    if name == 'b_htok':
        inputs = replayer.corpus(replayer.HTML_CONTEXTS)
        return _sweep(name, 'htok', inputs, '%d short HTML inputs (every probe in every context) x all 2-chunkings x exact_errors' % len(inputs))
    return dict(name=name, status='undecided', reason='unknown bounded unit', harnesses=[], failures=[])
