"""rsx — mechanical extraction of Rust items from /repo's working tree.

Items are located by *name* (never by line number) with a small lexer that
understands line/block comments, string/char/raw-string literals and lifetimes,
and copied verbatim.  Nothing here parses Rust properly; it only needs to find
`fn NAME`, `macro_rules! NAME`, `enum NAME`, `struct NAME`, `const NAME`,
`static NAME`, `impl ... TYPE ... {` and match their delimiters.
"""
import re


class ExtractError(Exception):
    """Anchor lost / construct outside the accepted subset -> exit 2 (undecided)."""


def mask(src):
    """Return a string of the same length where comments and the *contents* of
    string/char literals are replaced by spaces (newlines kept), so that brace
    matching and regex search see code only."""
    out = list(src)
    i, n = 0, len(src)

    def blank(a, b):
        for k in range(a, b):
            if out[k] != '\n':
                out[k] = ' '

    while i < n:
        c = src[i]
        if c == '/' and i + 1 < n and src[i + 1] == '/':
            j = src.find('\n', i)
            j = n if j < 0 else j
            blank(i, j)
            i = j
        elif c == '/' and i + 1 < n and src[i + 1] == '*':
            depth, j = 1, i + 2
            while j < n and depth:
                if src.startswith('/*', j):
                    depth += 1
                    j += 2
                elif src.startswith('*/', j):
                    depth -= 1
                    j += 2
                else:
                    j += 1
            blank(i, j)
            i = j
        elif c == '"' or (c in 'br' and re.match(r'(?:b?r#*"|b")', src[i:i + 8]) and
                          (i == 0 or not (src[i - 1].isalnum() or src[i - 1] == '_'))):
            m = re.match(r'b?r(#*)"', src[i:i + 12])
            if m:
                hashes = m.group(1)
                start = i + m.end()
                end = src.find('"' + hashes, start)
                if end < 0:
                    raise ExtractError('unterminated raw string')
                blank(start, end)
                i = end + 1 + len(hashes)
            else:
                j = i + (2 if c == 'b' else 1)
                start = j
                while j < n and src[j] != '"':
                    j += 2 if src[j] == '\\' else 1
                blank(start, j)
                i = j + 1
        elif c == "'":
            # char literal or lifetime
            m = re.match(r"'(?:\\(?:x[0-9a-fA-F]{2}|u\{[0-9a-fA-F_]+\}|.)|[^\\'])'", src[i:i + 14])
            if m:
                blank(i + 1, i + m.end() - 1)
                i += m.end()
            else:
                i += 1
        else:
            i += 1
    return ''.join(out)


OPEN = {'(': ')', '[': ']', '{': '}'}
CLOSE = {v: k for k, v in OPEN.items()}


def match_delim(masked, pos):
    """masked[pos] is an opening delimiter; return index of its closer."""
    stack = [masked[pos]]
    i = pos + 1
    n = len(masked)
    while i < n:
        ch = masked[i]
        if ch in OPEN:
            stack.append(ch)
        elif ch in CLOSE:
            if not stack or stack[-1] != CLOSE[ch]:
                raise ExtractError('unbalanced delimiter at %d' % i)
            stack.pop()
            if not stack:
                return i
        i += 1
    raise ExtractError('unterminated delimiter')


class Source:
    def __init__(self, path, text=None):
        self.path = path
        self.text = open(path).read() if text is None else text
        self.masked = mask(self.text)

    def line_of(self, pos):
        return self.text.count('\n', 0, pos) + 1

    # -- impl blocks ---------------------------------------------------------
    def impl_blocks(self, type_name):
        """All `impl ... type_name ... {` blocks (inherent or trait) -> (hdr_start, lbrace, rbrace)."""
        res = []
        for m in re.finditer(r'\bimpl\b', self.masked):
            lb = self._item_open(m.start())
            if lb is None:
                continue
            hdr = self.masked[m.start():lb]
            if re.search(r'\b%s\b' % re.escape(type_name), hdr):
                res.append((m.start(), lb, match_delim(self.masked, lb)))
        return res

    def _item_open(self, start):
        """Position of the `{` that opens an item body starting at `start`
        (skipping generics / where clauses, which contain no `{` except const
        generics that this code base does not use); None if a `;` comes first."""
        i = start
        n = len(self.masked)
        while i < n:
            ch = self.masked[i]
            if ch == '{':
                return i
            if ch == ';':
                return None
            if ch in '([':
                i = match_delim(self.masked, i)
            i += 1
        return None

    # -- generic item lookup -------------------------------------------------
    def find_fn(self, name, impl=None, nth=0, trait_impl=None):
        """Locate `fn name` (optionally inside an impl of `impl`), return
        (start, body_lbrace, end) where start is at the first qualifier
        (pub/unsafe/const/fn) and end is one past the closing brace."""
        ranges = [(0, len(self.masked))]
        if impl is not None:
            blocks = self.impl_blocks(impl)
            if trait_impl is not None:
                blocks = [b for b in blocks
                          if re.search(r'\b%s\b' % re.escape(trait_impl), self.masked[b[0]:b[1]])]
            ranges = [(lb, rb) for (_, lb, rb) in blocks]
            if not ranges:
                raise ExtractError('%s: impl block for %s not found' % (self.path, impl))
        hits = []
        pat = re.compile(r'\bfn\s+%s\b' % re.escape(name))
        for (a, b) in ranges:
            for m in pat.finditer(self.masked, a, b):
                # must be at depth 1 relative to the impl (or any depth for free fns)
                hits.append(m.start())
        if len(hits) <= nth:
            raise ExtractError('%s: fn %s%s not found' % (self.path, (impl + '::') if impl else '', name))
        fnpos = hits[nth]
        # walk back over qualifiers
        start = fnpos
        while True:
            m = re.search(r'(pub(\s*\([^)]*\))?|unsafe|const|async|extern\s*"[^"]*")\s*$', self.masked[:start])
            if not m:
                break
            start = m.start()
        lb = self._item_open(fnpos)
        if lb is None:
            raise ExtractError('%s: fn %s has no body' % (self.path, name))
        rb = match_delim(self.masked, lb)
        return start, lb, rb + 1

    def find_kw_item(self, kw, name):
        """`enum X {..}`, `struct X {..}` / `struct X(..);`, `const X: T = ..;`,
        `static X ..;`, `macro_rules! X (..);`  -> (start, end)."""
        if kw == 'macro':
            m = re.search(r'\bmacro_rules!\s*%s\b' % re.escape(name), self.masked)
            if not m:
                raise ExtractError('%s: macro %s not found' % (self.path, name))
            i = m.end()
            while self.masked[i] not in OPEN:
                i += 1
            e = match_delim(self.masked, i) + 1
            if self.masked[e:e + 1] == ';':
                e += 1
            return m.start(), e
        if kw == 'macrocall':
            # `MACRO!( [pub] NAME = ... );` at item level, e.g. declare_tag_set!(pub special_tag = ...);
            mac, nm = name.split(':')
            m = re.search(r'\b%s!\s*\(\s*(?:pub\s+)?%s\s*=' % (re.escape(mac), re.escape(nm)), self.masked)
            if not m:
                raise ExtractError('%s: %s!(%s = ..) not found' % (self.path, mac, nm))
            i = self.masked.index('(', m.start())
            e = match_delim(self.masked, i) + 1
            if self.masked[e:e + 1] == ';':
                e += 1
            return m.start(), e
        m = re.search(r'\b%s\s+%s\b' % (kw, re.escape(name)), self.masked)
        if not m:
            raise ExtractError('%s: %s %s not found' % (self.path, kw, name))
        start = m.start()
        m2 = re.search(r'pub(\s*\([^)]*\))?\s*$', self.masked[:start])
        if m2:
            start = m2.start()
        if kw in ('const', 'static'):
            i = m.end()
            while self.masked[i] != ';':
                if self.masked[i] in OPEN:
                    i = match_delim(self.masked, i)
                i += 1
            return start, i + 1
        i = m.end()
        while self.masked[i] not in '{(;':
            i += 1
        if self.masked[i] == ';':
            return start, i + 1
        e = match_delim(self.masked, i) + 1
        if self.masked[i] == '(':
            while self.masked[e] != ';':
                e += 1
            e += 1
        return start, e

    def leading_attrs(self, start):
        """Attributes / doc comments immediately preceding an item (returned as text)."""
        lines = self.text[:start].split('\n')
        # current (partial) line is lines[-1]; walk upwards
        k = len(lines) - 2
        attrs = []
        while k >= 0:
            s = lines[k].strip()
            if s.startswith('#[') or s.startswith('///') or s.startswith('//!'):
                attrs.append(s)
                k -= 1
            else:
                break
        return list(reversed(attrs))


# ---------------------------------------------------------------------------
# cfg evaluation (rule R9)

HOST_CFG = {
    ('target_arch', 'x86_64'), ('target_endian', 'little'), ('target_pointer_width', '64'),
}


def eval_cfg(expr):
    """Evaluate a cfg predicate for the host configuration (no cargo features,
    not(test))."""
    expr = expr.strip()
    m = re.match(r'^(any|all|not)\s*\((.*)\)$', expr, re.S)
    if m:
        parts = split_top(m.group(2))
        vals = [eval_cfg(p) for p in parts if p.strip()]
        if m.group(1) == 'any':
            return any(vals)
        if m.group(1) == 'all':
            return all(vals)
        return not vals[0]
    m = re.match(r'^(\w+)\s*=\s*"([^"]*)"$', expr)
    if m:
        if m.group(1) == 'feature':
            return False
        return (m.group(1), m.group(2)) in HOST_CFG
    if expr in ('test', 'for_c', 'kani', 'debug_assertions'):
        return False
    raise ExtractError('cfg predicate not understood: ' + expr)


def split_top(s):
    parts, depth, cur = [], 0, ''
    for ch in s:
        if ch == '(':
            depth += 1
        elif ch == ')':
            depth -= 1
        if ch == ',' and depth == 0:
            parts.append(cur)
            cur = ''
        else:
            cur += ch
    parts.append(cur)
    return parts


def apply_cfg(text):
    """Resolve `#[cfg(..)]` attributes inside an extracted item: drop the
    attribute when true, drop attribute + the statement/item it guards when
    false.  Returns (new_text, n_kept, n_dropped)."""
    kept = dropped = 0
    while True:
        masked = mask(text)
        m = re.search(r'#\[cfg\(', masked)
        if not m:
            break
        lb = m.start() + 1
        rb = match_delim(masked, lb)
        pred = text[m.end():rb - 1]
        val = eval_cfg(pred)
        if val:
            text = text[:m.start()] + ' ' * (rb + 1 - m.start()) + text[rb + 1:]
            kept += 1
            continue
        # find extent of the guarded thing: skip further attributes / doc comments
        i = rb + 1
        while True:
            mm = re.match(r'\s*', masked[i:])
            i += mm.end()
            if masked.startswith('#[', i):
                i = match_delim(masked, i + 1) + 1
                continue
            break
        # statement or item: ends at `;` at depth 0 or after a `{}` block that is
        # not followed by `else`/`.`/`;`-continuations
        j = i
        n = len(masked)
        while j < n:
            ch = masked[j]
            if ch in '([':
                j = match_delim(masked, j) + 1
                continue
            if ch == '{':
                j = match_delim(masked, j) + 1
                rest = masked[j:].lstrip()
                if rest.startswith('else'):
                    continue
                if rest.startswith(';'):
                    j = masked.index(';', j) + 1
                break
            if ch == ';':
                j += 1
                break
            if ch == '}':   # end of enclosing block: expression statement without `;`
                break
            j += 1
        removed = text[m.start():j]
        text = text[:m.start()] + re.sub(r'[^\n]', ' ', removed) + text[j:]
        dropped += 1
    return text, kept, dropped


def strip_macro_calls(text, names):
    """Remove statement-position invocations `name!( ... );` of logging macros."""
    count = 0
    for name in names:
        while True:
            masked = mask(text)
            m = re.search(r'(?<![\w!])%s!\s*[\(\[\{]' % re.escape(name), masked)
            if not m:
                break
            lb = m.end() - 1
            rb = match_delim(masked, lb)
            e = rb + 1
            mm = re.match(r'\s*;', masked[e:])
            if mm:
                e += mm.end()
            text = text[:m.start()] + re.sub(r'[^\n]', ' ', text[m.start():e]) + text[e:]
            count += 1
    return text, count


def find_loops(body_masked, base=0):
    """Positions of loop headers in a (masked) function text, in source order:
    list of (kind, kw_start, lbrace)."""
    res = []
    for m in re.finditer(r'\b(loop|while|for)\b', body_masked):
        kw = m.group(1)
        i = m.end()
        # `for` in `impl X for Y` / HRTB never occurs inside fn bodies here.
        # find the `{` opening the loop body: first `{` at paren-depth 0 that is
        # not part of a struct-literal (headers in this code base contain none).
        n = len(body_masked)
        j = i
        while j < n:
            ch = body_masked[j]
            if ch in '([':
                j = match_delim(body_masked, j) + 1
                continue
            if ch == '{':
                break
            if ch == ';' or ch == '}':
                j = None
                break
            j += 1
        if j is None or j >= n:
            continue
        res.append((kw, base + m.start(), base + j))
    return res
