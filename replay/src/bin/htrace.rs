//! htrace: bounded stand-in for C18 (trace_handles reports every node the tree builder still needs).
//!
//! A monitoring sink with integer handles keeps a real DOM (parent / children / template contents) and logs every handle
//! the tree builder passes to it.  For a document D, a split point k and an optional victim node v:
//!   1. feed D[..k] to the real parser (html5ever::parse_document over the monitoring sink);
//!   2. as a script running at the suspension point might, detach v from its parent (if v is given);
//!   3. call the real `TreeBuilder::trace_handles` with a tracer that collects the reported handles T; compute
//!      LIVE = every node connected to a handle of T through parent / child / template-contents links;
//!   4. feed D[k..] and finish; every handle created before the split that the tree builder passes to the sink after the
//!      split must be in LIVE.
//! A line `#frag:NAME:INPUT` is parsed as a fragment with the HTML context element NAME (which only the tree builder references).
//! `--selfcheck FILE`: every line of FILE (escapes \n \r \t \0 \\ \u{..}) x every split point x (no victim | each element
//! node existing at the split); prints INCONSISTENT for a handle used after the split that was not kept alive.
use std::borrow::Cow;
use std::cell::{Cell, RefCell};
use std::collections::{BTreeSet, HashMap};

use html5ever::interface::tree_builder::Tracer;
use html5ever::tendril::*;
use html5ever::tree_builder::{ElementFlags, NodeOrText, QuirksMode, TreeSink};
use html5ever::{expanded_name, local_name, namespace_url, ns, parse_document, parse_fragment, Attribute, ExpandedName, LocalName, QualName};

#[derive(Default)]
struct Node {
    parent: Option<usize>,
    children: Vec<usize>,
    contents: Option<usize>,
    elem: bool,
}

struct Sink {
    next_id: Cell<usize>,
    names: RefCell<HashMap<usize, &'static QualName>>,
    nodes: RefCell<HashMap<usize, Node>>,
    /// handles the tree builder handed to the sink, in order (with the method's name)
    uses: RefCell<Vec<(usize, &'static str)>>,
}

impl Sink {
    fn new() -> Sink {
        let s = Sink { next_id: Cell::new(1), names: RefCell::new(HashMap::new()), nodes: RefCell::new(HashMap::new()), uses: RefCell::new(Vec::new()) };
        s.nodes.borrow_mut().insert(0, Node::default());
        s
    }
    fn fresh(&self, elem: bool) -> usize {
        let id = self.next_id.get();
        self.next_id.set(id + 1);
        self.nodes.borrow_mut().insert(id, Node { elem, ..Node::default() });
        id
    }
    fn used(&self, h: &usize, by: &'static str) {
        self.uses.borrow_mut().push((*h, by));
    }
    fn detach(&self, h: usize) {
        let p = self.nodes.borrow_mut().get_mut(&h).unwrap().parent.take();
        if let Some(p) = p {
            self.nodes.borrow_mut().get_mut(&p).unwrap().children.retain(|c| *c != h);
        }
    }
    fn add_child(&self, parent: usize, child: NodeOrText<usize>, before: Option<usize>) {
        let c = match child {
            NodeOrText::AppendNode(c) => { self.used(&c, "child"); c },
            NodeOrText::AppendText(_) => self.fresh(false),
        };
        self.detach(c);
        let mut nodes = self.nodes.borrow_mut();
        nodes.get_mut(&c).unwrap().parent = Some(parent);
        let ch = &mut nodes.get_mut(&parent).unwrap().children;
        match before.and_then(|b| ch.iter().position(|x| *x == b)) {
            Some(i) => ch.insert(i, c),
            None => ch.push(c),
        }
    }
    /// every node connected to one of `roots` through parent / child / template-contents links
    fn connected(&self, roots: &BTreeSet<usize>) -> BTreeSet<usize> {
        let nodes = self.nodes.borrow();
        let mut host_of: HashMap<usize, usize> = HashMap::new();
        for (k, n) in nodes.iter() {
            if let Some(c) = n.contents { host_of.insert(c, *k); }
        }
        let mut seen = BTreeSet::new();
        let mut work: Vec<usize> = roots.iter().cloned().collect();
        while let Some(h) = work.pop() {
            if !seen.insert(h) { continue; }
            if let Some(n) = nodes.get(&h) {
                work.extend(n.parent.iter().cloned());
                work.extend(n.children.iter().cloned());
                work.extend(n.contents.iter().cloned());
            }
            work.extend(host_of.get(&h).iter().cloned());
        }
        seen
    }
}

impl TreeSink for Sink {
    type Handle = usize;
    type Output = Self;
    type ElemName<'a> = ExpandedName<'a>;
    fn finish(self) -> Self { self }
    fn get_document(&self) -> usize { 0 }
    fn get_template_contents(&self, target: &usize) -> usize {
        self.used(target, "get_template_contents");
        if let Some(expanded_name!(html "template")) = self.names.borrow().get(target).map(|n| n.expanded()) {
            let existing = self.nodes.borrow().get(target).unwrap().contents;
            match existing {
                Some(c) => c,
                None => {
                    let c = self.fresh(false);
                    self.nodes.borrow_mut().get_mut(target).unwrap().contents = Some(c);
                    c
                },
            }
        } else {
            panic!("not a template element")
        }
    }
    fn same_node(&self, x: &usize, y: &usize) -> bool {
        self.used(x, "same_node");
        self.used(y, "same_node");
        x == y
    }
    fn elem_name(&self, target: &usize) -> ExpandedName<'_> {
        self.used(target, "elem_name");
        let names = self.names.borrow();
        let q: &'static QualName = names.get(target).expect("not an element");
        q.expanded()
    }
    fn create_element(&self, name: QualName, _: Vec<Attribute>, _: ElementFlags) -> usize {
        let id = self.fresh(true);
        self.names.borrow_mut().insert(id, Box::leak(Box::new(name)));
        id
    }
    fn create_comment(&self, _text: StrTendril) -> usize { self.fresh(false) }
    fn create_pi(&self, _target: StrTendril, _value: StrTendril) -> usize { self.fresh(false) }
    fn append(&self, parent: &usize, child: NodeOrText<usize>) {
        self.used(parent, "append");
        self.add_child(*parent, child, None);
    }
    fn append_before_sibling(&self, sibling: &usize, new_node: NodeOrText<usize>) {
        self.used(sibling, "append_before_sibling");
        let p = self.nodes.borrow().get(sibling).unwrap().parent;
        if let Some(p) = p { self.add_child(p, new_node, Some(*sibling)); }
    }
    fn append_based_on_parent_node(&self, element: &usize, prev_element: &usize, new_node: NodeOrText<usize>) {
        self.used(element, "append_based_on_parent_node");
        self.used(prev_element, "append_based_on_parent_node");
        let has_parent = self.nodes.borrow().get(element).unwrap().parent.is_some();
        if has_parent { self.append_before_sibling(element, new_node) } else { self.append(prev_element, new_node) }
    }
    fn parse_error(&self, _msg: Cow<'static, str>) {}
    fn set_quirks_mode(&self, _mode: QuirksMode) {}
    fn append_doctype_to_document(&self, _: StrTendril, _: StrTendril, _: StrTendril) {}
    fn add_attrs_if_missing(&self, target: &usize, _attrs: Vec<Attribute>) { self.used(target, "add_attrs_if_missing"); }
    fn remove_from_parent(&self, target: &usize) {
        self.used(target, "remove_from_parent");
        self.detach(*target);
    }
    fn reparent_children(&self, node: &usize, new_parent: &usize) {
        self.used(node, "reparent_children");
        self.used(new_parent, "reparent_children");
        let kids: Vec<usize> = self.nodes.borrow().get(node).unwrap().children.clone();
        for k in kids {
            self.detach(k);
            self.nodes.borrow_mut().get_mut(&k).unwrap().parent = Some(*new_parent);
            self.nodes.borrow_mut().get_mut(new_parent).unwrap().children.push(k);
        }
    }
    fn mark_script_already_started(&self, node: &usize) { self.used(node, "mark_script_already_started"); }
    fn associate_with_form(&self, target: &usize, form: &usize, nodes: (&usize, Option<&usize>)) {
        self.used(target, "associate_with_form");
        self.used(form, "associate_with_form");
        self.used(nodes.0, "associate_with_form");
        if let Some(n) = nodes.1 { self.used(n, "associate_with_form"); }
    }
}

struct Collect(RefCell<BTreeSet<usize>>);
impl Tracer for Collect {
    type Handle = usize;
    fn trace_handle(&self, node: &usize) { self.0.borrow_mut().insert(*node); }
}

fn unescape(s: &str) -> String {
    let mut out = String::new();
    let cs: Vec<char> = s.chars().collect();
    let mut i = 0;
    while i < cs.len() {
        if cs[i] == '\\' && i + 1 < cs.len() {
            match cs[i + 1] {
                'n' => { out.push('\n'); i += 2; },
                'r' => { out.push('\r'); i += 2; },
                't' => { out.push('\t'); i += 2; },
                '0' => { out.push('\0'); i += 2; },
                '\\' => { out.push('\\'); i += 2; },
                'u' => {
                    let j = cs[i..].iter().position(|&c| c == '}').unwrap() + i;
                    let hex: String = cs[i + 3..j].iter().collect();
                    out.push(char::from_u32(u32::from_str_radix(&hex, 16).unwrap()).unwrap());
                    i = j + 1;
                },
                _ => { out.push(cs[i]); i += 1; },
            }
        } else { out.push(cs[i]); i += 1; }
    }
    out
}

/// one run; Ok(number of element nodes at the split) or Err(description of the first untraced use)
fn run(doc: &str, k: usize, victim: Option<usize>) -> Result<usize, String> {
    // `#frag:NAME:` in front of the input: parse the rest as a fragment with the HTML context element NAME
    let (ctx, doc, k) = match doc.strip_prefix("#frag:").and_then(|r| r.split_once(':')) {
        Some((c, rest)) => (Some(c), rest, k.saturating_sub(doc.len() - rest.len())),
        None => (None, doc, k),
    };
    let mut parser = match ctx {
        Some(c) => parse_fragment(Sink::new(), Default::default(), QualName::new(None, ns!(html), LocalName::from(c)), vec![], false),
        None => parse_document(Sink::new(), Default::default()),
    };
    parser.process(StrTendril::from_slice(&doc[..k]));
    let (elems, created, uses_before, live, traced) = {
        let tb = &parser.tokenizer.sink;
        let sink = &tb.sink;
        let mut elems: Vec<usize> = sink.nodes.borrow().iter().filter(|(_, n)| n.elem).map(|(k, _)| *k).collect();
        elems.sort();
        if let Some(v) = victim {
            if v < elems.len() { sink.detach(elems[v]); }
        }
        let tr = Collect(RefCell::new(BTreeSet::new()));
        tb.trace_handles(&tr);
        let traced = tr.0.into_inner();
        let live = sink.connected(&traced);
        (elems, sink.next_id.get(), sink.uses.borrow().len(), live, traced)
    };
    parser.process(StrTendril::from_slice(&doc[k..]));
    let sink = parser.finish();
    for (h, by) in sink.uses.borrow().iter().skip(uses_before) {
        if *h < created && !live.contains(h) {
            let name = sink.names.borrow().get(h).map(|q| q.local.to_string()).unwrap_or_else(|| "#node".into());
            return Err(format!("handle {h} (<{name}>) was passed to TreeSink::{by} after the suspension point but was neither traced nor connected to a traced node (traced: {traced:?})"));
        }
    }
    Ok(elems.len())
}

fn main() {
    let args: Vec<String> = std::env::args().skip(1).collect();
    if args.first().map(|s| s.as_str()) == Some("--selfcheck") {
        let text = std::fs::read_to_string(&args[1]).unwrap();
        let (mut runs, mut bad) = (0usize, 0usize);
        for line in text.lines() {
            let doc = unescape(line);
            for k in (0..=doc.len()).filter(|k| doc.is_char_boundary(*k)) {
                let n = match std::panic::catch_unwind(|| run(&doc, k, None)) {
                    Ok(Ok(n)) => { runs += 1; n },
                    Ok(Err(e)) => { runs += 1; bad += 1; if bad <= 5 { println!("INCONSISTENT kind=untraced_handle input={:?} split_at={}\n  {}", doc, k, e); } 0 },
                    Err(_) => { bad += 1; println!("INCONSISTENT kind=panic input={:?} split_at={}\n  panicked", doc, k); 0 },
                };
                for v in 0..n {
                    runs += 1;
                    match std::panic::catch_unwind(|| run(&doc, k, Some(v))) {
                        Ok(Ok(_)) => {},
                        Ok(Err(e)) => { bad += 1; if bad <= 5 { println!("INCONSISTENT kind=untraced_handle input={:?} split_at={}\n  script detaches element #{} at the suspension point\n  {}", doc, k, v, e); } },
                        Err(_) => { bad += 1; if bad <= 5 { println!("INCONSISTENT kind=panic input={:?} split_at={}\n  panicked (victim {})", doc, k, v); } },
                    }
                }
            }
        }
        if bad == 0 { println!("CONSISTENT runs={runs}"); } else { println!("inconsistent={bad} runs={runs}"); }
        return;
    }
    let doc = unescape(&args[0]);
    let k: usize = args.get(1).and_then(|s| s.parse().ok()).unwrap_or(doc.len());
    let victim = args.get(2).and_then(|s| s.parse().ok());
    println!("{:?}", run(&doc, k, victim));
}
