//! xrt: XML round trip with the real xml5ever + rcdom: parse, serialize, parse again, compare the two trees
//! (names with prefix and namespace URI, attributes, text, comments, PIs).  `--selfcheck FILE` runs every line
//! of FILE (escapes \n \r \t \0 \\ \u{..}) and prints INCONSISTENT for each input whose round trip differs.
use markup5ever_rcdom::{Handle, NodeData, RcDom, SerializableHandle};
use xml5ever::driver::parse_document;
use xml5ever::serialize::serialize;
use xml5ever::tendril::TendrilSink;
fn dump(h: &Handle, depth: usize, out: &mut String) {
    let pad = "  ".repeat(depth);
    match &h.data {
        NodeData::Document => out.push_str("#document\n"),
        NodeData::Doctype { name, public_id, system_id } => out.push_str(&format!("{pad}<!DOCTYPE {name} {public_id:?} {system_id:?}>\n")),
        NodeData::Text { contents } => out.push_str(&format!("{pad}\"{}\"\n", contents.borrow().escape_default())),
        NodeData::Comment { contents } => out.push_str(&format!("{pad}<!-- {} -->\n", contents.escape_default())),
        NodeData::Element { name, attrs, .. } => {
            let q = |n: &markup5ever::QualName| format!("{}{{{}}}{}", match &n.prefix { Some(p) => format!("{}:", &**p), None => String::new() }, &*n.ns, &*n.local);
            let mut a: Vec<String> = attrs.borrow().iter().map(|a| format!("{}={:?}", q(&a.name), &*a.value)).collect();
            a.sort();
            out.push_str(&format!("{pad}<{}{}{}>\n", q(name), if a.is_empty() { "" } else { " " }, a.join(" ")));
        },
        NodeData::ProcessingInstruction { target, contents } => out.push_str(&format!("{pad}<?{target} {}>\n", contents.escape_default())),
    }
    for c in h.children.borrow().iter() { dump(c, depth + 1, out); }
}
fn unescape(s: &str) -> String {
    let mut out = String::new();
    let cs: Vec<char> = s.chars().collect();
    let mut i = 0;
    while i < cs.len() {
        if cs[i] == '\\' && i + 1 < cs.len() {
            match cs[i + 1] {
                'n' => { out.push('\n'); i += 2; },
                'r' => { out.push('\r'); i += 2; },
                't' => { out.push('\t'); i += 2; },
                '0' => { out.push('\0'); i += 2; },
                '\\' => { out.push('\\'); i += 2; },
                'u' => {
                    let j = cs[i..].iter().position(|&c| c == '}').unwrap() + i;
                    let hex: String = cs[i + 3..j].iter().collect();
                    out.push(char::from_u32(u32::from_str_radix(&hex, 16).unwrap()).unwrap());
                    i = j + 1;
                },
                _ => { out.push(cs[i]); i += 1; },
            }
        } else { out.push(cs[i]); i += 1; }
    }
    out
}
fn parse(s: &str) -> RcDom { parse_document(RcDom::default(), Default::default()).one(s) }
fn round(input: &str) -> (String, String, String) {
    let d1 = parse(input);
    let mut t1 = String::new();
    dump(&d1.document, 0, &mut t1);
    let mut bytes = vec![];
    let doc: SerializableHandle = d1.document.clone().into();
    serialize(&mut bytes, &doc, Default::default()).unwrap();
    let ser = String::from_utf8(bytes).unwrap();
    let d2 = parse(&ser);
    let mut t2 = String::new();
    dump(&d2.document, 0, &mut t2);
    (t1, ser, t2)
}
fn main() {
    let args: Vec<String> = std::env::args().skip(1).collect();
    if args.first().map(|s| s.as_str()) == Some("--selfcheck") {
        let text = std::fs::read_to_string(&args[1]).unwrap();
        let mut runs = 0;
        let mut bad = 0;
        for line in text.lines() {
            let input = unescape(line);
            let r = std::panic::catch_unwind(|| round(&input));
            runs += 1;
            match r {
                Ok((t1, ser, t2)) => if t1 != t2 {
                    bad += 1;
                    if bad <= 5 {
                        println!("INCONSISTENT kind=xml_round_trip input={:?}", input);
                        println!("  serialized: {:?}", ser);
                        for l in t1.lines() { println!("  tree1: {l}"); }
                        for l in t2.lines() { println!("  tree2: {l}"); }
                    }
                },
                Err(_) => { bad += 1; println!("INCONSISTENT kind=panic input={:?}\n  panicked", input); },
            }
        }
        if bad == 0 { println!("CONSISTENT runs={runs}"); } else { println!("inconsistent={bad} runs={runs}"); }
        return;
    }
    let input = unescape(&args[0]);
    let (t1, ser, t2) = round(&input);
    println!("serialized: {ser:?}");
    print!("{t1}");
    if t1 != t2 { println!("ROUND TRIP DIFFERS:"); print!("{t2}"); } else { println!("round trip ok"); }
}
