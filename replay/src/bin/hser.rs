//! hser: serialize a text node (and an attribute) containing the given string with the real html5ever serializer.
//! `--selfcheck FILE`: every line of FILE (escapes \n \r \t \0 \\ \u{..}) is serialized as the text of a <p> element, as the value
//! of an attribute, and as the text of a <style> element, and compared with the escaping the WHATWG serialization algorithm
//! prescribes ("escaping a string": & -> &amp;, U+00A0 -> &nbsp;, in attribute mode " -> &quot;, otherwise < -> &lt; > -> &gt;;
//! raw-text elements: verbatim); prints INCONSISTENT for each difference.
use html5ever::serialize::{HtmlSerializer, SerializeOpts, Serializer, TraversalScope};
use html5ever::{ns, namespace_url, LocalName, QualName};
fn unescape(s: &str) -> String {
    let mut out = String::new();
    let cs: Vec<char> = s.chars().collect();
    let mut i = 0;
    while i < cs.len() {
        if cs[i] == '\\' && i + 1 < cs.len() {
            match cs[i + 1] {
                'n' => { out.push('\n'); i += 2; },
                'r' => { out.push('\r'); i += 2; },
                't' => { out.push('\t'); i += 2; },
                '0' => { out.push('\0'); i += 2; },
                '\\' => { out.push('\\'); i += 2; },
                'u' => {
                    let j = cs[i..].iter().position(|&c| c == '}').unwrap() + i;
                    let hex: String = cs[i + 3..j].iter().collect();
                    out.push(char::from_u32(u32::from_str_radix(&hex, 16).unwrap()).unwrap());
                    i = j + 1;
                },
                _ => { out.push(cs[i]); i += 1; },
            }
        } else { out.push(cs[i]); i += 1; }
    }
    out
}
/// "escaping a string" of the WHATWG serialization algorithm, written independently of the code under test
fn oracle(s: &str, attr: bool) -> String {
    let mut o = String::new();
    for c in s.chars() {
        match c {
            '&' => o.push_str("&amp;"),
            '\u{a0}' => o.push_str("&nbsp;"),
            '"' if attr => o.push_str("&quot;"),
            '<' => o.push_str("&lt;"),
            '>' => o.push_str("&gt;"),
            c => o.push(c),
        }
    }
    o
}
fn ser_in(elem: &str, text: &str) -> String {
    let mut out = Vec::new();
    {
        let mut ser = HtmlSerializer::new(&mut out, SerializeOpts { traversal_scope: TraversalScope::IncludeNode, ..Default::default() });
        let name = QualName::new(None, ns!(html), LocalName::from(elem));
        let an = QualName::new(None, ns!(), LocalName::from("t"));
        ser.start_elem(name.clone(), vec![(&an, text)].into_iter()).unwrap();
        ser.write_text(text).unwrap();
        ser.end_elem(name).unwrap();
    }
    String::from_utf8_lossy(&out).into_owned()
}
fn main() {
    let args: Vec<String> = std::env::args().skip(1).collect();
    if args.first().map(|s| s.as_str()) == Some("--selfcheck") {
        let text = std::fs::read_to_string(&args[1]).unwrap();
        let (mut runs, mut bad) = (0, 0);
        for line in text.lines() {
            let input = unescape(line);
            runs += 1;
            let r = std::panic::catch_unwind(|| (ser_in("p", &input), ser_in("style", &input)));
            match r {
                Ok((p, st)) => {
                    let want_p = format!("<p t=\"{}\">{}</p>", oracle(&input, true), oracle(&input, false));
                    let want_st = format!("<style t=\"{}\">{}</style>", oracle(&input, true), input);
                    if p != want_p || st != want_st {
                        bad += 1;
                        if bad <= 5 {
                            println!("INCONSISTENT kind=html_escape input={:?}", input);
                            println!("  serialized: {:?} / {:?}", p, st);
                            println!("  prescribed: {:?} / {:?}", want_p, want_st);
                        }
                    }
                },
                Err(_) => { bad += 1; println!("INCONSISTENT kind=panic input={:?}\n  panicked", input); },
            }
        }
        if bad == 0 { println!("CONSISTENT runs={runs}"); } else { println!("inconsistent={bad} runs={runs}"); }
        return;
    }
    let text = &args[0];
    let mut out = Vec::new();
    {
        let mut ser = HtmlSerializer::new(&mut out, SerializeOpts { traversal_scope: TraversalScope::IncludeNode, ..Default::default() });
        let name = QualName::new(None, ns!(html), LocalName::from("p"));
        let an = QualName::new(None, ns!(), LocalName::from("t"));
        ser.start_elem(name.clone(), vec![(&an, &text[..])].into_iter()).unwrap();
        ser.write_text(text).unwrap();
        ser.end_elem(name).unwrap();
    }
    println!("{:?}", String::from_utf8_lossy(&out));
    // children of <svg:style> serialized on their own (ChildrenOnly(Some(name))) vs. inside the element
    let svg_style = QualName::new(None, ns!(svg), LocalName::from("style"));
    let mut inner = Vec::new();
    {
        let mut ser = HtmlSerializer::new(&mut inner, SerializeOpts { traversal_scope: TraversalScope::ChildrenOnly(Some(svg_style.clone())), ..Default::default() });
        ser.write_text(text).unwrap();
    }
    let mut outer = Vec::new();
    {
        let mut ser = HtmlSerializer::new(&mut outer, SerializeOpts { traversal_scope: TraversalScope::IncludeNode, ..Default::default() });
        ser.start_elem(svg_style.clone(), vec![].into_iter()).unwrap();
        ser.write_text(text).unwrap();
        ser.end_elem(svg_style).unwrap();
    }
    println!("svg:style inner={:?} outer={:?}", String::from_utf8_lossy(&inner), String::from_utf8_lossy(&outer));
    println!("{:x?}", out);
}
