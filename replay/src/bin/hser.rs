//! hser: serialize a text node (and an attribute) containing the given string with the real html5ever serializer
use html5ever::serialize::{HtmlSerializer, SerializeOpts, Serializer, TraversalScope};
use html5ever::{ns, namespace_url, LocalName, QualName};
fn main() {
    let args: Vec<String> = std::env::args().skip(1).collect();
    let text = &args[0];
    let mut out = Vec::new();
    {
        let mut ser = HtmlSerializer::new(&mut out, SerializeOpts { traversal_scope: TraversalScope::IncludeNode, ..Default::default() });
        let name = QualName::new(None, ns!(html), LocalName::from("p"));
        let an = QualName::new(None, ns!(), LocalName::from("t"));
        ser.start_elem(name.clone(), vec![(&an, &text[..])].into_iter()).unwrap();
        ser.write_text(text).unwrap();
        ser.end_elem(name).unwrap();
    }
    println!("{:?}", String::from_utf8_lossy(&out));
    // children of <svg:style> serialized on their own (ChildrenOnly(Some(name))) vs. inside the element
    let svg_style = QualName::new(None, ns!(svg), LocalName::from("style"));
    let mut inner = Vec::new();
    {
        let mut ser = HtmlSerializer::new(&mut inner, SerializeOpts { traversal_scope: TraversalScope::ChildrenOnly(Some(svg_style.clone())), ..Default::default() });
        ser.write_text(text).unwrap();
    }
    let mut outer = Vec::new();
    {
        let mut ser = HtmlSerializer::new(&mut outer, SerializeOpts { traversal_scope: TraversalScope::IncludeNode, ..Default::default() });
        ser.start_elem(svg_style.clone(), vec![].into_iter()).unwrap();
        ser.write_text(text).unwrap();
        ser.end_elem(svg_style).unwrap();
    }
    println!("svg:style inner={:?} outer={:?}", String::from_utf8_lossy(&inner), String::from_utf8_lossy(&outer));
    println!("{:x?}", out);
}
