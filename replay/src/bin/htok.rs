//! htok: run the real html5ever tokenizer on chunked input and print the tokens with line numbers.
//! usage: htok [--exact] [--no-bom] [--raw rcdata|rawtext|script|plaintext] [--last NAME] CHUNK...
//! chunks use \n \r \0 \t \\ \u{XXXX} escapes.
use html5ever::tendril::StrTendril;
use html5ever::tokenizer::states::{self, RawKind};
use html5ever::tokenizer::{BufferQueue, Token, TokenSink, TokenSinkResult, Tokenizer, TokenizerOpts};
use std::cell::RefCell;

struct Sink {
    out: RefCell<Vec<String>>,
    text: RefCell<String>,
}
impl Sink {
    fn flush(&self) {
        let mut t = self.text.borrow_mut();
        if !t.is_empty() {
            self.out.borrow_mut().push(format!("Chars({:?})", *t));
            t.clear();
        }
    }
}
impl TokenSink for Sink {
    type Handle = ();
    fn process_token(&self, token: Token, line: u64) -> TokenSinkResult<()> {
        match token {
            Token::CharacterTokens(b) => self.text.borrow_mut().push_str(&b),
            Token::ParseError(_) => {},
            Token::NullCharacterToken => { self.flush(); self.out.borrow_mut().push(format!("Null@{line}")); },
            Token::TagToken(t) => {
                self.flush();
                let attrs: Vec<String> = t.attrs.iter().map(|a| format!("{}={:?}", a.name.local, &*a.value)).collect();
                self.out.borrow_mut().push(format!("{:?}({} {:?} sc={} dup={})@{line}", t.kind, t.name, attrs, t.self_closing, t.had_duplicate_attributes));
            },
            Token::CommentToken(c) => { self.flush(); self.out.borrow_mut().push(format!("Comment({:?})@{line}", &*c)); },
            Token::DoctypeToken(d) => { self.flush(); self.out.borrow_mut().push(format!("Doctype({:?},{:?},{:?},{})@{line}", d.name.as_deref(), d.public_id.as_deref(), d.system_id.as_deref(), d.force_quirks)); },
            Token::EOFToken => { self.flush(); self.out.borrow_mut().push(format!("EOF@{line}")); },
        }
        TokenSinkResult::Continue
    }
}

fn unescape(s: &str) -> String {
    let mut out = String::new();
    let mut it = s.chars().peekable();
    while let Some(c) = it.next() {
        if c != '\\' { out.push(c); continue; }
        match it.next() {
            Some('n') => out.push('\n'), Some('r') => out.push('\r'), Some('0') => out.push('\0'),
            Some('t') => out.push('\t'), Some('\\') => out.push('\\'),
            Some('u') => {
                let mut h = String::new();
                it.next();
                while let Some(&d) = it.peek() { it.next(); if d == '}' { break; } h.push(d); }
                out.push(char::from_u32(u32::from_str_radix(&h, 16).unwrap()).unwrap());
            },
            Some(o) => { out.push('\\'); out.push(o); },
            None => out.push('\\'),
        }
    }
    out
}

fn main() {
    let mut opts = TokenizerOpts::default();
    let mut chunks = vec![];
    let mut args = std::env::args().skip(1);
    while let Some(a) = args.next() {
        match a.as_str() {
            "--exact" => opts.exact_errors = true,
            "--no-bom" => opts.discard_bom = false,
            "--raw" => {
                opts.initial_state = Some(match args.next().unwrap().as_str() {
                    "rcdata" => states::RawData(RawKind::Rcdata),
                    "rawtext" => states::RawData(RawKind::Rawtext),
                    "script" => states::RawData(RawKind::ScriptData),
                    "plaintext" => states::Plaintext,
                    _ => panic!("bad --raw"),
                })
            },
            "--last" => opts.last_start_tag_name = Some(args.next().unwrap()),
            _ => chunks.push(unescape(&a)),
        }
    }
    let sink = Sink { out: RefCell::new(vec![]), text: RefCell::new(String::new()) };
    let tok = Tokenizer::new(sink, opts);
    let q = BufferQueue::default();
    for c in chunks {
        q.push_back(StrTendril::from_slice(&c));
        let _ = tok.feed(&q);
    }
    tok.end();
    for l in tok.sink.out.borrow().iter() { println!("{l}"); }
}
