//! htok: run the real html5ever tokenizer on chunked input and print the tokens with line numbers.
//! usage: htok [--exact] [--no-bom] [--raw rcdata|rawtext|script|plaintext] [--last NAME] CHUNK...
//! chunks use \n \r \0 \t \\ \u{XXXX} escapes.
use html5ever::tendril::StrTendril;
use html5ever::tokenizer::states::{self, RawKind};
use html5ever::tokenizer::{BufferQueue, Token, TokenSink, TokenSinkResult, Tokenizer, TokenizerOpts};
use std::cell::RefCell;

struct Sink {
    out: RefCell<Vec<String>>,
    text: RefCell<String>,
}
impl Sink {
    fn flush(&self) {
        let mut t = self.text.borrow_mut();
        if !t.is_empty() {
            self.out.borrow_mut().push(format!("Chars({:?})", *t));
            t.clear();
        }
    }
}
impl TokenSink for Sink {
    type Handle = ();
    fn process_token(&self, token: Token, line: u64) -> TokenSinkResult<()> {
        match token {
            Token::CharacterTokens(b) => self.text.borrow_mut().push_str(&b),
            Token::ParseError(_) => {},
            Token::NullCharacterToken => { self.flush(); self.out.borrow_mut().push(format!("Null@{line}")); },
            Token::TagToken(t) => {
                self.flush();
                let attrs: Vec<String> = t.attrs.iter().map(|a| format!("{}={:?}", a.name.local, &*a.value)).collect();
                self.out.borrow_mut().push(format!("{:?}({} {:?} sc={} dup={})@{line}", t.kind, t.name, attrs, t.self_closing, t.had_duplicate_attributes));
            },
            Token::CommentToken(c) => { self.flush(); self.out.borrow_mut().push(format!("Comment({:?})@{line}", &*c)); },
            Token::DoctypeToken(d) => { self.flush(); self.out.borrow_mut().push(format!("Doctype({:?},{:?},{:?},{})@{line}", d.name.as_deref(), d.public_id.as_deref(), d.system_id.as_deref(), d.force_quirks)); },
            Token::EOFToken => { self.flush(); self.out.borrow_mut().push(format!("EOF@{line}")); },
        }
        TokenSinkResult::Continue
    }
}

fn unescape(s: &str) -> String {
    let mut out = String::new();
    let mut it = s.chars().peekable();
    while let Some(c) = it.next() {
        if c != '\\' { out.push(c); continue; }
        match it.next() {
            Some('n') => out.push('\n'), Some('r') => out.push('\r'), Some('0') => out.push('\0'),
            Some('t') => out.push('\t'), Some('\\') => out.push('\\'),
            Some('u') => {
                let mut h = String::new();
                it.next();
                while let Some(&d) = it.peek() { it.next(); if d == '}' { break; } h.push(d); }
                out.push(char::from_u32(u32::from_str_radix(&h, 16).unwrap()).unwrap());
            },
            Some(o) => { out.push('\\'); out.push(o); },
            None => out.push('\\'),
        }
    }
    out
}

fn tokenize(chunks: &[String], exact: bool, raw: Option<&str>, last: Option<&str>) -> Vec<String> {
    let mut opts = TokenizerOpts::default();
    opts.exact_errors = exact;
    if let Some(r) = raw {
        opts.initial_state = Some(match r {
            "rcdata" => states::RawData(RawKind::Rcdata),
            "rawtext" => states::RawData(RawKind::Rawtext),
            "script" => states::RawData(RawKind::ScriptData),
            "plaintext" => states::Plaintext,
            _ => states::Data,
        });
    }
    opts.last_start_tag_name = last.map(|s| s.to_string());
    let sink = Sink { out: RefCell::new(vec![]), text: RefCell::new(String::new()) };
    let tok = Tokenizer::new(sink, opts);
    let q = BufferQueue::default();
    for c in chunks {
        q.push_back(StrTendril::from_slice(c));
        let _ = tok.feed(&q);
    }
    tok.end();
    let v = tok.sink.out.borrow().clone();
    v
}

/// self-consistency sweep: every input (one escaped string per line, optional `raw=<kind>;last=<name>;` prefix)
/// must tokenize identically (tokens and line numbers) whole, in every 2-chunking, and with exact_errors on.
fn selfcheck(path: &str) {
    let text = std::fs::read_to_string(path).unwrap();
    let mut n = 0usize;
    for line in text.lines() {
        if line.is_empty() { continue; }
        let mut raw: Option<String> = None;
        let mut last: Option<String> = None;
        let mut body = line;
        while let Some(idx) = body.find(';') {
            let (k, rest) = body.split_at(idx);
            if let Some(v) = k.strip_prefix("raw=") { raw = Some(v.to_string()); body = &rest[1..]; }
            else if let Some(v) = k.strip_prefix("last=") { last = Some(v.to_string()); body = &rest[1..]; }
            else { break; }
        }
        let input = unescape(body);
        let base = tokenize(&[input.clone()], false, raw.as_deref(), last.as_deref());
        n += 1;
        let ex = tokenize(&[input.clone()], true, raw.as_deref(), last.as_deref());
        if ex != base {
            println!("INCONSISTENT kind=exact_errors input={:?} raw={:?} last={:?}\n  default: {:?}\n  exact:   {:?}", input, raw, last, base, ex);
            return;
        }
        let idxs: Vec<usize> = input.char_indices().map(|(i, _)| i).skip(1).collect();
        for &i in &idxs {
            let ch = tokenize(&[input[..i].to_string(), input[i..].to_string()], false, raw.as_deref(), last.as_deref());
            n += 1;
            if ch != base {
                println!("INCONSISTENT kind=chunking input={:?} split_at={} raw={:?} last={:?}\n  whole:   {:?}\n  chunked: {:?}", input, i, raw, last, base, ch);
                return;
            }
            // line number of EOF must be 1 + number of line breaks
        }
        let mut lb = 0u64;
        let cs: Vec<char> = input.chars().collect();
        let mut k = 0;
        while k < cs.len() {
            if cs[k] == '\r' { lb += 1; if k + 1 < cs.len() && cs[k + 1] == '\n' { k += 1; } }
            else if cs[k] == '\n' { lb += 1; }
            k += 1;
        }
        let want = format!("EOF@{}", lb + 1);
        if base.last().map(|s| s.as_str()) != Some(want.as_str()) {
            println!("INCONSISTENT kind=eof_line input={:?} raw={:?} last={:?}\n  tokens: {:?}\n  expected last token {}", input, raw, last, base, want);
            return;
        }
    }
    println!("CONSISTENT runs={}", n);
}

fn main() {
    let a: Vec<String> = std::env::args().collect();
    if a.len() == 3 && a[1] == "--selfcheck" { selfcheck(&a[2]); return; }
    let mut opts = TokenizerOpts::default();
    let mut chunks = vec![];
    let mut args = std::env::args().skip(1);
    while let Some(a) = args.next() {
        match a.as_str() {
            "--exact" => opts.exact_errors = true,
            "--no-bom" => opts.discard_bom = false,
            "--raw" => {
                opts.initial_state = Some(match args.next().unwrap().as_str() {
                    "rcdata" => states::RawData(RawKind::Rcdata),
                    "rawtext" => states::RawData(RawKind::Rawtext),
                    "script" => states::RawData(RawKind::ScriptData),
                    "plaintext" => states::Plaintext,
                    _ => panic!("bad --raw"),
                })
            },
            "--last" => opts.last_start_tag_name = Some(args.next().unwrap()),
            _ => chunks.push(unescape(&a)),
        }
    }
    let sink = Sink { out: RefCell::new(vec![]), text: RefCell::new(String::new()) };
    let tok = Tokenizer::new(sink, opts);
    let q = BufferQueue::default();
    for c in chunks {
        q.push_back(StrTendril::from_slice(&c));
        let _ = tok.feed(&q);
    }
    tok.end();
    for l in tok.sink.out.borrow().iter() { println!("{l}"); }
}
