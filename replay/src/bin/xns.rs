//! xns: parse an XML document with the real xml5ever + rcdom and print, in document order, every element as
//! `{namespace}prefix:local` followed by its attributes (sorted) in the same form - one element per line.
//! `--selfcheck FILE`: every line is `EXPECTED<TAB>DOCUMENT` (escapes \n \r \t \0 \\ \u{..}); EXPECTED is the dump with `|` between
//! elements, as Namespaces in XML (and XML5's "an end tag closes every element up to the matching one") prescribe; prints INCONSISTENT
//! where the real parser's names differ.
use markup5ever_rcdom::{Handle, NodeData, RcDom};
use xml5ever::driver::parse_document;
use xml5ever::tendril::TendrilSink;
fn q(n: &markup5ever::QualName) -> String {
    format!("{{{}}}{}{}", &*n.ns, match &n.prefix { Some(p) => format!("{}:", &**p), None => String::new() }, &*n.local)
}
fn dump(h: &Handle, out: &mut Vec<String>) {
    if let NodeData::Element { name, attrs, .. } = &h.data {
        let mut a: Vec<String> = attrs.borrow().iter().map(|a| q(&a.name)).collect();
        a.sort();
        out.push(if a.is_empty() { q(name) } else { format!("{} {}", q(name), a.join(" ")) });
    }
    for c in h.children.borrow().iter() { dump(c, out); }
}
fn unescape(s: &str) -> String {
    let mut out = String::new();
    let cs: Vec<char> = s.chars().collect();
    let mut i = 0;
    while i < cs.len() {
        if cs[i] == '\\' && i + 1 < cs.len() {
            match cs[i + 1] {
                'n' => { out.push('\n'); i += 2; },
                'r' => { out.push('\r'); i += 2; },
                't' => { out.push('\t'); i += 2; },
                '0' => { out.push('\0'); i += 2; },
                '\\' => { out.push('\\'); i += 2; },
                'u' => {
                    let j = cs[i..].iter().position(|&c| c == '}').unwrap() + i;
                    let hex: String = cs[i + 3..j].iter().collect();
                    out.push(char::from_u32(u32::from_str_radix(&hex, 16).unwrap()).unwrap());
                    i = j + 1;
                },
                _ => { out.push(cs[i]); i += 1; },
            }
        } else { out.push(cs[i]); i += 1; }
    }
    out
}
fn names(doc: &str) -> String {
    let dom: RcDom = parse_document(RcDom::default(), Default::default()).one(doc);
    let mut out = Vec::new();
    dump(&dom.document, &mut out);
    out.join("|")
}
fn main() {
    let args: Vec<String> = std::env::args().skip(1).collect();
    if args.first().map(|s| s.as_str()) == Some("--selfcheck") {
        let text = std::fs::read_to_string(&args[1]).unwrap();
        let (mut runs, mut bad) = (0usize, 0usize);
        for line in text.lines() {
            let Some((want, doc)) = line.split_once('\t') else { continue };
            let doc = unescape(doc);
            runs += 1;
            match std::panic::catch_unwind(|| names(&doc)) {
                Ok(got) => if got != want {
                    bad += 1;
                    if bad <= 5 { println!("INCONSISTENT kind=xml_names input={:?}\n  prescribed: {}\n  parsed:     {}", doc, want, got); }
                },
                Err(_) => { bad += 1; println!("INCONSISTENT kind=panic input={:?}\n  panicked", doc); },
            }
        }
        if bad == 0 { println!("CONSISTENT runs={runs}"); } else { println!("inconsistent={bad} runs={runs}"); }
        return;
    }
    println!("{}", names(&unescape(&args[0])));
}
