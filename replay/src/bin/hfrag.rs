//! hfrag: parse an HTML fragment (context element = html:<name>) with the real html5ever + rcdom and print the tree
use html5ever::tendril::TendrilSink;
use html5ever::{ns, namespace_url, parse_fragment, LocalName, ParseOpts, QualName};
use markup5ever_rcdom::{Handle, NodeData, RcDom};
fn dump(h: &Handle, depth: usize, out: &mut String) {
    let pad = "  ".repeat(depth);
    match &h.data {
        NodeData::Document => out.push_str("#document\n"),
        NodeData::Doctype { name, .. } => out.push_str(&format!("{pad}<!DOCTYPE {name}>\n")),
        NodeData::Text { contents } => out.push_str(&format!("{pad}\"{}\"\n", contents.borrow().escape_default())),
        NodeData::Comment { contents } => out.push_str(&format!("{pad}<!-- {} -->\n", contents.escape_default())),
        NodeData::Element { name, .. } => out.push_str(&format!("{pad}<{}>\n", name.local)),
        NodeData::ProcessingInstruction { target, .. } => out.push_str(&format!("{pad}<?{target}>\n")),
    }
    for c in h.children.borrow().iter() { dump(c, depth + 1, out); }
}
fn main() {
    let ctx = std::env::args().nth(1).unwrap();
    let input = std::env::args().nth(2).unwrap();
    let dom: RcDom = parse_fragment(RcDom::default(), ParseOpts::default(), QualName::new(None, ns!(html), LocalName::from(&*ctx)), vec![], false).one(input);
    let mut out = String::new();
    dump(&dom.document, 0, &mut out);
    print!("{out}");
}
