//! hparse: parse an HTML document with the real html5ever + rcdom and print the tree (one node per line)
use html5ever::tendril::TendrilSink;
use html5ever::{parse_document, ParseOpts};
use markup5ever_rcdom::{Handle, NodeData, RcDom};
fn dump(h: &Handle, depth: usize, out: &mut String) {
    let pad = "  ".repeat(depth);
    match &h.data {
        NodeData::Document => out.push_str("#document\n"),
        NodeData::Doctype { name, .. } => out.push_str(&format!("{pad}<!DOCTYPE {name}>\n")),
        NodeData::Text { contents } => out.push_str(&format!("{pad}\"{}\"\n", contents.borrow().escape_default())),
        NodeData::Comment { contents } => out.push_str(&format!("{pad}<!-- {} -->\n", contents.escape_default())),
        NodeData::Element { name, attrs, .. } => {
            let ns = match &*name.ns { "http://www.w3.org/1999/xhtml" => "", "http://www.w3.org/2000/svg" => "svg ", "http://www.w3.org/1998/Math/MathML" => "math ", o => o };
            let a: Vec<String> = attrs.borrow().iter().map(|a| format!("{}{}={:?}", match &a.name.prefix { Some(p) => format!("[prefix={:?}]", &**p), None => String::new() }, a.name.local, &*a.value)).collect();
            out.push_str(&format!("{pad}<{ns}{}{}{}>\n", name.local, if a.is_empty() { "" } else { " " }, a.join(" ")));
        },
        NodeData::ProcessingInstruction { target, .. } => out.push_str(&format!("{pad}<?{target}>\n")),
    }
    for c in h.children.borrow().iter() { dump(c, depth + 1, out); }
}
fn main() {
    let input = std::env::args().nth(1).unwrap();
    let dom: RcDom = parse_document(RcDom::default(), ParseOpts::default()).one(input);
    let mut out = String::new();
    dump(&dom.document, 0, &mut out);
    print!("{out}");
}
