//! henc: feed an HTML document to the real html5ever tokenizer + tree builder (RcDom sink) and print every
//! EncodingIndicator that feed() suspends with.  `--selfcheck FILE`: for every line `EXPECT<TAB>DOC`, where EXPECT is
//! the comma-separated list of labels the WHATWG rules prescribe ("-" for none), compare, in one chunk and in every
//! two-chunk split; print INCONSISTENT for each difference.  (BOUNDED stand-in for the tree-builder part of C19.)
use html5ever::tendril::StrTendril;
use html5ever::tokenizer::{BufferQueue, Tokenizer, TokenizerOpts};
use markup5ever::TokenizerResult;
use html5ever::tree_builder::{TreeBuilder, TreeBuilderOpts};
use markup5ever_rcdom::RcDom;
fn run(chunks: &[&str]) -> Vec<String> {
    let tb = TreeBuilder::new(RcDom::default(), TreeBuilderOpts::default());
    let tok = Tokenizer::new(tb, TokenizerOpts::default());
    let input = BufferQueue::default();
    let mut out = vec![];
    for c in chunks {
        if c.is_empty() { continue; }
        input.push_back(StrTendril::from_slice(c));
        loop {
            match tok.feed(&input) {
                TokenizerResult::Done => break,
                TokenizerResult::Script(_) => {},
                TokenizerResult::EncodingIndicator(e) => out.push(e.to_string()),
            }
        }
    }
    tok.end();
    out
}
fn main() {
    let args: Vec<String> = std::env::args().skip(1).collect();
    if args.first().map(|s| s.as_str()) == Some("--selfcheck") {
        let text = std::fs::read_to_string(&args[1]).unwrap();
        let (mut runs, mut bad) = (0, 0);
        for line in text.lines() {
            let Some((expect, doc)) = line.split_once('\t') else { continue };
            let want: Vec<String> = if expect == "-" { vec![] } else { expect.split(',').map(|s| s.to_string()).collect() };
            let mut splits: Vec<Option<usize>> = vec![None];
            splits.extend(doc.char_indices().skip(1).map(|(i, _)| Some(i)));
            for sp in splits {
                let got = match sp { None => run(&[doc]), Some(i) => run(&[&doc[..i], &doc[i..]]) };
                runs += 1;
                if got != want {
                    bad += 1;
                    if bad <= 5 {
                        println!("INCONSISTENT kind=encoding_indicator input={:?}{}", doc, match sp { Some(i) => format!(" split_at={i}"), None => String::new() });
                        println!("  prescribed: {:?}", want);
                        println!("  raised:     {:?}", got);
                    }
                }
            }
        }
        if bad == 0 { println!("CONSISTENT runs={runs}"); } else { println!("inconsistent={bad} runs={runs}"); }
        return;
    }
    let chunks: Vec<&str> = args.iter().map(|s| s.as_str()).collect();
    println!("{:?}", run(&chunks));
}
