//! xtok: run the real xml5ever tokenizer on chunked input and print the tokens; `--selfcheck FILE` compares
//! whole / chunked / exact_errors tokenizations of every input of the file.
use xml5ever::tendril::StrTendril;
use xml5ever::tokenizer::{ProcessResult, Token, TokenSink, XmlTokenizer, XmlTokenizerOpts};
use markup5ever::buffer_queue::BufferQueue;
use std::cell::RefCell;

struct Sink { out: RefCell<Vec<String>>, text: RefCell<String> }
impl Sink {
    fn flush(&self) { let mut t = self.text.borrow_mut(); if !t.is_empty() { self.out.borrow_mut().push(format!("Chars({:?})", *t)); t.clear(); } }
}
impl TokenSink for Sink {
    type Handle = ();
    fn process_token(&self, token: Token) -> ProcessResult<()> {
        match token {
            Token::Characters(b) => self.text.borrow_mut().push_str(&b),
            Token::ParseError(_) => {},
            Token::NullCharacter => { self.flush(); self.out.borrow_mut().push("Null".into()); },
            Token::Tag(t) => { self.flush();
                let attrs: Vec<String> = t.attrs.iter().map(|a| format!("{:?}:{}={:?}", a.name.prefix.as_ref().map(|p| p.to_string()), a.name.local, &*a.value)).collect();
                self.out.borrow_mut().push(format!("{:?}({:?}:{} {:?})", t.kind, t.name.prefix.as_ref().map(|p| p.to_string()), t.name.local, attrs)); },
            Token::Comment(c) => { self.flush(); self.out.borrow_mut().push(format!("Comment({:?})", &*c)); },
            Token::ProcessingInstruction(p) => { self.flush(); self.out.borrow_mut().push(format!("Pi({:?},{:?})", &*p.target, &*p.data)); },
            Token::Doctype(d) => { self.flush(); self.out.borrow_mut().push(format!("Doctype({:?},{:?},{:?})", d.name.as_deref(), d.public_id.as_deref(), d.system_id.as_deref())); },
            Token::EndOfFile => { self.flush(); self.out.borrow_mut().push("EOF".into()); },
        }
        ProcessResult::Continue
    }
}
fn unescape(s: &str) -> String {
    let mut out = String::new(); let mut it = s.chars().peekable();
    while let Some(c) = it.next() {
        if c != '\\' { out.push(c); continue; }
        match it.next() {
            Some('n') => out.push('\n'), Some('r') => out.push('\r'), Some('0') => out.push('\0'), Some('t') => out.push('\t'), Some('\\') => out.push('\\'),
            Some('u') => { let mut h = String::new(); it.next(); while let Some(&d) = it.peek() { it.next(); if d == '}' { break; } h.push(d); }
                out.push(char::from_u32(u32::from_str_radix(&h, 16).unwrap()).unwrap()); },
            Some(o) => { out.push('\\'); out.push(o); }, None => out.push('\\'),
        }
    }
    out
}
fn tokenize(chunks: &[String], exact: bool) -> Vec<String> {
    let mut opts = XmlTokenizerOpts::default(); opts.exact_errors = exact;
    let tok = XmlTokenizer::new(Sink { out: RefCell::new(vec![]), text: RefCell::new(String::new()) }, opts);
    let q = BufferQueue::default();
    for c in chunks { q.push_back(StrTendril::from_slice(c)); let _ = tok.feed(&q); }
    tok.end();
    let v = tok.sink.out.borrow().clone(); v
}
fn selfcheck(path: &str) {
    let text = std::fs::read_to_string(path).unwrap(); let mut n = 0usize;
    for line in text.lines() {
        if line.is_empty() { continue; }
        let input = unescape(line);
        let base = tokenize(&[input.clone()], false); n += 1;
        let ex = tokenize(&[input.clone()], true);
        if ex != base { println!("INCONSISTENT kind=exact_errors input={:?}\n  default: {:?}\n  exact:   {:?}", input, base, ex); return; }
        for (i, _) in input.char_indices().skip(1) {
            let ch = tokenize(&[input[..i].to_string(), input[i..].to_string()], false); n += 1;
            if ch != base { println!("INCONSISTENT kind=chunking input={:?} split_at={}\n  whole:   {:?}\n  chunked: {:?}", input, i, base, ch); return; }
        }
        // CR / CRLF normalisation: the same input with every CRLF and lone CR replaced by LF must tokenize identically
        let norm = input.replace("\r\n", "\n").replace('\r', "\n");
        if norm != input {
            let nb = tokenize(&[norm.clone()], false); n += 1;
            if nb != base { println!("INCONSISTENT kind=newline_normalisation input={:?}\n  as is:      {:?}\n  LF only:    {:?}", input, base, nb); return; }
        }
    }
    println!("CONSISTENT runs={}", n);
}
fn main() {
    let a: Vec<String> = std::env::args().collect();
    if a.len() == 3 && a[1] == "--selfcheck" { selfcheck(&a[2]); return; }
    let mut exact = false; let mut chunks = vec![];
    for x in a.iter().skip(1) { if x == "--exact" { exact = true } else { chunks.push(unescape(x)) } }
    for l in tokenize(&chunks, exact) { println!("{l}"); }
}
