//! bqcheck: BOUNDED stand-in for unit U-bq (used only when Verus cannot accept the extracted BufferQueue code):
//! exhaustively compares the real markup5ever BufferQueue with the flat-string model of property C13 over
//! every queue of <= 3 buffers with <= 4 characters in total over the alphabet {a, B, -, é, U+2026}, every operation
//! in {next, peek, pop_except_from({-,&}), eat(p, exact), eat(p, ignore-case)} and every pattern in PATS,
//! followed by a drain of the queue (so lost / duplicated / reordered characters are seen).
use markup5ever::buffer_queue::{BufferQueue, SetResult};
use markup5ever::small_char_set;
use markup5ever::tendril::StrTendril;

// '\u{2026}' has the low byte 0x26 = '&': a character outside the set that a byte-truncating membership test would take for a member
const ALPHA: [char; 5] = ['a', 'B', '-', 'é', '\u{2026}'];
const PATS: [&str; 6] = ["a", "ab", "a-", "--", "ba", "abab"];

fn mk(bufs: &[String]) -> BufferQueue {
    let q = BufferQueue::default();
    for b in bufs { q.push_back(StrTendril::from_slice(b)); }
    q
}
fn drain(q: &BufferQueue) -> String { let mut s = String::new(); while let Some(c) = q.next() { s.push(c); } s }
fn model_eat(flat: &str, pat: &str, ci: bool) -> Option<bool> {
    let f = flat.as_bytes(); let p = pat.as_bytes();
    for i in 0..p.len() {
        if i >= f.len() { return None; }
        let ok = if ci { f[i].eq_ignore_ascii_case(&p[i]) } else { f[i] == p[i] };
        if !ok { return Some(false); }
    }
    Some(true)
}
fn fail(msg: String) -> ! { println!("MISMATCH {msg}"); std::process::exit(1); }

fn check(bufs: &[String]) -> usize {
    let flat: String = bufs.concat();
    let mut n = 0;
    // next / peek
    { let q = mk(bufs); let p = q.peek(); let want = flat.chars().next();
      if p != want { fail(format!("op=peek buffers={bufs:?} got={p:?} want={want:?}")); }
      let c = q.next(); if c != want { fail(format!("op=next buffers={bufs:?} got={c:?} want={want:?}")); }
      let rest = drain(&q); let wr: String = flat.chars().skip(1).collect();
      if rest != wr { fail(format!("op=next buffers={bufs:?} rest={rest:?} want={wr:?}")); } n += 1; }
    // pop_except_from
    { let q = mk(bufs); let set = small_char_set!('-' '&');
      let r = q.pop_except_from(set);
      let is_m = |c: char| c == '-' || c == '&';
      match (&r, flat.chars().next()) {
        (None, None) => {},
        (Some(SetResult::FromSet(c)), Some(f)) => { if *c != f || !is_m(f) { fail(format!("op=pop_except_from buffers={bufs:?} got=FromSet({c:?})")); } },
        (Some(SetResult::NotFromSet(t)), Some(_)) => {
            let first: &str = bufs.iter().find(|b| !b.is_empty()).unwrap();
            let run: String = first.chars().take_while(|c| !is_m(*c)).collect();
            if &**t != run || run.is_empty() { fail(format!("op=pop_except_from buffers={bufs:?} got=NotFromSet({:?}) want={run:?}", &**t)); }
        },
        _ => fail(format!("op=pop_except_from buffers={bufs:?} got={r:?}")),
      }
      let consumed = match &r { None => 0, Some(SetResult::FromSet(_)) => 1, Some(SetResult::NotFromSet(t)) => t.chars().count() };
      let rest = drain(&q); let wr: String = flat.chars().skip(consumed).collect();
      if rest != wr { fail(format!("op=pop_except_from buffers={bufs:?} rest={rest:?} want={wr:?}")); } n += 1; }
    // eat
    for pat in PATS { for ci in [false, true] {
        let q = mk(bufs);
        let r = if ci { q.eat(pat, u8::eq_ignore_ascii_case) } else { q.eat(pat, |a, b| a == b) };
        let want = if flat.is_empty() { None } else { model_eat(&flat, pat, ci) };
        if r != want { fail(format!("op=eat pattern={pat:?} ignore_case={ci} buffers={bufs:?} got={r:?} want={want:?}")); }
        let rest = drain(&q);
        let wr: String = if r == Some(true) { flat[pat.len()..].to_string() } else { flat.clone() };
        if rest != wr { fail(format!("op=eat pattern={pat:?} ignore_case={ci} buffers={bufs:?} rest={rest:?} want={wr:?}")); }
        n += 1;
    } }
    n
}

fn main() {
    // all strings of length <= 4 over ALPHA, all splits into <= 3 buffers (empty buffers are skipped by push_back)
    let mut strings = vec![String::new()];
    let mut frontier = vec![String::new()];
    for _ in 0..4 { let mut nf = vec![]; for s in &frontier { for c in ALPHA { let mut t = s.clone(); t.push(c); nf.push(t); } } strings.extend(nf.iter().cloned()); frontier = nf; }
    let mut total = 0usize;
    for s in &strings {
        let idx: Vec<usize> = s.char_indices().map(|(i, _)| i).chain(std::iter::once(s.len())).collect();
        for &i in &idx { for &j in &idx { if j < i { continue; }
            let bufs = vec![s[..i].to_string(), s[i..j].to_string(), s[j..].to_string()];
            total += check(&bufs);
        } }
    }
    println!("BOUNDED-OK cases={total} bound=\"<=3 buffers, <=4 chars over {{a,B,-,é}}, 6 patterns\"");
}
